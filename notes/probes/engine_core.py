import z3, itertools, time
class Abort(BaseException): pass
class Ctx:
    cur = None
    def __init__(self):
        self.solver = z3.Solver(); self.trail = []; self.pos = 0; self.pc = []; self.nq = 0
    def decide(self, e):
        e = z3.simplify(e)
        if z3.is_true(e): return True
        if z3.is_false(e): return False
        if self.pos < len(self.trail):
            choice, _ = self.trail[self.pos]
        else:
            t_ok = self._feas(e); f_ok = self._feas(z3.Not(e))
            if not t_ok and not f_ok: raise Abort()
            choice = t_ok
            self.trail.append((choice, t_ok and f_ok))
        self.pos += 1
        c = e if choice else z3.Not(e)
        self.pc.append(c); self.solver.add(c)
        return choice
    def _feas(self, e):
        self.nq += 1
        self.solver.push(); self.solver.add(e); r = self.solver.check(); self.solver.pop()
        return str(r) != "unsat"
def explore(fn, pre=(), maxpaths=100000):
    trail = []; paths = 0; nq = 0
    while True:
        ctx = Ctx(); ctx.trail = trail; Ctx.cur = ctx
        for p in pre: ctx.solver.add(p); ctx.pc.append(p)
        try:
            out = fn(); yield ctx, out
        except Abort: pass
        paths += 1; nq += ctx.nq
        trail = ctx.trail[:ctx.pos]
        while trail and not trail[-1][1]: trail.pop()
        if not trail or paths >= maxpaths: break
        c, _ = trail.pop(); trail.append((not c, False))
def lift(x):
    if isinstance(x, (SR, SB)): return x.e
    if isinstance(x, bool): return z3.BoolVal(x)
    if isinstance(x, (int, float)): return z3.RealVal(x)
    return x
class SB:
    def __init__(s, e): s.e = e
    def __bool__(s): return Ctx.cur.decide(s.e)
class SR:
    def __init__(s, e): s.e = e
    def __add__(s, o): return SR(s.e + lift(o))
    __radd__ = __add__
    def __sub__(s, o): return SR(s.e - lift(o))
    def __rsub__(s, o): return SR(lift(o) - s.e)
    def __mul__(s, o): return SR(s.e * lift(o))
    __rmul__ = __mul__
    def __truediv__(s, o): return SR(s.e / lift(o))
    def __gt__(s, o): return SB(s.e > lift(o))
    def __lt__(s, o): return SB(s.e < lift(o))
    def __ge__(s, o): return SB(s.e >= lift(o))
    def __le__(s, o): return SB(s.e <= lift(o))
