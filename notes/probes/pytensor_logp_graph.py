import warnings; warnings.simplefilter("ignore")
import numpy as np, astropy.units as u
import pymc as pm, pytensor, pytensor.tensor as pt
from pytensor.graph.traversal import ancestors
import thejoker as tj
from thejoker.distributions import UniformLog, FixedCompanionMass
prior = tj.JokerPrior.default(P_min=2*u.day, P_max=256*u.day, sigma_K0=30*u.km/u.s, sigma_v=100*u.km/u.s)
P = prior.pars["P"]
val = pt.dscalar("v")
lp = pm.logp(P, val)
pytensor.dprint(lp)
K = prior.pars["K"]
kv = pt.dscalar("kv")
lpk = pm.logp(K, kv)
pytensor.dprint(lpk)
def walk(var, depth=0, seen=None):
    if var.owner is None:
        print("  "*depth, "LEAF", type(var).__name__, var.name, getattr(var, "data", None)); return
    print("  "*depth, type(var.owner.op).__name__, getattr(var.owner.op, "scalar_op", None))
    for i in var.owner.inputs: walk(i, depth+1)
walk(lp)
