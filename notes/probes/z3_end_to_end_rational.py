import z3, time, sys
def R(n): return z3.Real(n)
def matmul(A,B): return [[sum(A[i][k]*B[k][j] for k in range(len(B))) for j in range(len(B[0]))] for i in range(len(A))]
def inv2(X):
    d = X[0][0]*X[1][1]-X[0][1]*X[1][0]
    return [[X[1][1]/d, -X[0][1]/d],[-X[1][0]/d, X[0][0]/d]], d
nt=nl=2
M = [[R(f"M{n}{i}") for i in range(nl)] for n in range(nt)]
sig2 = [R(f"v{n}") for n in range(nt)]   # sigma_n^2
sj = R("s")
L = [R(f"L{i}") for i in range(nl)]
mu = [R(f"mu{i}") for i in range(nl)]
y = [R(f"y{n}") for n in range(nt)]
s = z3.Solver(); s.set("timeout", 120000)
for x in sig2+L: s.add(x>0)
ivar = [1/v for v in sig2]
use_jitter = sys.argv[1]=="good"
siv = [iv/(1+sj*sj*iv) for iv in ivar]
kiv = siv if use_jitter else ivar
Ainv = [[ (1/L[i] if i==j else 0) + sum(M[n][i]*kiv[n]*M[n][j] for n in range(nt)) for j in range(nl)] for i in range(nl)]
A,_ = inv2(Ainv)
Binv = [[ (kiv[n] if n==m else 0) - sum(kiv[n]*M[n][i]*A[i][j]*M[m][j]*kiv[m] for i in range(nl) for j in range(nl)) for m in range(nt)] for n in range(nt)]
b = [sum(M[n][i]*mu[i] for i in range(nl)) for n in range(nt)]
chi2 = sum((b[m]-y[m])*Binv[n][m]*(b[n]-y[n]) for n in range(nt) for m in range(nt))
Sig = [[ (sig2[n]+sj*sj if n==m else 0) + sum(M[n][i]*L[i]*M[m][i] for i in range(nl)) for m in range(nt)] for n in range(nt)]
Si, d = inv2(Sig)
chi2s = sum((y[m]-b[m])*Si[n][m]*(y[n]-b[n]) for n in range(nt) for m in range(nt))
s.add(chi2 != chi2s)
t=time.time(); r=s.check(); print(r, round(time.time()-t,2))
if str(r)=="sat": print(s.model())
