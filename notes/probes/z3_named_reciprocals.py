import z3, time, sys
R=z3.Real
nt, nl = int(sys.argv[1]), int(sys.argv[2])
sig2=[R(f"sig2_{n}") for n in range(nt)]; s=R("s")
iv=[R(f"iv{n}") for n in range(nt)]; w=[R(f"w{n}") for n in range(nt)]; wi=[R(f"wi{n}") for n in range(nt)]
M=[[R(f"M{n}{i}") for i in range(nl)] for n in range(nt)]
L=[R(f"L{i}") for i in range(nl)]; Li=[R(f"Li{i}") for i in range(nl)]
A=[[R(f"A{i}{j}") for j in range(nl)] for i in range(nl)]
S=z3.Solver(); S.set("timeout",60000)
for n in range(nt): S.add(sig2[n]>0, iv[n]*sig2[n]==1, w[n]*(sig2[n]+s*s)==1, wi[n]*w[n]==1)
for i in range(nl): S.add(L[i]>0, L[i]*Li[i]==1)
tot=time.time(); worst=0
def chk(nm,a,b):
    global worst
    S.push(); S.add(a!=b); t=time.time(); r=S.check(); dt=time.time()-t; worst=max(worst,dt); S.pop()
    if str(r)!="unsat": print(nm,r,round(dt,2))
for i in range(nl):
    for j in range(nl):
        code=(Li[i] if i==j else 0)
        for n in range(nt): code=code+M[n][j]*w[n]*M[n][i]
        chk(f"Ainv{i}{j}", code, sum(M[n][i]*M[n][j]*w[n] for n in range(nt))+(Li[i] if i==j else 0))
for n in range(nt):
    for m in range(nt):
        code=(wi[n] if n==m else 0)
        for i in range(nl): code=code+M[n][i]*L[i]*M[m][i]
        chk(f"B{n}{m}", code, (sig2[n]+s*s if n==m else 0)+sum(L[i]*M[n][i]*M[m][i] for i in range(nl)))
        cb=(w[n] if n==m else 0)
        for i in range(nl):
            for j in range(nl): cb=cb-w[n]*M[n][i]*A[i][j]*M[m][j]*w[m]
        chk(f"Binv{n}{m}", cb, (w[n] if n==m else 0)-w[n]*w[m]*sum(M[n][i]*sum(A[i][j]*M[m][j] for j in range(nl)) for i in range(nl)))
print(nt,nl,"total",round(time.time()-tot,2),"worst",round(worst,2))
