import numpy as np, astropy.units as u, warnings, tempfile, os, hashlib
warnings.simplefilter("ignore")
import thejoker as tj
from astropy.time import Time
from thejoker.data_helpers import validate_prepare_data
# C08
d1 = tj.RVData(Time([1.,3.,5.]+np.zeros(3)+59000, format="mjd", scale="tcb"), [10,11,12]*u.km/u.s, [1,1,1]*u.km/u.s)
d2 = tj.RVData(Time(np.array([2.,4.])+59000, format="mjd", scale="tcb"), [20,21]*u.km/u.s, [1,1]*u.km/u.s)
alld, ids, M = validate_prepare_data([d1,d2], 1, 1)
print("C08 rv", alld.rv.value, "ids", ids, "offset col", M[:,1])
# C15
d = tj.RVData(Time(np.array([2.,4.])+59000, format="mjd", scale="tcb"), [20,21]*u.km/u.s, [1,1]*u.km/u.s, t_ref=Time(58000., format="mjd", scale="tcb"))
print("C15 t_ref", d.t_ref.mjd, d.copy().t_ref.mjd)
# C19
s = tj.JokerSamples({"P": [10.]*u.day}, t_ref=Time(59000., format="mjd", scale="tcb"))
dd = tj.RVData(Time(np.array([4., 5., 6.])+59000, format="mjd", scale="tcb"), [1,2,3]*u.km/u.s, [1,1,1]*u.km/u.s, t_ref=Time(59000., format="mjd", scale="tcb"))
print("C19 phases", dd.phase(10*u.day), "mpg", tj.max_phase_gap(s[0], dd), "expected 0.8")
# C12
s1 = tj.JokerSamples({"P": [1.,2.]*u.day, "e": [0.1,0.2]*u.one})
s2 = tj.JokerSamples({"P": [3.]*u.day})
fn = os.path.join(tempfile.mkdtemp(dir="/tmp/probe"), "x.hdf5")
s1.write(fn)
h0 = hashlib.md5(open(fn,"rb").read()).hexdigest()
try:
    s2.write(fn, append=True); print("C12 append subset accepted")
except Exception as e: print("C12 append raised", type(e).__name__, str(e)[:80])
print("C12 changed:", h0 != hashlib.md5(open(fn,"rb").read()).hexdigest(), len(tj.JokerSamples.read(fn)))
# C14
prior = tj.JokerPrior.default(P_min=2*u.day, P_max=256*u.day, sigma_K0=30*u.km/u.s, sigma_v=100*u.km/u.s)
ps = prior.sample(size=32, rng=np.random.default_rng(1))
ps["e"][3] = np.nan
jk = tj.TheJoker(prior, rng=np.random.default_rng(2))
r = jk.iterative_rejection_sample(dd, ps, n_requested_samples=2, init_batch_size=16, in_memory=True)
print("C14 returned", type(r))
