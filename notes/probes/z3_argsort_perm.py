import z3, time, sys
n=int(sys.argv[1])
t=[z3.Real(f"t{i}") for i in range(n)]; rv=[z3.Real(f"rv{i}") for i in range(n)]
p=[z3.Int(f"p{i}") for i in range(n)]
def sel(arr, idx):
    e = arr[-1]
    for k in range(len(arr)-2, -1, -1): e = z3.If(idx == k, arr[k], e)
    return e
S=z3.Solver(); S.set("timeout",60000)
S.add(z3.Distinct(p)); [S.add(x>=0, x<n) for x in p]
ts=[sel(t,p[i]) for i in range(n)]
for i in range(n-1): S.add(ts[i] <= ts[i+1])
rvs=[sel(rv,p[i]) for i in range(n)]
# VC (good): exists j: out row i equals input row j in both columns -> by construction witness p[i]; check mismatch impossible
t0=time.time(); S.push(); S.add(z3.Or([z3.Not(z3.Or([z3.And(ts[i]==t[j], rvs[i]==rv[j]) for j in range(n)])) for i in range(n)])); print("good", S.check(), round(time.time()-t0,2)); S.pop()
# mutated: ids not permuted (C08 style): label array stays in input order
lab=[z3.IntVal(0 if i < n//2 else 1) for i in range(n)]   # survey of input row i
lab_sorted_true=[sel(lab,p[i]) for i in range(n)]
t0=time.time(); S.push(); S.add(z3.Or([lab_sorted_true[i] != lab[i] for i in range(n)])); r=S.check(); print("ids-unsorted", r, round(time.time()-t0,2))
if str(r)=="sat": m=S.model(); print([m.eval(x) for x in t], [m.eval(x) for x in p])
