"""Throwaway probe: transliterate fast_likelihood.pyx to Python source."""
import re, sys
src = open("/repo/thejoker/src/fast_likelihood.pyx").read().split("\n")
CT = r"(?:unsigned\s+)?(?:int|double|long|float|char\*?|object|bint|void|public\s+\w+(?:\[[^\]]*\])?|double\[[^\]]*\]|int\[[^\]]*\])"
out = []
i = 0
def strip_params(sig):
    # remove C types in a parameter list
    parts = []
    depth = 0; cur = ""
    for ch in sig:
        if ch in "[(": depth += 1
        if ch in "])": depth -= 1
        if ch == "," and depth == 0: parts.append(cur); cur = ""
        else: cur += ch
    parts.append(cur)
    res = []
    for p in parts:
        p = p.strip()
        m = re.match(r"^(?:double|int|object|long|float)(?:\[[^\]]*\])?\s+(\w+)(.*)$", p)
        res.append(m.group(1) + m.group(2) if m else p)
    return ", ".join(res)
def fix_expr(line):
    # pointer-taking:  &(X)[0] / &X[0, 0] / &(X[0,0]) / &X  ->  _ptr(X, idx)
    line = re.sub(r"&\(?([\w\.]+)\)?\[([^\]]*)\]\)?", r"_ptr(\1, (\2,))", line)
    line = re.sub(r"&\(([\w\.]+)\)", r"\1", line)
    line = re.sub(r"&([\w\.]+)", r"_ref('\1')", line)
    return line
in_cdef_block = False; block_indent = None; skip_extern = False
while i < len(src):
    line = src[i]; i += 1
    s = line.strip(); ind = len(line) - len(line.lstrip())
    if skip_extern:
        if s == "" or ind > 0: continue
        skip_extern = False
    if in_cdef_block:
        if s == "" : out.append(line); continue
        if ind <= block_indent: in_cdef_block = False
        else:
            if s.startswith("#"): out.append(" " * block_indent + s); continue
            m = re.match(r"^(?:public\s+)?(?:unsigned\s+)?[\w\*]+(?:\[[^\]]*\])?\*?\s+(.*)$", s)
            body = m.group(1) if m else s
            # continuation lines (inside parens) handled naively: keep as is
            if "=" in body: out.append(" " * block_indent + fix_expr(body))
            elif not m: out.append(" " * block_indent + fix_expr(s))
            continue
    if s.startswith("cimport") or re.match(r"^from\s+[\w\.]+\s+cimport", s) or s == "np.import_array()":
        continue
    if s.startswith("cdef extern"): skip_extern = True; continue
    if s == "cdef:": in_cdef_block = True; block_indent = ind; continue
    m = re.match(r"^(\s*)cdef class (\w+):", line)
    if m: out.append(f"{m.group(1)}class {m.group(2)}:"); continue
    m = re.match(r"^(\s*)c?p?def\s+(?:[\w\*]+\s+)?(\w+)\((.*)\):\s*$", line)
    if m and (s.startswith("cdef") or s.startswith("cpdef") or s.startswith("def")):
        out.append(f"{m.group(1)}def {m.group(2)}({strip_params(m.group(3))}):"); continue
    m = re.match(r"^(\s*)c?p?def\s+(?:[\w\*]+\s+)?(\w+)\((.*),\s*$", line)
    if m and (s.startswith("cdef") or s.startswith("cpdef") or s.startswith("def")):
        # multi-line signature
        sig = m.group(3)
        while True:
            nxt = src[i]; i += 1
            if nxt.rstrip().endswith("):"):
                sig += ", " + nxt.strip()[:-2]; break
            sig += ", " + nxt.strip().rstrip(",")
        out.append(f"{m.group(1)}def {m.group(2)}({strip_params(sig)}):"); continue
    m = re.match(r"^(\s*)cdef\s+" + r"[\w\*]+(?:\[[^\]]*\])?\s+(.*)$", line)
    if m:
        body = m.group(2)
        if "=" in body: out.append(m.group(1) + fix_expr(body))
        continue
    out.append(fix_expr(line))
print("\n".join(out))
