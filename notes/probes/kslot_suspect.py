import numpy as np, astropy.units as u, warnings
warnings.simplefilter("ignore")
import pymc as pm
import thejoker as tj, thejoker.units as xu
from astropy.time import Time
rng = np.random.default_rng(42)
def mk(n, off=0.):
    t = Time(59000 + np.sort(rng.uniform(0, 300, n)), format="mjd", scale="tcb")
    return tj.RVData(t, (rng.normal(0, 10, n)+off) * u.km/u.s, np.full(n, 1.0) * u.km/u.s)
d1, d2 = mk(4), mk(3, 5.)
with pm.Model() as model:
    dv = xu.with_unit(pm.Normal("dv0_1", 0, 5.), u.km/u.s)
    K = xu.with_unit(pm.Normal("K", 0, 20.), u.km/u.s)
    prior = tj.JokerPrior.default(P_min=2*u.day, P_max=256*u.day, sigma_v=100*u.km/u.s, v0_offsets=[dv], pars={"K": K})
s = prior.sample(size=4, rng=np.random.default_rng(1))
joker = tj.TheJoker(prior, rng=np.random.default_rng(2))
print(joker.marginal_ln_likelihood([d1, d2], s, in_memory=True))
h = joker._make_joker_helper([d1,d2])
print(prior.par_names)
with pm.Model() as model:
    dv = xu.with_unit(pm.Normal("dv0_1", 0, 5.), u.km/u.s)
    prior2 = tj.JokerPrior.default(P_min=2*u.day, P_max=256*u.day, sigma_v=100*u.km/u.s, sigma_K0=30*u.km/u.s, v0_offsets=[dv])
s = prior2.sample(size=4, rng=np.random.default_rng(1))
joker = tj.TheJoker(prior2, rng=np.random.default_rng(2))
print(joker.marginal_ln_likelihood([d1, d2], s, in_memory=True))
