import re, types, math, warnings
warnings.simplefilter("ignore")
import numpy as np, scipy.linalg.lapack as sl
src = open("/tmp/probe/fl_py.py").read()
# out-param handling for info
src = re.sub(r"^(\s*)(lapack\.\w+\()", r"\1info = \2", src, flags=re.M)
src = src.replace("_ref('info')", "None")
src = re.sub(r"_ref\('([\w\.]+)'\)", r"\1", src)
src = src.replace("from ..distributions import FixedCompanionMass", "from thejoker.distributions import FixedCompanionMass")
class Ptr:
    def __init__(s, arr, idx): s.arr, s.idx = arr, idx
def _ptr(arr, idx): return Ptr(arr, idx)
class Lapack:
    def dgetrf(self, m, n, A, lda, ipiv, info):
        a = np.asarray(A.arr); lu, piv, inf = sl.dgetrf(a.T)  # row-major memory seen as Fortran = transpose
        a[...] = lu.T; np.asarray(ipiv.arr)[...] = piv + 1; return inf
    def dgetri(self, n, A, lda, ipiv, work, lwork, info):
        a = np.asarray(A.arr); inv, inf = sl.dgetri(a.T, np.asarray(ipiv.arr) - 1); a[...] = inv.T; return inf
    def dsysv(self, uplo, n, nrhs, A, lda, ipiv, b, ldb, work, lwork, info):
        a = np.asarray(A.arr); bb = np.asarray(b.arr)
        lower = 0 if uplo in ('U', b'U') else 1
        udut, piv, x, inf = sl.dsysv(a.T, bb, lower=lower); bb[...] = x; return inf
from twobody.wrap import cy_rv_from_elements
def c_rv_from_elements(t, rv, N, P, K, e, om, M0, t0, tol, maxiter):
    tt = np.asarray(t.arr)[t.idx[0]:t.idx[0]+N]
    out = np.asarray(cy_rv_from_elements(np.ascontiguousarray(tt), P, K, e, om, M0, t0, tol, maxiter))
    flat = np.asarray(rv.arr).reshape(-1); off = np.ravel_multi_index(rv.idx, np.asarray(rv.arr).shape)
    flat[off:off+N] = out
g = {"__name__": "fl_py", "_ptr": _ptr, "lapack": Lapack(), "c_rv_from_elements": c_rv_from_elements,
     "pow": math.pow, "log": math.log, "fabs": math.fabs, "pi": math.pi}
src = src.replace("import cython\n", "")
exec(compile(src, "fl_py.py", "exec"), g)
PyHelper = g["CJokerHelper"]

import astropy.units as u, pymc as pm
import thejoker as tj, thejoker.units as xu
from astropy.time import Time
from thejoker.data_helpers import validate_prepare_data
rng = np.random.default_rng(42)
def mk(n, off=0.):
    t = Time(59000 + np.sort(rng.uniform(0, 300, n)), format="mjd", scale="tcb")
    return tj.RVData(t, (rng.normal(0, 10, n)+off) * u.km/u.s, rng.uniform(0.5, 2, n) * u.km/u.s)
d1, d2 = mk(5), mk(3, 5.)
with pm.Model():
    dv = xu.with_unit(pm.Normal("dv0_1", 1., 5.), u.km/u.s)
    prior = tj.JokerPrior.default(P_min=2*u.day, P_max=256*u.day, sigma_v=[100*u.km/u.s, 1*u.km/u.s/u.day], sigma_K0=30*u.km/u.s, v0_offsets=[dv], poly_trend=2, s=2*u.km/u.s)
s = prior.sample(size=5, rng=np.random.default_rng(1))
joker = tj.TheJoker(prior, rng=np.random.default_rng(2))
all_data, ids, trend_M = validate_prepare_data([d1, d2], prior.poly_trend, prior.n_offsets)
real = joker._make_joker_helper([d1, d2])
mine = PyHelper(all_data, prior, np.ascontiguousarray(trend_M))
chunk, _ = s.pack(units=real.internal_units, names=real.packed_order)
a = np.array(real.batch_marginal_ln_likelihood(chunk)); b = np.array(mine.batch_marginal_ln_likelihood(chunk))
print(a); print(b); print("max |diff|", np.abs(a-b).max())
class RecRng:
    def multivariate_normal(self, mean, cov, size): self.args=(np.array(mean), np.array(cov)); return np.zeros((size, len(mean)))
r1, r2 = RecRng(), RecRng()
s1,_ = real.batch_get_posterior_samples(chunk[:2], 2, r1); s2,_ = mine.batch_get_posterior_samples(chunk[:2], 2, r2)
print(np.abs(r1.args[0]-r2.args[0]).max(), np.abs(r1.args[1]-r2.args[1]).max(), np.abs(s1-s2).max())
