import warnings; warnings.simplefilter("ignore")
import numpy as np, astropy.units as u
import pymc as pm, pytensor
import thejoker as tj, thejoker.units as xu
from astropy.time import Time
rng = np.random.default_rng(42)
def mk(n, off=0.):
    t = Time(59000 + np.sort(rng.uniform(0, 300, n)), format="mjd", scale="tcb")
    return tj.RVData(t, (rng.normal(0, 10, n)+off) * u.km/u.s, rng.uniform(0.5, 2, n) * u.km/u.s)
d1, d2 = mk(3), mk(2, 5.)
with pm.Model() as model:
    dv = xu.with_unit(pm.Normal("dv0_1", 1., 5.), u.km/u.s)
    s = xu.with_unit(pm.Lognormal("s", 0, 0.5), u.km/u.s)
    prior = tj.JokerPrior.default(P_min=2*u.day, P_max=256*u.day, sigma_v=[100*u.km/u.s, 1*u.km/u.s/u.day], sigma_K0=30*u.km/u.s, v0_offsets=[dv], poly_trend=2, s=s)
    joker = tj.TheJoker(prior, rng=np.random.default_rng(2))
    ps = prior.sample(size=3, generate_linear=True, rng=np.random.default_rng(1))
    init = joker.setup_mcmc([d1, d2], ps)
print(init)
pytensor.dprint(model["model_rv"])
ops=set()
from pytensor.graph.traversal import ancestors
for v in ancestors([model["model_rv"], model["ln_likelihood"]]):
    if v.owner is not None: ops.add((type(v.owner.op).__name__, str(getattr(v.owner.op,"scalar_op",""))))
print(sorted(ops))
