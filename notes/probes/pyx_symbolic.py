import sys, re, z3, time, math
sys.path.insert(0, "/tmp/probe/eng")
from core import SR, SB, lift, Ctx, explore
R = z3.RealSort()
RECIP = z3.Function("RECIP", R, R); POW = z3.Function("POW", R, R, R); LOG = z3.Function("LOG", R, R)
RV = z3.Function("RV", R, R, R, R, R, R, R)  # (t, t0, P, e, om, M0)
class X(SR):
    def __truediv__(s, o):
        o = lift(o)
        if z3.is_rational_value(o) or z3.is_int_value(o): return X(s.e / o)
        return X(s.e * RECIP(o))
    def __rtruediv__(s, o): return X(lift(o) * RECIP(s.e))
    def __pow__(s, o):
        if isinstance(o, int) and o >= 0:
            r = z3.RealVal(1)
            for _ in range(o): r = r * s.e
            return X(r)
        return X(POW(s.e, lift(o)))
    def __neg__(s): return X(-s.e)
    def __eq__(s, o): return SB(s.e == lift(o))
    def __ne__(s, o): return SB(s.e != lift(o))
    __hash__ = None
for n in ("__add__", "__radd__", "__sub__", "__rsub__", "__mul__", "__rmul__"):
    def mk(n):
        f = getattr(SR, n)
        def g(s, o): return X(f(s, o).e)
        return g
    setattr(X, n, mk(n))
def wrap(v): return v if isinstance(v, (X, int)) else X(lift(v)) if isinstance(v, SR) else (X(z3.RealVal(v)) if isinstance(v, float) else v)
class Arr:
    def __init__(s, shape, fill=0.0):
        s.shape = tuple(shape); n = 1
        for d in shape: n *= d
        s.c = [wrap(fill) for _ in range(n)]
    def _ix(s, k):
        if not isinstance(k, tuple): k = (k,)
        assert len(k) == len(s.shape), (k, s.shape)
        off = 0
        for i, d in zip(k, s.shape):
            assert isinstance(i, int) and -d <= i < d, ("index", k, s.shape)
            off = off * d + (i % d)
        return off
    def __getitem__(s, k): return s.c[s._ix(k)]
    def __setitem__(s, k, v): s.c[s._ix(k)] = wrap(v)
    def __len__(s): return s.shape[0]
class Ptr:
    def __init__(s, a, idx): s.a, s.off = a, a._ix(idx)
class NP:
    nan = float("nan"); float64 = "f8"; int32 = "i4"
    def zeros(s, shape, dtype=None): return Arr(shape if isinstance(shape, tuple) else (shape,))
    def full(s, shape, v): return Arr(shape if isinstance(shape, tuple) else (shape,), 0.0)
    def ascontiguousarray(s, a, dtype=None): return a
    def array(s, a): return a
hyps = []; calls = []
class Lapack:
    def dgetrf(s, m, n, A, lda, ipiv, info):
        a = A.a; inp = list(a.c); calls.append(("dgetrf", n, inp))
        tag = len(calls)
        a.c = [X(z3.Real(f"LU{tag}_{i}")) for i in range(len(inp))]; a._lu_of = inp; return 0
    def dgetri(s, n, A, lda, ipiv, work, lwork, info):
        a = A.a; inp = a._lu_of; tag = len(calls); calls.append(("dgetri", n, inp))
        a.c = [X(z3.Real(f"INV{tag}_{i}")) for i in range(n * n)]
        hyps.append(("inv", inp, list(a.c), n)); return 0
    def dsysv(s, uplo, n, nrhs, A, lda, ipiv, b, ldb, work, lwork, info):
        calls.append(("dsysv", n, list(A.a.c), list(b.a.c)))
        b.a.c = [X(z3.Real(f"SOL_{i}")) for i in range(n)]; return 0
def c_rv_from_elements(t, rv, N, P, K, e, om, M0, t0, tol, maxiter):
    calls.append(("kepler", t.off, rv.off, N, P, K, e, om, M0, t0))
    for n in range(N):
        rv.a.c[rv.off + n] = X(lift(K) * RV(lift(t.a.c[t.off + n]), lift(t0), lift(P), lift(e), lift(om), lift(M0)))
def smin(a, b):
    a, b = wrap(a), wrap(b); return X(z3.If(a.e < b.e, a.e, b.e))
src = open("/tmp/probe/fl_py.py").read()
src = re.sub(r"^(\s*)(lapack\.\w+\()", r"\1info = \2", src, flags=re.M)
src = src.replace("_ref('info')", "None"); src = re.sub(r"_ref\('([\w\.]+)'\)", r"\1", src)
src = src.replace("import cython\n", "").replace("import numpy as np\n", "")
src = src.replace("from thejoker.utils import _pytensor_get_mean_std", "").replace("import thejoker.units as xu", "").replace("import astropy.units as u", "")
class U:  # minimal unit namespace, scale-free for this probe
    day = one = radian = 1
g = {"__name__": "flsym", "_ptr": lambda a, i: Ptr(a, i), "lapack": Lapack(), "c_rv_from_elements": c_rv_from_elements,
     "np": NP(), "u": U, "min": smin, "pi": math.pi, "INFv": None,
     "log": lambda x: X(LOG(lift(x))), "fabs": lambda x: X(z3.If(lift(x) < 0, -lift(x), lift(x))), "pow": None}
exec(compile(src, "flsym", "exec"), g)
H = g["CJokerHelper"]
def build(nt, nl, fixedK):
    h = H.__new__(H)
    h.n_times, h.n_linear, h.n_offsets, h.n_poly = nt, nl, 0, nl - 1
    mk = lambda nm, n: [X(z3.Real(f"{nm}{i}")) for i in range(n)]
    def arr(shape, cells): a = Arr(shape); a.c = cells; return a
    h.t = arr((nt,), mk("t", nt)); h.rv = arr((nt,), mk("y", nt)); h.t0 = X(z3.Real("tref"))
    sig2 = [z3.Real(f"sig2_{i}") for i in range(nt)]
    h.ivar = arr((nt,), [X(RECIP(v)) for v in sig2]); h.s_ivar = arr((nt,), mk("junk_siv", nt))
    h.M_T = arr((nl, nt), mk("junkM", nt) + [X(z3.Real(f"T{i}_{n}")) for i in range(1, nl) for n in range(nt)])
    h.mu = arr((nl,), mk("mu", nl)); h.Lambda = arr((nl,), mk("L", nl))
    h.fixed_K_prior = 0 if fixedK else 1
    h.sigma_K0, h.P0, h.max_K = X(z3.Real("sK0")), X(z3.Real("P0")), X(z3.Real("maxK"))
    for nm, shp in (("Btmp", (nt, nt)), ("B", (nt, nt)), ("Binv", (nt, nt)), ("Atmp", (nl, nl)), ("A", (nl, nl)), ("Ainv", (nl, nl))):
        setattr(h, nm, arr(shp, mk("junk" + nm, shp[0] * shp[1])))
    for nm, n in (("b", nt), ("a", nl), ("npar_ipiv", nl), ("ntime_ipiv", nt), ("npar_work", nl), ("ntime_work", nt)):
        setattr(h, nm, arr((n,), mk("junk" + nm, n)))
    return h, sig2
def main(nt, nl):
    t0 = time.time()
    hyps.clear(); calls.clear()
    h, sig2 = build(nt, nl, True)
    chunk = Arr((1, 5)); P, e, om, M0, sj = [z3.Real(x) for x in ("P", "e", "om", "M0", "s")]
    chunk.c = [X(P), X(e), X(om), X(M0), X(sj)]
    Ctx.cur = Ctx()
    ll = h.batch_marginal_ln_likelihood(chunk)
    print(f"nt={nt} nl={nl}: symbolic run {time.time()-t0:.2f}s, calls:", [c[0] for c in calls])
    s = z3.Solver(); s.set("timeout", 30000)
    # precise facts about reciprocals as axiom instances
    s.add([v > 0 for v in sig2])
    # V1: s_ivar_n == 1/(sig2+s^2)  (exact small query with true division)
    res = {}
    for n in range(nt):
        q = z3.Solver(); q.add(sig2[n] > 0)
        code = z3.substitute(lift(h.s_ivar[n]), (RECIP(sig2[n]), 1 / sig2[n]))
        # replace remaining RECIP applications by true division
        q.add(code != 1 / (sig2[n] + sj * sj)); res[f"V1[{n}] (exact)"] = q.check()
    # V4: matrix handed to first dgetrf == Linv + M^T W M with W = s_ivar (spec uses W symbol = code's s_ivar cell)
    W = [lift(h.s_ivar[n]) for n in range(nt)]
    M = [[lift(h.M_T[i, n]) for i in range(nl)] for n in range(nt)]
    L0 = z3.If(z3.Real("maxK") * z3.Real("maxK") < lift(X(z3.Real("sK0")) ** 2 / (1 - X(e) ** 2) * (X(P) / X(z3.Real("P0"))) ** (-2 / 3.)),
               z3.Real("maxK") * z3.Real("maxK"), lift(X(z3.Real("sK0")) ** 2 / (1 - X(e) ** 2) * (X(P) / X(z3.Real("P0"))) ** (-2 / 3.)))
    Lam = [L0] + [z3.Real(f"L{i}") for i in range(1, nl)]
    res["V2 Lambda[0]"] = chk(s, lift(h.Lambda[0]), L0)
    first = calls[1][2]   # dgetrf input (after kepler call)
    bad = []
    for i in range(nl):
        for j in range(nl):
            spec = (RECIP(Lam[i]) if i == j else 0) + sum(M[n][i] * W[n] * M[n][j] for n in range(nt))
            r = chk(s, lift(first[i * nl + j]), spec)
            if str(r) != "unsat": bad.append((i, j, r))
    res["V4 Ainv==spec (W=s_ivar)"] = bad or "unsat"
    print("   ", res, f"total {time.time()-t0:.2f}s")
    if bad:
        s.push(); i, j, _ = bad[0]
        spec = (RECIP(Lam[i]) if i == j else 0) + sum(M[n][i] * W[n] * M[n][j] for n in range(nt))
        s.add(lift(first[i * nl + j]) != spec); s.check(); m = s.model()
        print("    model for V4[%d,%d]:" % (i, j), {str(d): m[d] for d in m.decls() if d.arity() == 0 and str(d) in ("s", "sig2_0", "P", "e")})
def chk(s, a, b):
    s.push(); s.add(a != b); r = s.check(); s.pop(); return r
for nt, nl in ((1, 2), (2, 2), (3, 3), (3, 5)): main(nt, nl)
