import numpy as np, astropy.units as u, warnings
warnings.simplefilter("ignore")
import thejoker as tj
from astropy.time import Time
rng = np.random.default_rng(42)
t = Time(59000 + np.sort(rng.uniform(0, 300, 6)), format="mjd", scale="tcb")
rv = rng.normal(0, 10, 6) * u.km/u.s
err = np.full(6, 1.0) * u.km/u.s
data = tj.RVData(t, rv, err)
for sval in [0, 5, 50]:
    prior = tj.JokerPrior.default(P_min=2*u.day, P_max=256*u.day, sigma_K0=30*u.km/u.s, sigma_v=100*u.km/u.s, s=sval*u.km/u.s)
    s = prior.sample(size=4, rng=np.random.default_rng(1))
    joker = tj.TheJoker(prior, rng=np.random.default_rng(2))
    print(sval, s["s"][:2], joker.marginal_ln_likelihood(data, s, in_memory=True))
