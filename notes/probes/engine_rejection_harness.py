import sys, z3, time, types, importlib.util
sys.path.insert(0, "/tmp/probe/eng")
import core, symnp
from core import SR, SB, lift, explore
def load(path, mutate=None):
    src = open(path).read()
    if mutate: src = mutate(src)
    real_import = __import__
    def imp(name, g=None, l=None, fromlist=(), level=0):
        if name == "numpy": return symnp
        if level == 1 and name == "logging":
            m = types.ModuleType("lg"); 
            class L: 
                def log(self, *a): pass
            m.logger = L(); return m
        return real_import(name, g, l, fromlist, level)
    b = dict(vars(__import__("builtins"))); b["__import__"] = imp
    ns = {"__name__": "thejoker.likelihood_helpers", "__package__": "thejoker", "__builtins__": b}
    exec(compile(src, path, "exec"), ns)
    return ns
def run(N, mutate=None):
    ns = load("/repo/thejoker/likelihood_helpers.py", mutate)
    ll = [z3.Real(f"ll{i}") for i in range(N)]; v = [z3.Real(f"v{i}") for i in range(N)]
    kmax = z3.Int("kmax")
    pre = [x <= 0 for x in v] + [kmax >= 0]
    class Helper:
        def batch_marginal_ln_likelihood(self, b): return symnp.ndarray([SR(x) for x in ll])
    class Rng:
        def uniform(self, size): return symnp.ndarray([SR(symnp.EXP(x)) for x in v[:size]])
    got = {}
    ns["make_full_samples_inmem"] = lambda h, b, rng, n_linear_samples=1: (got.__setitem__("rows", b.items) or {})
    class KM(SR):
        def __le__(s, o): return SB(s.e <= o)
    def body():
        got.clear(); symnp.exp_terms.clear()
        ns["rejection_sample_inmem"](Helper(), symnp.ndarray(list(range(N))), Rng(), max_posterior_samples=KM(z3.ToReal(kmax)))
        return list(got["rows"])
    t0 = time.time(); npaths = 0; bad = []
    for ctx, rows in explore(body, pre):
        npaths += 1
        # monotonic EXP axioms over the terms present
        terms = symnp.exp_terms + v
        ax = [ (symnp.EXP(a) > symnp.EXP(b)) == (a > b) for a in terms for b in terms ]
        mx = ll[0]
        for x in ll[1:]: mx = z3.If(x > mx, x, mx)
        spec_acc = [ ll[i] - mx > v[i] for i in range(N) ]
        # post: rows == first kmax accepted by spec
        cnt = 0; conds = []
        for i in range(N):
            before = z3.Sum([z3.If(spec_acc[j], 1, 0) for j in range(i)]) if i else z3.IntVal(0)
            keep = z3.And(spec_acc[i], before < kmax)
            conds.append(keep == z3.BoolVal(i in rows))
        s = ctx.solver; s.push(); s.add(ax); s.add(z3.Not(z3.And(conds))); r = s.check()
        if str(r) != "unsat": bad.append((rows, r, s.model() if str(r) == "sat" else None))
        s.pop()
    print(f"N={N} paths={npaths} bad={len(bad)} time={time.time()-t0:.2f}s")
    for b in bad[:2]: print("  ", b[0], b[1], b[2])
if __name__ == "__main__":
    for N in (2, 3, 4, 5): run(N)
    run(3, lambda s: s.replace("np.exp(lls - lls.max()) > uu", "np.exp(lls - lls.max()) < uu"))
    run(3, lambda s: s.replace("np.exp(lls - lls.max()) > uu", "np.exp(lls - lls.mean()) > uu"))
    run(3, lambda s: s.replace("good_samples_idx[:max_posterior_samples]", "good_samples_idx[-max_posterior_samples:]"))
