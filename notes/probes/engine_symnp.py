import z3, builtins
from core import SR, SB, lift, Ctx
float64 = "f8"
EXP = z3.Function("EXP", z3.RealSort(), z3.RealSort())
exp_terms = []
class ndarray:
    def __init__(s, items): s.items = list(items)
    dtype = float64
    def __len__(s): return len(s.items)
    def _bin(s, o, f):
        if isinstance(o, ndarray): return ndarray([f(a, b) for a, b in zip(s.items, o.items)])
        return ndarray([f(a, o) for a in s.items])
    def __sub__(s, o): return s._bin(o, lambda a, b: a - b)
    def __gt__(s, o): return s._bin(o, lambda a, b: a > b)
    def __lt__(s, o): return s._bin(o, lambda a, b: a < b)
    def max(s):
        m = s.items[0]
        for x in s.items[1:]: m = SR(z3.If(lift(x) > lift(m), lift(x), lift(m)))
        return m
    def mean(s):
        t = s.items[0]
        for x in s.items[1:]: t = t + x
        return t / len(s.items)
    def __getitem__(s, k):
        if isinstance(k, ndarray): return ndarray([s.items[i] for i in k.items])
        if isinstance(k, slice):
            if k.stop is not None and not isinstance(k.stop, int):
                # symbolic stop: fork on value
                for v in range(len(s.items) + 1):
                    if (k.stop <= v) if v == 0 else (k.stop <= v): return ndarray(s.items[:v])
                return ndarray(s.items)
            return ndarray(s.items[k])
        return s.items[k]
def exp(a):
    out = []
    for x in a.items:
        t = EXP(lift(x)); exp_terms.append(lift(x)); out.append(SR(t))
    return ndarray(out)
def where(c): return (ndarray([i for i, b in enumerate(c.items) if bool(b)]),)
def array(x): return x
