from typing import List, Dict
from thejoker.samples_helpers import _custom_tbl_dtype_compare

def refuse_incompatible(d1: List[Dict[str, str]], d2: List[Dict[str, str]]) -> bool:
    """
    pre: len(d1) <= 2 and len(d2) <= 2
    pre: all(set(d.keys()) <= {"name", "datatype", "unit"} and "name" in d and "datatype" in d for d in d1 + d2)
    post: _
    """
    ok = _custom_tbl_dtype_compare(d1, d2)
    if ok:
        # accepted => same number of columns and same names
        return len(d1) == len(d2) and [d["name"] for d in d1] == [d["name"] for d in d2]
    return True
