from typing import List, Tuple
from thejoker.utils import batch_tasks

def check_cover(n_tasks: int, n_batches: int, start_idx: int) -> bool:
    """
    pre: 1 <= n_tasks <= 12
    pre: 1 <= n_batches <= 14
    pre: 0 <= start_idx <= 5
    post: _
    """
    tasks = batch_tasks(n_tasks, n_batches, start_idx=start_idx)
    cur = start_idx
    for (i1, i2), sid in tasks:
        if i1 != cur or i2 <= i1 or sid != i1:
            return False
        cur = i2
    return cur == start_idx + n_tasks

def check_witness(n_tasks: int, n_batches: int) -> bool:
    """
    pre: 1 <= n_tasks <= 12
    pre: 1 <= n_batches <= 14
    post: _
    """
    tasks = batch_tasks(n_tasks, n_batches)
    return len(tasks) != 3
