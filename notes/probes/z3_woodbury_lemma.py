import z3, time, sys
R=z3.Real
def matmul(A,B): return [[sum(A[i][k]*B[k][j] for k in range(len(B))) for j in range(len(B[0]))] for i in range(len(A))]
nt,nl=int(sys.argv[1]),int(sys.argv[2])
M=[[R(f"M{n}{i}") for i in range(nl)] for n in range(nt)]
w=[R(f"w{n}") for n in range(nt)]
L=[R(f"L{i}") for i in range(nl)]
A=[[R(f"A{i}{j}") for j in range(nl)] for i in range(nl)]
G=[[(1 if i==j else 0)+L[i]*sum(M[n][i]*w[n]*M[n][j] for n in range(nt)) for j in range(nl)] for i in range(nl)]
GA=matmul(G,A)
D=[[(L[i] if i==j else 0)-GA[i][j] for j in range(nl)] for i in range(nl)]
Bp=[[(1 if n==m else 0)+w[n]*sum(M[n][i]*L[i]*M[m][i] for i in range(nl)) for m in range(nt)] for n in range(nt)]
Binv=[[(w[n] if n==m else 0)-sum(w[n]*M[n][i]*A[i][j]*M[m][j]*w[m] for i in range(nl) for j in range(nl)) for m in range(nt)] for n in range(nt)]
Q=matmul(Bp,Binv)
RHS=[[w[n]*sum(M[n][i]*D[i][j]*M[m][j] for i in range(nl) for j in range(nl))*w[m] for m in range(nt)] for n in range(nt)]
tot=time.time(); res={}
tac = z3.Then(z3.With("simplify", som=True, sort_sums=True, flat=True), "smt")
for n in range(nt):
    for m in range(nt):
        diff = Q[n][m]-(w[n] if n==m else 0)-RHS[n][m]
        t=time.time()
        sd = z3.simplify(diff, som=True, flat=True, sort_sums=True)
        ok1 = z3.is_rational_value(sd) and sd.numerator_as_long()==0
        s = tac.solver(); s.set("timeout", 30000); s.add(diff != 0); r = str(s.check())
        res[(ok1, r)] = res.get((ok1, r),0)+1
print("som",nt,nl,res,"total",round(time.time()-tot,2))
