import warnings; warnings.simplefilter("ignore")
import sys; sys.path.insert(0, "/tmp/probe/z3lib")
import numpy as np, z3, time
import pymc as pm, pytensor, pytensor.tensor as pt
from pytensor.tensor.elemwise import Elemwise, DimShuffle, CAReduce
from pytensor.tensor.random.op import RandomVariable
R = z3.RealSort()
UF = {n: z3.Function(n.upper(), R, R) for n in ("log", "exp", "sin", "cos", "sqrt")}
ATAN2 = z3.Function("ATAN2", R, R, R); POW = z3.Function("POW", R, R, R)
KSIN = z3.Function("KSIN", R, R, R); KCOS = z3.Function("KCOS", R, R, R)
def L(x): return x if isinstance(x, z3.ExprRef) else z3.RealVal(repr(float(x))) if not isinstance(x, (bool, np.bool_)) else z3.BoolVal(bool(x))
def vec(f): return np.frompyfunc(f, f.__code__.co_argcount, 1)
def powf(a, b):
    b_ = L(b)
    if z3.is_rational_value(b_) and b_.denominator_as_long() == 1 and 0 <= b_.numerator_as_long() <= 4:
        r = z3.RealVal(1)
        for _ in range(b_.numerator_as_long()): r = r * L(a)
        return r
    return POW(L(a), b_)
SC = {"add": lambda a, b: L(a) + L(b), "sub": lambda a, b: L(a) - L(b), "mul": lambda a, b: L(a) * L(b),
      "true_div": lambda a, b: L(a) / L(b), "neg": lambda a: -L(a), "pow": powf,
      "gt": lambda a, b: L(a) > L(b), "lt": lambda a, b: L(a) < L(b), "and": lambda a, b: z3.And(L(a), L(b)),
      "arctan2": lambda a, b: ATAN2(L(a), L(b)), "second": lambda a, b: L(b),
      "clip": lambda x, lo, hi: z3.If(L(x) < L(lo), L(lo), z3.If(L(x) > L(hi), L(hi), L(x)))}
for n, f in UF.items(): SC[n] = (lambda f: lambda a: f(L(a)))(f)
unknown = set()
def ev(var, env, memo):
    if id(var) in memo: return memo[id(var)]
    if var in env: r = env[var]
    elif var.owner is None:
        r = np.asarray(var.data, dtype=object) if hasattr(var, "data") else None
        if r is None: raise KeyError(var)
    else:
        op = var.owner.op; ins = var.owner.inputs
        if isinstance(op, RandomVariable):
            r = np.asarray(z3.FreshConst(R, "rv_" + str(var.name)), dtype=object)
        elif isinstance(op, Elemwise):
            nm = type(op.scalar_op).__name__.lower(); nm = {"and_": "and", "truediv": "true_div"}.get(nm, nm)
            if nm not in SC: unknown.add(nm); raise NotImplementedError(nm)
            args = [ev(i, env, memo) for i in ins]
            r = np.asarray(vec(SC[nm])(*args), dtype=object)
        elif isinstance(op, DimShuffle):
            a = ev(ins[0], env, memo); order = op.new_order
            a = np.asarray(a, dtype=object)
            keep = [o for o in order if o != "x"]
            dropped = [ax for ax in range(a.ndim) if ax not in keep]
            a = a.transpose(keep + dropped).reshape([a.shape[k] for k in keep])
            r = a.reshape([1 if o == "x" else a.shape[keep.index(o)] for o in order])
        elif type(op).__name__ == "Dot":
            a, b = [ev(i, env, memo) for i in ins]
            r = np.empty((a.shape[0], b.shape[1]), dtype=object)
            for i in range(a.shape[0]):
                for j in range(b.shape[1]): r[i, j] = z3.Sum([L(a[i, k]) * L(b[k, j]) for k in range(a.shape[1])])
        elif type(op).__name__ == "MakeVector":
            r = np.array([ev(i, env, memo).item() for i in ins], dtype=object)
        elif type(op).__name__ in ("ViewOp", "ScalarFromTensor", "TensorFromScalar"):
            r = ev(ins[0], env, memo)
        elif type(op).__name__ == "CheckParameterValue":
            r = ev(ins[0], env, memo)   # condition handled separately
        elif type(op).__name__ == "Kepler":
            M, e = [ev(i, env, memo) for i in ins]
            idx = var.owner.outputs.index(var)
            f = KSIN if idx == 0 else KCOS
            r = np.asarray(np.frompyfunc(lambda a, b: f(L(a), L(b)), 2, 1)(M, e), dtype=object)
        else:
            unknown.add(type(op).__name__); raise NotImplementedError(type(op).__name__)
    memo[id(var)] = r; return r
# --- C09: UniformLog logp
import astropy.units as u, thejoker as tj, thejoker.units as xu
from thejoker.distributions import UniformLog
a, b, v = pt.dscalar("a"), pt.dscalar("b"), pt.dscalar("v")
lp = pm.logp(UniformLog.dist(a, b), v)
za, zb, zv = z3.Reals("a b v")
g = ev(lp, {a: np.asarray(za, dtype=object), b: np.asarray(zb, dtype=object), v: np.asarray(zv, dtype=object)}, {}).item()
print("graph:", g)
spec = -UF["log"](zv) - UF["log"](UF["log"](zb) - UF["log"](za))
s = z3.Solver(); s.add(za > 0, zb > za, zv > za, zv < zb, g != spec)
# log axioms on the terms present: log(x) <= x - 1
for t in (za, zb, zv): s.add(UF["log"](t) <= t - 1)
t0 = time.time(); print("UniformLog logp vs spec:", s.check(), round(time.time() - t0, 2)); m = s.model(); print({str(x): m[x] for x in (za, zb, zv)})
# --- C11: model_rv
from astropy.time import Time
rng = np.random.default_rng(42)
t = Time(59000 + np.sort(rng.uniform(0, 300, 3)), format="mjd", scale="tcb")
data = tj.RVData(t, rng.normal(0, 10, 3) * u.km/u.s, rng.uniform(0.5, 2, 3) * u.km/u.s)
with pm.Model() as model:
    prior = tj.JokerPrior.default(P_min=2*u.day, P_max=256*u.day, sigma_v=[100*u.km/u.s, 1*u.km/u.s/u.day], sigma_K0=30*u.km/u.s, poly_trend=2)
    joker = tj.TheJoker(prior, rng=np.random.default_rng(2))
    ps = prior.sample(size=3, generate_linear=True, rng=np.random.default_rng(1))
    joker.setup_mcmc(data, ps)
names = ["P", "e", "omega", "M0", "K", "v0", "v1"]
Z = {n: z3.Real(n) for n in names}
env = {model[n]: np.asarray(Z[n], dtype=object) for n in names}
t0 = time.time()
rvg = ev(model["model_rv"], env, {})
print("model_rv shape", rvg.shape, "eval", round(time.time() - t0, 2), "unknown ops", unknown)
x = data._t_bmjd - data._t_ref_bmjd
s = z3.Solver(); s.add(Z["P"] > 0, Z["e"] >= 0, Z["e"] < 1)
bad = 0
for n in range(3):
    Mn = 2 * z3.RealVal(repr(float(np.pi))) * L(x[n]) / Z["P"] - Z["M0"]
    spec = Z["K"] * (UF["cos"](Z["omega"]) * KCOS(Mn, Z["e"]) - UF["sin"](Z["omega"]) * KSIN(Mn, Z["e"]) + Z["e"] * UF["cos"](Z["omega"])) + Z["v0"] + Z["v1"] * L(x[n])
    s.push(); s.add(L(rvg[n]) != spec); r = s.check(); print(" epoch", n, r); s.pop()
