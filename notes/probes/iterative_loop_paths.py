import sys, z3, time, types
sys.path.insert(0, "/tmp/probe/eng")
import core, symnp
from core import SR, SB, lift, explore, Ctx
nd = symnp.ndarray
class NP(types.ModuleType):
    float64 = "f8"
    def exp(s, a): return symnp.exp(a)
    def where(s, c): return symnp.where(c)
    def array(s, x): return nd(list(x)) if isinstance(x, list) else x
    def arange(s, a, b, c=1): return nd(list(range(a, b, c)))
    def concatenate(s, parts): return nd([x for p in parts for x in p.items])
    def isfinite(s, a): return nd([True] * len(a))
    def any(s, a): return any(bool(x) for x in a.items)
def inv(s): return nd([not x for x in s.items])
nd.__invert__ = inv
def load(path):
    src = open(path).read(); real_import = __import__
    def imp(name, g=None, l=None, fromlist=(), level=0):
        if name == "numpy": return NP("np")
        if level == 1 and name == "logging":
            class Lg:
                def log(self, *a): pass
            return types.SimpleNamespace(logger=Lg())
        return real_import(name, g, l, fromlist, level)
    b = dict(vars(__import__("builtins"))); b["__import__"] = imp
    ns = {"__name__": "thejoker.likelihood_helpers", "__package__": "thejoker", "__builtins__": b}
    exec(compile(src, path, "exec"), ns); return ns
def run(N, req, init):
    ns = load("/repo/thejoker/likelihood_helpers.py")
    ll = [z3.Real(f"ll{i}") for i in range(N)]
    got = {}
    ns["make_full_samples_inmem"] = lambda h, b, rng, n_linear_samples=1: (got.__setitem__("rows", list(b.items)) or {})
    class Helper:
        def batch_marginal_ln_likelihood(self, b): return nd([SR(ll[i]) for i in b.items])
    draws = []
    class Rng:
        def uniform(self, size):
            k = len(draws); vs = [z3.Real(f"v{k}_{i}") for i in range(size)]; draws.append(vs)
            for v in vs: Ctx.cur.solver.add(v <= 0)
            return nd([SR(symnp.EXP(x)) for x in vs])
    def body():
        got.clear(); draws.clear(); symnp.exp_terms.clear()
        try:
            r = ns["iterative_rejection_inmem"](Helper(), nd(list(range(N))), Rng(), req, init_batch_size=init)
        except (ValueError, RuntimeError) as e: return ("raise", type(e).__name__)
        return ("ok", list(got.get("rows", [])), len(draws), type(r).__name__)
    t0 = time.time(); paths = 0; kinds = {}; bad = 0
    for ctx, out in explore(body, maxpaths=200000):
        paths += 1; kinds[out[0] if out[0] == "raise" else (out[0], out[2])] = kinds.get(out[0] if out[0] == "raise" else (out[0], out[2]), 0) + 1
        if out[0] == "ok":
            rows = out[1]; it = out[2]; vs = draws[-1]; n_eval = len(vs)
            terms = symnp.exp_terms + [v for d in draws for v in d]
            s = ctx.solver; s.push()
            s.add([(symnp.EXP(a) > symnp.EXP(b)) == (a > b) for a in terms for b in terms])
            mx = ll[0]
            for x in ll[1:n_eval]: mx = z3.If(x > mx, x, mx)
            acc = [ll[i] - mx > vs[i] for i in range(n_eval)]
            claims = [z3.BoolVal(len(rows) <= req)]
            for i in range(n_eval):
                before = z3.Sum([z3.If(acc[j], 1, 0) for j in range(i)]) if i else z3.IntVal(0)
                claims.append(z3.And(acc[i], before < req) == z3.BoolVal(i in rows))
            s.add(z3.Not(z3.And(claims))); r = s.check(); s.pop()
            if str(r) != "unsat": bad += 1
    print(f"N={N} req={req} init={init}: paths={paths} bad={bad} {time.time()-t0:.1f}s kinds={kinds}")
for cfg in ((3, 2, 1), (4, 2, 1), (4, 2, 2), (5, 2, 2)):
    run(*cfg); sys.stdout.flush()
