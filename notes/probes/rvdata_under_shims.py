import sys, types, z3, time
sys.path.insert(0, "/tmp/probe/eng")
from core import SR, SB, lift, Ctx, explore
cons = []   # side constraints produced by shims (argsort contract)
class Arr:
    def __init__(s, cells, unit=None): s.c = list(cells); s.unit = unit
    shape = property(lambda s: (len(s.c),)); ndim = 1; size = property(lambda s: len(s.c))
    def __len__(s): return len(s.c)
    def _new(s, cells): return Arr(cells, s.unit)
    def __and__(s, o): return Arr([SB(z3.And(lift(a), lift(b))) for a, b in zip(s.c, o.c)])
    def __iand__(s, o): return s & o
    def sum(s): return sum(1 for b in s.c if bool(b)) if s.c and isinstance(s.c[0], SB) else None
    def __getitem__(s, k):
        if isinstance(k, Arr) and k.c and isinstance(k.c[0], SB): return s._new([x for x, b in zip(s.c, k.c) if bool(b)])
        if isinstance(k, Arr):   # symbolic int index array
            out = []
            for idx in k.c:
                e = lift(s.c[-1])
                for j in range(len(s.c) - 2, -1, -1): e = z3.If(idx == j, lift(s.c[j]), e)
                out.append(SR(e))
            return s._new(out)
        if isinstance(k, slice): return s._new(s.c[k])
        return s.c[k]
    def argsort(s):
        n = len(s.c); tag = len(cons)
        p = [z3.Int(f"p{tag}_{i}") for i in range(n)]
        cs = [z3.Distinct(p)] if n > 1 else []
        cs += [z3.And(x >= 0, x < n) for x in p]
        keys = Arr(s.c)[Arr(p)].c
        cs += [lift(keys[i]) <= lift(keys[i + 1]) for i in range(n - 1)]
        for c in cs: Ctx.cur.solver.add(c); Ctx.cur.pc.append(c)
        cons.append(p); return Arr(p)
    def min(s):
        if not s.c: raise ValueError('zero-size array to reduction operation minimum')
        m = lift(s.c[0])
        for x in s.c[1:]: m = z3.If(lift(x) < m, lift(x), m)
        return SR(m)
    @property
    def value(s): return Arr(s.c)
    def copy(s): return s._new(s.c)
class NP(types.ModuleType):
    def atleast_1d(s, x): return x
    def isfinite(s, a): return Arr([SB(f) for f in a.fin]) if hasattr(a, "fin") else Arr([SB(z3.BoolVal(True))] * len(a))
class Unit:
    def __init__(s, n="u"): s.n = n
    def __truediv__(s, o): return Unit()
    def __rtruediv__(s, o): return Unit()
    def __pow__(s, o): return Unit()
    def __mul__(s, o): return Unit()
    __rmul__ = __mul__
class Umod(types.ModuleType):
    km = Unit(); s = Unit(); day = Unit(); year = Unit(); one = Unit()
    def quantity_input(s, *a, **k): return lambda f: f
    def Quantity(s, x): return x
class TimeShim:
    def __init__(s, val, scale=None, format=None): s.val = val
    @property
    def tcb(s): return s
    @property
    def mjd(s): return s.val
    def min(s): return TimeShim(s.val.min())
class TimeMod(types.ModuleType): Time = TimeShim
class TableMod(types.ModuleType): Table = object
def load(path):
    src = open(path).read(); real_import = __import__
    def imp(name, g=None, l=None, fromlist=(), level=0):
        if name == "numpy": return NP("numpy")
        if name == "astropy.units": return types.SimpleNamespace(units=Umod("u")) if not fromlist else Umod("u")
        if name == "astropy.time": return TimeMod("t")
        if name == "astropy.table": return TableMod("tb")
        if level == 1 and name == "data_helpers": return types.SimpleNamespace(guess_time_format=None)
        if level == 1 and name == "logging":
            class Lg:
                def info(self, *a): pass
            return types.SimpleNamespace(logger=Lg())
        return real_import(name, g, l, fromlist, level)
    b = dict(vars(__import__("builtins"))); b["__import__"] = imp
    ns = {"__name__": "thejoker.data", "__package__": "thejoker", "__builtins__": b}
    src = src.replace("import astropy.units as u", "from astropy.units import quantity_input as _qi\nimport astropy.units\nu = astropy.units.units if hasattr(astropy.units, 'units') else astropy.units")
    exec(compile(src, path, "exec"), ns); return ns
def run(n, mutate=None):
    path = "/repo/thejoker/data.py"
    ns = load(path) if not mutate else None
    if mutate:
        import tempfile, os
        src = mutate(open(path).read()); f = tempfile.NamedTemporaryFile("w", suffix=".py", delete=False, dir="/tmp/probe"); f.write(src); f.close(); ns = load(f.name); os.unlink(f.name)
    RVData = ns["RVData"]
    t = [z3.Real(f"t{i}") for i in range(n)]; rv = [z3.Real(f"rv{i}") for i in range(n)]; er = [z3.Real(f"er{i}") for i in range(n)]
    ft = [z3.Bool(f"ft{i}") for i in range(n)]; fr = [z3.Bool(f"fr{i}") for i in range(n)]; fe = [z3.Bool(f"fe{i}") for i in range(n)]
    def body():
        cons.clear()
        T = Arr([SR(x) for x in t]); T.fin = ft
        V = Arr([SR(x) for x in rv], "kms"); V.fin = fr
        E = Arr([SR(x) for x in er], "kms"); E.fin = fe
        try: d = RVData(T, V, E)
        except ValueError: return None
        return d
    t0 = time.time(); paths = 0; bad = []
    for ctx, d in explore(body):
        paths += 1
        if d is None: continue
        m = len(d.rv)
        s = ctx.solver
        # claim: each output row i equals some finite input row j in all three columns, sorted, count = #finite
        fin = [z3.And(ft[j], fr[j], fe[j]) for j in range(n)]
        claims = [z3.Sum([z3.If(f, 1, 0) for f in fin]) == m]
        for i in range(m):
            claims.append(z3.Or([z3.And(fin[j], lift(d._t_bmjd[i]) == t[j], lift(d.rv[i]) == rv[j], lift(d.rv_err[i]) == er[j]) for j in range(n)]))
            if i + 1 < m: claims.append(lift(d._t_bmjd[i]) <= lift(d._t_bmjd[i + 1]))
        if m: claims.append(lift(d.t_ref.mjd) == lift(d._t_bmjd[0]))
        s.push(); s.add(z3.Distinct(t + rv + er)) if n > 1 else None; s.add(z3.Not(z3.And(claims))); r = s.check()
        if str(r) != "unsat": bad.append((m, r))
        s.pop()
    print(f"n={n} paths={paths} bad={len(bad)} {time.time()-t0:.2f}s", bad[:2])
for n in (1, 2, 3): run(n)
run(3, lambda s: s.replace("        self.rv = self.rv[idx]\n        if self._has_cov:", "        if self._has_cov:"))
