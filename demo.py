"""C14 / m2: file path, randomize_prior_order=True, more than one batch.

Property: the iterative sampler never evaluates the same library row twice and
never more than max_prior_samples rows; every returned row is a distinct
evaluated library row.
"""
import os
import sys
import tempfile
import warnings

warnings.filterwarnings("ignore")

import astropy.units as u
import numpy as np
from astropy.time import Time

import thejoker as tj


class RecGen(np.random.Generator):
    """numpy Generator that records choice() outputs and uniform() sizes"""

    def __init__(self, seed):
        super().__init__(np.random.PCG64(seed))
        self.choices = []
        self.uniform_sizes = []

    def choice(self, *args, **kwargs):
        out = super().choice(*args, **kwargs)
        self.choices.append(np.atleast_1d(np.array(out)).copy())
        return out

    def uniform(self, *args, **kwargs):
        out = super().uniform(*args, **kwargs)
        self.uniform_sizes.append(int(np.size(out)))
        return out


def make_library(N, seed):
    rng = np.random.default_rng(seed)
    s = tj.JokerSamples(t_ref=None)
    s["P"] = np.exp(rng.uniform(np.log(2), np.log(100), N)) * u.day
    s["e"] = rng.beta(0.867, 3.03, N) * u.one
    s["omega"] = rng.uniform(0, 2 * np.pi, N) * u.rad
    s["M0"] = rng.uniform(0, 2 * np.pi, N) * u.rad
    s["s"] = np.zeros(N) * u.km / u.s
    s["ln_prior"] = rng.normal(size=N)
    return s


def check(prior, data, filename, lib, N, n_req, init, budget, seed):
    tag = f"[n_req={n_req} init={init} budget={budget} seed={seed}]"
    g = RecGen(seed)
    joker = tj.TheJoker(prior, rng=g)
    out = joker.iterative_rejection_sample(
        data,
        filename,
        n_requested_samples=n_req,
        init_batch_size=init,
        max_prior_samples=budget,
        randomize_prior_order=True,
    )
    assert isinstance(out, tj.JokerSamples), tag
    assert len(out) <= n_req, f"{tag} returned {len(out)} > {n_req} rows"

    limit = N if budget is None else budget
    n_eval = max(g.uniform_sizes)
    assert n_eval <= limit, f"{tag} evaluated {n_eval} > budget {limit}"

    # rows handed out by the recording generator = rows that can be evaluated
    drawn = np.concatenate(g.choices)
    assert drawn.min() >= 0 and drawn.max() < N, tag
    n_dup = len(drawn) - len(np.unique(drawn))
    assert n_dup == 0, (
        f"{tag} random row order contains {n_dup} repeated library rows "
        f"(choice calls of sizes {[len(c) for c in g.choices]}): the same row "
        "is evaluated more than once"
    )
    assert len(drawn) <= limit, f"{tag} {len(drawn)} rows drawn > budget {limit}"

    # every returned row must be a distinct library row
    libP = lib["P"].to_value(u.day)
    rows = []
    for P in out["P"].to_value(u.day):
        j = np.where(np.isclose(libP, P, rtol=1e-12, atol=0))[0]
        assert len(j) == 1, f"{tag} returned P={P} is not a library row"
        assert j[0] in drawn, f"{tag} returned row {j[0]} was never drawn"
        rows.append(j[0])
    assert len(set(rows)) == len(rows), (
        f"{tag} the same library row is returned more than once: "
        f"{sorted(r for r in set(rows) if rows.count(r) > 1)}"
    )
    return len(out), g.uniform_sizes


def main():
    prior = tj.JokerPrior.default(
        P_min=2 * u.day,
        P_max=100 * u.day,
        sigma_K0=30 * u.km / u.s,
        sigma_v=100 * u.km / u.s,
    )
    rng = np.random.default_rng(1)
    t = Time(2459000 + np.sort(rng.uniform(0, 200, 6)), format="jd")
    rv = 10 * np.sin(2 * np.pi * (t.jd - 2459000) / 30.0) * u.km / u.s
    # uninformative data: most library rows are accepted
    data = tj.RVData(t, rv, rv_err=np.full(6, 40.0) * u.km / u.s)

    N = 300
    lib = make_library(N, seed=11)

    with tempfile.TemporaryDirectory() as d:
        filename = os.path.join(d, "prior_samples.hdf5")
        lib.write(filename, overwrite=True)

        # one batch is enough (ordinary use)
        for seed in (3, 4):
            r = check(prior, data, filename, lib, N, 5, 100, None, seed)
            print("single batch", r)
            r = check(prior, data, filename, lib, N, 5, 100, 200, seed)
            print("single batch, budget", r)

        # first batch too small -> the batch grows and a second one is read
        for seed in (3, 4):
            r = check(prior, data, filename, lib, N, 120, 40, None, seed)
            print("two batches", r)
            r = check(prior, data, filename, lib, N, 120, 40, 250, seed)
            print("two batches, budget", r)

    print("OK")


if __name__ == "__main__":
    main()
    sys.exit(0)
