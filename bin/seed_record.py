#!/usr/bin/env python3
"""dev helper: run quick checks against every kept seed (apply to /repo, run, revert) and record which checks raise VIOLATION.
usage: seed_record.py [seed ids...]   (default: all)"""
import json, os, subprocess, sys
SEED = "/verif/seeded"
ids = sys.argv[1:] or sorted(os.listdir(SEED))
man = json.load(open("/verif/MANIFEST.json"))
claimed = [c["property_id"] for c in man["checks"]]
for sid in ids:
    d = os.path.join(SEED, sid)
    meta = json.load(open(os.path.join(d, "meta.json")))
    prop = meta["breaks_property"]
    checks = [prop] if prop in claimed else []
    extra = os.environ.get("ALSO", "").split()
    checks += [c for c in extra if c in claimed and c not in checks]
    if not checks:
        print(sid, "-> property", prop, "not claimed yet"); continue
    assert subprocess.call(["git", "-C", "/repo", "diff", "--quiet"]) == 0, "repo dirty"
    if subprocess.call(["git", "-C", "/repo", "apply", os.path.join(d, "patch.diff")]) != 0:
        print(sid, "PATCH DOES NOT APPLY"); continue
    try:
        det = []
        for c in checks:
            p = subprocess.run(["bin/check", c, "--tier", "quick"], cwd="/verif", capture_output=True, text=True)
            viol = [l for l in p.stdout.splitlines() if l.startswith("VIOLATION")]
            vcs = sorted({l.split()[0] for l in p.stdout.splitlines() if l.startswith("  vc=")})
            print(sid, c, "exit", p.returncode, "violations", len(viol), vcs[:3])
            det.append({"check": c, "exit": p.returncode, "violation_lines": len(viol), "vcs": vcs[:4]})
        meta["detected_by"] = det
        json.dump(meta, open(os.path.join(d, "meta.json"), "w"), indent=1)
    finally:
        subprocess.call(["git", "-C", "/repo", "checkout", "--", "."])
# evidence files were rewritten by mutant runs: regenerate them on the clean tree
