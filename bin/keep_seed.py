#!/usr/bin/env python3
"""dev helper: keep a confirmed seeded change under /verif/seeded/<id>/  (patch.diff, demo.py, notes.md, meta.json)"""
import json, os, shutil, sys
src, sid, prop, needs = sys.argv[1:5]
verify_log = sys.argv[5] if len(sys.argv) > 5 else None
dst = os.path.join("/verif/seeded", sid)
os.makedirs(dst, exist_ok=True)
for f in ("patch.diff", "demo.py", "notes.md"):
    if os.path.exists(os.path.join(src, f)):
        shutil.copy(os.path.join(src, f), os.path.join(dst, f))
meta = {"breaks_property": prop, "needs_to_manifest": needs,
        "origin": "written by an independent sub-agent given only the property text and a scratch worktree of /repo",
        "confirmed": {"how": "bin/verify_seed.sh in a fresh scratch worktree: demo.py exit 0 on HEAD, non-zero with patch.diff applied; "
                             "stable baseline (50 tests of /root/.vp/BASELINE.json) still passing with the patch",
                      "log": open(verify_log).read().strip().splitlines()[:3] if verify_log and os.path.exists(verify_log) else None},
        "detected_by": []}
mp = os.path.join(dst, "meta.json")
if os.path.exists(mp):
    old = json.load(open(mp)); meta["detected_by"] = old.get("detected_by", [])
json.dump(meta, open(mp, "w"), indent=1)
print("kept", dst)
