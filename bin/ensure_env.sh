#!/bin/bash
# Idempotent, offline bootstrap of the overlay venv /verif/.venv:
#   /venv (the repo's interpreter + deps) + z3-solver, cvc5, crosshair-tool from the wheelhouse.
# Only committed files survive a restore, so every check calls this first.
set -e
VERIF="$(cd "$(dirname "$0")/.." && pwd)"
VENV="$VERIF/.venv"
STAMP="$VENV/.ok"
[ -f "$STAMP" ] && exit 0
exec 9>"$VERIF/.venv.lock"
flock 9
[ -f "$STAMP" ] && exit 0
rm -rf "$VENV"
/venv/bin/python -m venv "$VENV" >/dev/null
SP="$VENV/lib/python3.12/site-packages"
echo "import site; site.addsitedir('/venv/lib/python3.12/site-packages')" > "$SP/_base.pth"
PIP_NO_INDEX=1 "$VENV/bin/pip" install -q --no-index --find-links /opt/veriftools/wheels \
    z3-solver cvc5 crosshair-tool jsonschema >/dev/null 2>"$VENV/pip.err" || { cat "$VENV/pip.err" >&2; exit 3; }
"$VENV/bin/python" -c "import z3, crosshair, numpy, thejoker" >/dev/null 2>"$VENV/imp.err" || { cat "$VENV/imp.err" >&2; exit 3; }
touch "$STAMP"
