#!/bin/bash
# dev helper: run a sub-agent's mutants (out dir $1) against the given quick checks, print verdict lines
out="$1"; shift
for m in m1 m2; do
  [ -f "$out/$m/patch.diff" ] || continue
  echo "== $out/$m"
  /verif/bin/seedtest "$out/$m/patch.diff" "$@" 2>&1 | grep "exit=\|VIOLATION\|INCONCL" | grep -v "^  vc" | cut -c1-220 | sort | uniq -c | head -8
done
