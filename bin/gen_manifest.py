#!/usr/bin/env python3
"""(Re)generate /verif/MANIFEST.json from the table below. Run after adding a check."""
import json, os
VERIF = os.path.dirname(os.path.dirname(os.path.abspath(__file__)))
BASE_OFF = "cd /repo && /venv/bin/python -m pytest -ra -q -p no:cacheprovider --timeout=900 --continue-on-collection-errors"

CHECKS = {
 "C16": dict(
   text="Bounded symbolic model checking of the real batch_tasks / run_worker source: for each concrete n_batches (<=12 quick, <=32 thorough) "
        "the function body is executed on UNBOUNDED symbolic integers n_tasks>=1, start_idx>=0 and z3 proves contiguity, non-emptiness, order, "
        "exact cover and own-start-index on every feasible path (div/mod by a constant in LIA). This is the right level because the "
        "quantifier is over all integers, which no test enumeration reaches; thorough adds a CrossHair cross-check of the imported function.",
   note="Trusted: z3, the symx explorer, Python ints as mathematical integers; arr slicing as uninterpreted sequence; pool.map/SeedSequence.spawn/pytables row count by contract. "
        "Outside: n_batches above the bound.",
   technique="symbolic execution of the real Python source + z3 (LIA), counterexamples replayed on the real build; CrossHair cross-check",
   ref="3/C16"),
}
CHECKS["C02"] = dict(
   text="Bounded symbolic model checking of the real rejection step: rejection_sample_inmem, rejection_sample_helper (file name and JokerSamples-through-temp-file), "
        "marginal_ln_likelihood_helper/worker, make_full_samples(+worker), run_worker, batch_tasks, read_batch*, JokerSamples.unpack/pack/write and TheJoker.rejection_sample are executed "
        "on symbolic libraries (every cell), an UNINTERPRETED likelihood function (all profiles incl. ties), symbolic uniforms, a symbolic shuffle permutation and an unbounded symbolic "
        "max_posterior_samples; z3 proves on every feasible path that the returned rows are exactly the rule's accepted evaluated rows, in order, n_linear_samples times, truncated correctly. "
        "Bound: library size N<=4 (quick) / 5 (thorough). Counterexamples are replayed on the real build (real HDF5, recording Generator) against an independent oracle.",
   note="Trusted: z3, symx explorer, shims by contract (pytables/h5py/tempfile/pool/RNG stream), kernel replaced by LL()/row-copy contract stub (real kernel: C01/C03), reals for floats (replay also at shifted magnitudes), finite likelihoods only (-inf clause not covered), u>0.",
   technique="symbolic execution of the real Python source (shimmed imports) + z3 (LRA/LIA + UF); sat models replayed on the real build",
   ref="3/C02")
CHECKS["C06"] = dict(
   text="Same harness as C02 with return_logprobs / return_all_logprobs and a symbolic ln_prior column, plus the iterative sampler harness of C14: z3 proves per path that ln_likelihood[k] is LL of exactly the "
        "k-th returned row and ln_prior[k] the value stored at exactly that library row (through shuffle, truncation, batching, temp-file path), both plain scalar columns, and that the all-logprobs array is LL in evaluation order. N<=4/5.",
   note="As C02. n_linear_samples>1 with return_logprobs raises in astropy before anything is returned (property silent).",
   technique="symbolic execution of the real Python source + z3; sat models replayed on the real build",
   ref="3/C06")
CHECKS["C14"] = dict(
   text="The real grow-and-retest loops (iterative_rejection_inmem, iterative_rejection_helper, TheJoker.iterative_rejection_sample) are executed symbolically: every accept decision of every iteration forks, so batch sizes are concrete per path while "
        "likelihoods/uniforms/shuffle stay symbolic. z3 proves per path: result is a JokerSamples or an exception (never a returned exception object), <= n_requested rows and exactly the first n_requested accepted of the final iteration, "
        "evaluated rows are the first E<=budget rows of the (shuffled) library each once, too-small library raises, maxiter branch unreachable (unwinding assertion). N<=4/5, n_requested<=2/3.",
   note="As C02; one injected non-finite likelihood (in-memory) is the modelled failure.",
   technique="symbolic execution of the real Python loops + z3; sat models replayed on the real build",
   ref="3/C14")
CHECKS["C15"] = dict(
   text="RVData.__init__ / ivar / cov / copy / __getitem__ (real data.py under shimmed numpy+astropy) run on symbolic times, velocities, errors or a full covariance, a symbolic is-finite flag per cell, "
        "a symbolic RV unit scale and ANY sorting permutation numpy's argsort may return; z3 proves per path: exactly the finite observations are kept (all when clean=False), every (t, rv, err | cov row+column) stays intact, "
        "sorted by time, units unchanged, ivar*err^2=1 / cov.ivar=I, default t_ref = earliest kept time, copy keeps t_ref and observations, slices keep pairing. n_epochs<=3 (quick) / 4 (thorough), covariance n<=2/3.",
   note="Trusted: z3, symx, numpy/astropy semantics as modelled in symx.symnp / symx.units (argsort = any sorting permutation), velocities as pairwise-distinct labels, reals for floats.",
   technique="symbolic execution of the real Python source + z3 (LRA + Int permutation + small NRA); sat models replayed on the real RVData",
   ref="3/C15")
CHECKS["C08"] = dict(
   text="validate_prepare_data (list and dict branches), RVData.__init__ and the design-matrix builders run on symbolic epochs/velocities/errors of up to 3 surveys (so disjoint, interleaved and identical epochs are all models of one query) with any sorting permutation; "
        "z3 proves per path: merged set = union with intact triples, ids[r] = survey of the observation in row r, v0 column all ones, offset column c is 1 exactly on survey c's rows (list: source k <-> dv0_k), trend columns = (t - t_ref)^p. "
        "One recorded finding (ids left in concatenation order; a stable baseline test pins that layout) is reported as KNOWN-FINDING; every VC is additionally proved under the finding's mask (surveys not interleaved) so that any other violation is still reported.",
   note="Trusted: z3, symx, numpy/astropy semantics as modelled; velocities as distinct labels. Bounds: <=3 surveys, <=4 epochs total (quick), <=6 (thorough), poly_trend<=3.",
   technique="symbolic execution of the real Python source + z3 (LRA + Int permutation); sat models replayed on real RVData objects",
   ref="3/C08")
CHECKS["C19"] = dict(
   text="MAP_sample, max_phase_gap, phase_coverage, periods_spanned and RVData.phase (real code under shims) on symbolic observation times / sample columns: z3 proves the returned value equals the definition "
        "(circular largest gap incl. the 1->0 arc via exact floor semantics, fraction of occupied bins, baseline/P, arg-max member row) for every input of the shape; hence order independence. Time-reversal invariance is a two-run relational query (2 epochs; unknown beyond). "
        "Bounds: <=3 epochs, <=4 bins (quick) / <=4 epochs, <=5 bins (thorough); period symbolic for periods_spanned, a concrete rational per shape for the mod-1 statistics.",
   note="Trusted: z3 (LIRA with to_int), symx, numpy histogram/linspace/sort/argmax semantics as modelled; float rounding at bin edges outside the claim; is_P_Kmodal (sklearn) outside.",
   technique="symbolic execution of the real Python source + z3 (mixed integer/real linear arithmetic); sat models replayed on the real functions",
   ref="3/C19")
CHECKS["C17"] = dict(
   text="JokerSamples.wrap_K, get_time_with_phase/get_t0, pack/unpack, __getitem__ (int, negative int, slice, mask, index array, column), copy, mean and median_period (real samples.py under table/unit shims) on symbolic tables: "
        "z3 proves wrap_K is exactly (K,omega)->(|K|, omega+pi mod 2pi in [0,2pi)) on K<0 rows and the identity elsewhere for omega in rad or deg; the returned time satisfies 2pi(T-t_ref)=P(M0+phase) for P in a symbolic time unit and angles in rad/deg; "
        "pack converts to the requested units and pack->unpack is physically the identity with names/units/metadata kept; every index expression returns exactly the addressed rows with units, t_ref, poly_trend, n_offsets; median_period returns a member row holding the n//2-th order statistic. <=3 rows.",
   note="Trusted: z3, symx, astropy table/unit semantics as modelled (meta copied on slicing), cos(x+pi)=-cos x for curve invariance, float pi constants as exact rationals, reals for floats.",
   technique="symbolic execution of the real Python source + z3 (LIRA with to_int, small NRA for unit scales); sat models replayed on real JokerSamples",
   ref="3/C17")
CHECKS["C10"] = dict(
   text="Noninterference by symbolic execution: the real TheJoker entry points (rejection, iterative, marginal; file, object, in-memory and count-based prior samples) are each called twice on one TheJoker with every nondeterminism source a separate symbol source "
        "(sampler generator = stream + spawn counter; numpy global state; OS entropy; prior.sample without rng). On every solver-enumerated path: no draw/effect outside the generator, every stream feeding the output derives from it, every (stream, position) delivering linear draws is used once across batches and calls; "
        "JokerPrior.sample's real body forwards rng to pm.draw; read_random_batch draws from its rng. N<=3 (quick), 2 calls.",
   note="Trusted: generator/SeedSequence/pool contracts of symx.env (bit-level PCG64 and real process pools outside), kernel and prior.sample contract stubs inside the sampler harness.",
   technique="symbolic execution of the real Python source with effect logging (paths enumerated by z3); candidates replayed as equal-seed twin runs on the real build",
   ref="3/C10")
CHECKS["C13"] = dict(
   category="model_checking",
   text="Crash points as a symbolic variable: one symbolic integer 'the k-th environment call of this run fails' is consulted by every stubbed environment call (temp-file creation, cache write, tables/h5py opens, header access, table reads, pool.map, each worker, kernel calls, unlink, validation) "
        "while the real tempfile_decorator / helpers / TheJoker entry points run on a file-system model; the explorer forks on it, so every crash point of every feasible path is covered (<=1 fault per run). Per path: the fault reaches the caller, no cache file of the call exists afterwards, the user's file is never opened for writing / unlinked / changed, "
        "and a second call on the same TheJoker returns correct results (pool still usable, nothing left behind). Entries: marginal, rejection, iterative x file name / object / in-memory.",
   note="Trusted: file-system/HDF5/pool contracts of symx.env (closed pools refuse map); hard process death and crashes inside real worker processes outside; unlink failing itself is exempt from the no-leak claim.",
   technique="symbolic fault-point exploration of the real Python source over an environment model (z3-enumerated paths); candidates replayed by monkey-patching the real function at the model's invocation index",
   ref="3/C13")
CHECKS["C01"] = dict(
   text="The Cython kernel (fast_likelihood.pyx, transliterated statement by statement and validated every run against the compiled extension) is executed symbolically together with the real Python around it; z3 decides, at cut points, that the kernel's state and outputs equal the analytic Gaussian marginal: "
        "jitter weights, prior mean/variance slots incl. the capped K-variance rule and unit conversions (symbolic unit scales), Kepler-call wiring, trend rows, the matrices handed to LAPACK (Lambda^-1+M^T W M and W^-1+M Lambda M^T), Binv by Woodbury in the returned inverse, b, chi^2, log-det from the LU diagonal and the returned value, for every data set / prior / sample of the shape. "
        "Five recorded findings of the .pyx are re-derived by the solver, replayed on the compiled kernel and printed as KNOWN-FINDING; all VCs are also proved under their masks (s=0, period prior in days, no custom-K+offsets) so that any other deviation is a VIOLATION. Bounds: <=3 epochs, poly_trend<=2, <=1 offset, <=2 chunk rows (quick).",
   note="Trusted: z3, symx, the transliteration rules (validated numerically each run), contracts of LAPACK/Kepler/log/pow, the Woodbury and LU-determinant lemmas, reals for floats (the kernel's Woodbury step is numerically unstable for prior/data variance ratios >~1e7: outside the claim), finiteness for e>0.99 not claimed.",
   technique="translation of the .pyx to Python + symbolic execution + z3 (polynomial identities with named reciprocals, UF); sat models replayed on the compiled kernel against a dense numpy oracle",
   ref="3/C01")
CHECKS["C03"] = dict(
   text="likelihood_worker(1) and batch_get_posterior_samples of the transliterated .pyx plus the real make_full_samples_inmem / JokerSamples.unpack run symbolically; z3 decides at cut points that the symmetric system handed to dsysv is Lambda^-1+M^T W M, its right-hand side Lambda^-1 mu + M^T W y, "
        "that rng.multivariate_normal receives exactly that solution as mean, the inverse of the same matrix as covariance and size=n_linear_samples, that each output row is its unchanged nonlinear row followed by its own draw in design order, and that unpack attaches the internal units in that order. "
        "Two recorded .pyx findings (jitter never read; K variance not capped in the posterior pass) are KNOWN-FINDINGs, everything is also proved under their masks. Bounds: <=3 epochs, poly_trend<=2, <=1 offset, <=2 rows, n_linear_samples<=2.",
   note="As C01; dsysv / np.linalg.inv by contract; independence and normality of the draws rest on numpy's multivariate_normal.",
   technique="translation of the .pyx to Python + symbolic execution + z3; sat models replayed on the compiled kernel with a recording Generator against the dense conditional posterior",
   ref="3/C03")
CHECKS["C05"] = dict(
   text="(1) Inductive step on the transliterated kernel: batch_marginal_ln_likelihood and batch_get_posterior_samples are started from an arbitrary helper state (every scratch cell a fresh symbol) and the outputs - ll values, everything handed to LAPACK and to the generator, output rows - are shown to mention no pre-state symbol, which covers call histories of any length and any batch position; __reduce__ rebuilds from the constructor's arguments. "
        "(2) TheJoker.marginal_ln_likelihood through pack / read_batch on a user file / the temp-file route / explicit index arrays in symbolic order, n_batches 1..N+2, pools running workers in reverse order, library units symbolic: z3 proves cell i = LL(row i in internal units), in input order. (3) A file name evaluated, overwritten in other units and evaluated again yields the new values.",
   note="Trusted: kernel/LAPACK/RNG stubs as in C01/C03 (a stub's output depends only on its inputs); file/pool contracts; real process scheduling and pickling are exercised only in the replay scenario (SerialPool and MultiPool(2)). Equal-seed acceptance across paths is C02's claim.",
   technique="symbolic execution (transliterated .pyx from an arbitrary pre-state; real Python partition code) + z3; scenario replay on the real build",
   ref="3/C05")
CHECKS["C07"] = dict(
   text="Unit invariance decided as physical correctness with symbolic unit scales: the data RV unit, the unit of every linear prior, of sigma_K0/max_K/P0, of the period prior and of every prior-sample column are dimension vectors with positive SYMBOLIC scales. "
        "z3 proves on the transliterated constructor + real _pytensor_get_mean_std that every prior number the kernel keeps is the declared physical value in the data unit; on the real pack() that packed = physical/internal unit; on the real file path that BOTH stages (likelihood worker and the re-read in make_full_samples_worker) feed rows converted to internal units and that returned samples carry those units. "
        "One recorded .pyx finding (P0 kept in the period prior's unit) is a KNOWN-FINDING.",
   note="Trusted: multiplicative unit model, Gaussian scaling lemma for the stated consequences, kernel/file stubs as in C01/C02; astropy's conversion tables outside.",
   technique="symbolic execution with symbolic unit scales + z3 (small NRA with named reciprocals); twin problems in two unit systems replayed on the real build",
   ref="3/C07")
CHECKS["C04"] = dict(
   text="The real get_orbit / orbits / ln_unmarginalized_likelihood / ln_normal run on symbolic sample rows and data with twobody shimmed by its documented formulas (same uninterpreted RV symbol as the kernel's Kepler contract): z3 proves the reconstructed orbit's (P,e,omega,M0,t0) are the row's and the samples' t_ref, "
        "its effective amplitude is the row's K (a*2pi = P K sqrt(1-e^2)), trend coefficient v_k multiplies (t-t_ref)^k - i.e. the curve equals K*RV + sum v_k*(kernel design column k) for the real get_trend_design_matrix - and that ln_unmarginalized_likelihood is the Normal log-density with variance sigma^2+s^2 in the data unit. With C01, C03 and Gaussian conjugacy (trusted) this is the Bayes identity.",
   note="Trusted: twobody formulas as shimmed, Gaussian conjugacy lemma, SQRT/LOG uninterpreted with sqrt(x)^2=x; n_offsets>0 only up to X1-X3; <=2 epochs, <=2 rows, poly_trend<=3.",
   technique="symbolic execution of the real Python source + z3 (UF congruence, small NRA); replay against real twobody orbits",
   ref="3/C04")
CHECKS["C09"] = dict(
   text="Front-end F3: the pytensor graphs the real code builds are regenerated every run and evaluated symbolically: pm.logp(UniformLog) equals the normalised log-uniform log-density inside [a,b] and -inf outside for all a,b,v (LOG uninterpreted); the real UniformLogRV.rng_fn satisfies F(rng_fn(u)) = u and stays in the support for symbolic a,b,u (axioms LOG(EXP z)=z, monotonicity instances); "
        "FixedCompanionMass's sigma graph equals clip(sigma_K0 (P/P0)^(-1/3)/sqrt(1-e^2), 0, max_K) in consistent units for several unit configurations; Kipping Beta constants; JokerPrior.default wiring (ops, parameters, units, order); every log-density graph JokerPrior.sample evaluates for ln_prior is a function of the row (no re-drawn RandomVariable ancestors).",
   note="Trusted: z3, symx.ptfront op translation (unknown op = inconclusive), numpy/pytensor samplers for Beta/Normal/uniform bits, pymc's own logp of Normal/Beta, pymc_ext.angle.",
   technique="symbolic evaluation of the real pytensor graphs + z3 (UF with named axioms); counterexamples replayed on pm.logp(...).eval()/pm.draw against scipy",
   ref="3/C09")
CHECKS["C11"] = dict(
   text="The pymc model the real setup_mcmc assembles is rebuilt every run and its graphs (model_rv through the real KeplerianOrbit, the observed Normal's mean/sigma/observed values, the ln_likelihood deterministic) are evaluated symbolically over all parameter values (Kepler op uninterpreted); z3 proves model_rv = K[cos w KCOS(M,e) - sin w KSIN(M,e) + e cos w] + M_trend.(v0, dv0.., v1..) with M = 2 pi x/P - M0 in the data's units, "
        "obs ~ Normal(model_rv, sqrt(err^2+s^2)) observed at y, ln_likelihood = that Gaussian term (cut at model_rv), for priors in default and in other equivalent units; mcmc_init = the median-period row in the prior's units. Data sets concrete (3 epochs), poly_trend<=2, <=1 offset, constant/sampled jitter.",
   note="Trusted: z3, symx.ptfront, exoplanet Kepler op contract, pymc's Normal logp; the prior part of model.logp (transforms/Jacobians) and NUTS outside; float constants compared within 1e-9.",
   technique="symbolic evaluation of the real pytensor graphs + z3 (UF congruence, small NRA with named reciprocals); numeric replay of the real model against twobody",
   ref="3/C11")
CHECKS["C18"] = dict(
   text="Validity predicates as symbolic variables: the real JokerPrior.__init__ runs on stand-in parameters whose 'is present', 'carries a unit', 'has an owner', 'owner.op is a RandomVariable' are symbolic booleans and whose unit / distribution print name are symbolic choices from menus (canonical, other equivalent, wrong-dimension, angle-vs-dimensionless units; Normal, FixedCompanionMass, LogNormal, HalfNormal, Uniform, StudentT); "
        "the explorer forks on every check the validators perform and z3 decides per path that acceptance is equivalent to the property's validity predicate, plus par_names order. validate_prepare_data's source checks (count mismatch, non-RVData, covariance source, single source with offsets) and TheJoker.__init__'s argument checks run on the real code as well.",
   note="Trusted: stand-ins expose exactly what the validators inspect; one invalid parameter at a time; poly_trend<=3, n_offsets<=2, <=3 sources.",
   technique="symbolic execution of the real validators with symbolic validity predicates + z3; candidates replayed with real pymc variables",
   ref="3/C18")
CHECKS["C12"] = dict(
   text="Partly decided by the solver-driven exploration: the real _custom_tbl_dtype_compare on symbolic header lists (column counts 0..2, per column a symbolic choice among descriptors incl. absent / empty / real units) accepts iff both headers have the same columns; the append branch of the real write_table_hdf5 against an h5py model that logs mutating calls refuses incompatible appends before any mutation and concatenates compatible ones; "
        "JokerSamples.write / read_batch dispatch; read_batch_slice/_idx/read_random_batch return exactly the requested rows of the requested columns times unit_in/unit_out (symbolic unit scales, symbolic index permutation, random subset drawn from rng without repeats). "
        "Byte-level HDF5/FITS/YAML fidelity is NOT decidable by this technique: real write->read->append->overwrite round trips and batch reads run as conformance traces (they validate the stubs) and are reported as such.",
   note="Trusted: h5py/pytables/astropy header stubs (validated by the real round-trip traces); bounds <=2 columns per header, 6 descriptors, N<=4.",
   technique="symbolic execution of the real Python source over file models + z3; real-file round trips as conformance traces",
   ref="3/C12 and section 4")
# what the mutation rounds added (DESIGN 7.5): appended to the level text of each check
EXTRA = {
 "C01": " Also decided: call histories (the prior object, or another prior with the same parameter names, served other data before), t_ref explicit / disabled / default with the epoch the property prescribes on the spec side, the harness entering through validate_prepare_data; thorough: <=5 epochs, <=3 chunk rows.",
 "C02": " Also decided: file-path options given together with in_memory=True, and call histories (an earlier run on another library under the same file name / in the same JokerSamples object, columns re-assigned).",
 "C03": " Also decided: the trend / offset columns against the prescribed reference epoch (explicit, disabled, default) and the same call histories as C01.",
 "C04": " Also decided: call histories on one samples object (orbits, then wrap_K() or re-assigned columns, then orbits again) and the reference-epoch family: the epoch the samples inherit equals the one the kernel uses and the one the user prescribed, through validate_prepare_data, copy and slicing.",
 "C05": " Also decided: 'forms' (equal seed = equal stream symbols through file name / object / in memory and several n_batches: identical generator requests and accepted rows) and 'pickle' (the helper a worker unpickles, following the pickle protocol on RVData as written, equals the parent's).",
 "C06": " Also decided: the histories and option combinations of C02/C14 with the log-probability columns.",
 "C07": " Also decided: one prior object used with data in two unit systems (call history).",
 "C08": " Also decided: label orders that differ numerically and textually (integer keys of different widths, 11-12 sources) and uncertainties quoted in another unit than velocities.",
 "C09": " Also decided: call histories on one prior (other dtype / options first), a user prior with dependent nonlinear parameters, sigma_K0 in other units.",
 "C10": " Also decided: multi-process pools hand workers COPIES of generators (no stream position may be consumed twice), iteration order of sets forked over all orders (PYTHONHASHSEED), numpy's global bit generator restored after a failing draw.",
 "C11": " Also decided: repeated setup_mcmc in one model context (early-return path), reference epochs on non-TCB scales and disabled.",
 "C12": " Also decided: every contiguous-range request (start/stop in None, 0..N, steps) and reads after the same file name was rewritten in other units; thorough: 3-column headers.",
 "C13": " Also decided: interrupt-kind faults (BaseException), the real write_table_hdf5 inside tempfile_decorator with every h5py/os operation a crash point, argument forms at the edge (path-like file names, more samples requested than held).",
 "C14": " Also decided: budgets larger than the library, packed-array and file-name sources on the API path, call histories (same file name / object re-used).",
 "C15": " Also decided: comparisons on possibly non-finite cells before the filter (NaN, +inf, -inf), uncertainties in another unit, tiny-scale covariances (allclose).",
 "C16": " Also decided: concrete-length array arguments (slices of the array itself), repeated requests of the same split (call history).",
 "C17": " Also decided: get_t0 / get_time_with_phase after re-assigning columns (history) and compared on one time scale for non-TCB epochs; ties at the median period.",
 "C18": " Also decided: the forms in which parameters are handed over (None, empty, list, dict, single variable) and source labels of different lengths / widths.",
 "C19": " Also decided: tables carrying further stored columns (ln_posterior).",
}
for _k, _v in EXTRA.items():
    if _k in CHECKS and _v not in CHECKS[_k]["text"]:
        CHECKS[_k]["text"] = CHECKS[_k]["text"] + _v
NOT_YET = {}
ALL = ["C%02d" % i for i in range(1, 20)]

def main():
    na = json.load(open(os.path.join(VERIF, "not_applicable.json"))) if os.path.exists(os.path.join(VERIF, "not_applicable.json")) else {}
    checks = []
    for pid in ALL:
        if pid not in CHECKS:
            continue
        c = CHECKS[pid]
        checks.append({
            "property_id": pid,
            "quick_cmd": "bin/check %s --tier quick" % pid,
            "thorough_cmd": "bin/check %s --tier thorough" % pid,
            "evidence_file": "/verif/evidence/%s.json" % pid,
            "replay_cmd_template": "bin/check %s --replay {path}" % pid,
            "engine": "symx",
            "level_claimed": {"category": c.get("category", "model_checking"), "text": c["text"], "design_ref": c.get("ref", "")},
            "level_note": c["note"],
            "technique": c["technique"],
        })
    man = {
        "version": 1,
        "setup_cmd": "bin/ensure_env.sh",
        "hooks": {"guard": "THEJOKER_VERIF", "enable": "no source hooks are needed: checks read /repo's working tree directly (THEJOKER_VERIF is reserved, unused)",
                  "baseline_off_cmd": BASE_OFF, "source_commits": [], "add_only": True},
        "engines": [{"name": "symx", "path": "/verif/symx", "serves_properties": sorted(CHECKS),
                     "kind_free_text": "re-execution symbolic executor over z3 driving the repository's real Python source (shimmed imports), "
                                       "the transliterated .pyx kernel and pytensor graphs; verdict = z3 unsat on every path within stated bounds, sat models replayed on the real build"}],
        "checks": checks,
        "not_applicable": [{"property_id": p, "reason": na.get(p, "check not built yet in this round (planned, see DESIGN.md section 3); not claimed until it exists")}
                           for p in ALL if p not in CHECKS],
        "notes": "exit codes: 0 held within bounds, 1 violation (VIOLATION line, replay file), 2 inconclusive/harness error. See DESIGN.md.",
    }
    json.dump(man, open(os.path.join(VERIF, "MANIFEST.json"), "w"), indent=1)
    print("wrote MANIFEST.json with", len(checks), "checks")

if __name__ == "__main__":
    main()
