#!/bin/bash
# dev helper: scratch worktree of /repo (with the untracked compiled kernel copied in) for a mutation sub-agent
set -e
d="/tmp/wt/$1"
rm -rf "$d"; git -C /repo worktree prune
git -C /repo worktree add -q "$d" HEAD
cp /repo/thejoker/src/fast_likelihood*.so /repo/thejoker/src/fast_likelihood.c "$d/thejoker/src/"
echo "$d"
