import sys, time, json, traceback
sys.path.insert(0, '/verif')
import importlib
mod = importlib.import_module(sys.argv[1])
shape = json.loads(sys.argv[2])
from symx import core
# print tracebacks of exceptions raised by code under test
orig = core.Path.__init__
def init(self, ctx, result, raised):
    orig(self, ctx, result, raised)
    if raised is not None and '-q' not in sys.argv:
        traceback.print_exception(type(raised), raised, raised.__traceback__, limit=-6)
core.Path.__init__ = init
t0 = time.time()
r = mod.run_shape(shape, "quick")
print("paths", r["paths"], "vcs", r["vcs"], "unsat", r["unsat"], "cands", len(r["candidates"]), "unk", len(r["unknown"]), "err", r["error"], "twin", r["twin_ok"], "capped", r["capped"], round(time.time() - t0, 2))
seen=set()
for c in r["candidates"]:
    k=(c["vc"],c.get("site"))
    if k in seen: continue
    seen.add(k); print("   ", c["vc"], c.get("site"), str(c.get("model"))[:400])
