#!/bin/bash
# dev helper: confirm a seeded mutant in a scratch worktree: demo passes on HEAD, fails with patch, stable baseline still passes.
# usage: verify_seed.sh <dir with patch.diff demo.py>
set -u
src="$(cd "$1" && pwd)"; name="verify_$$"
wt=$(/verif/bin/mk_worktree.sh "$name")
cd "$wt"
cp "$src/demo.py" demo.py
timeout 600 /venv/bin/python demo.py >/tmp/wt/$name.demo0.log 2>&1; d0=$?
git apply "$src/patch.diff" || { echo "PATCH DOES NOT APPLY"; git -C /repo worktree remove --force "$wt"; exit 9; }
timeout 600 /venv/bin/python demo.py >/tmp/wt/$name.demo1.log 2>&1; d1=$?
/venv/bin/python -m pytest -q -p no:cacheprovider --timeout=900 --continue-on-collection-errors --junitxml=/tmp/wt/$name.xml thejoker >/tmp/wt/$name.pytest.log 2>&1
/venv/bin/python - "$name" <<'PY'
import json,sys,xml.etree.ElementTree as ET
name=sys.argv[1]
base=set(json.load(open('/root/.vp/BASELINE.json'))['stable_pass'])
ok=set()
for tc in ET.parse('/tmp/wt/%s.xml'%name).getroot().iter('testcase'):
    if not any(c.tag in ('failure','error','skipped') for c in tc):
        ok.add(tc.get('classname')+'::'+tc.get('name'))
missing=sorted(base-ok)
print("baseline stable tests passing with patch: %d/%d"%(len(base&ok),len(base)), "MISSING:" if missing else "", missing[:5])
PY
echo "demo on HEAD exit=$d0 ; demo with patch exit=$d1"
tail -3 /tmp/wt/$name.demo1.log
cd /; git -C /repo worktree remove --force "$wt"; rm -f /tmp/wt/$name.*
