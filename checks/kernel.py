"""Shared harness for the kernel family (C01, C03, C04, C05-history, C07): the transliterated
fast_likelihood.pyx (symx.pyxfront) executed symbolically together with the real Python around it
(data.RVData, likelihood_helpers.get_trend_design_matrix, utils._pytensor_get_mean_std).

External code is replaced by contract stubs that record what they were handed (DESIGN appendix C):
  c_rv_from_elements -> K * RV(t - t0, P, e, omega, M0), RV uninterpreted
  dgetrf / dgetri    -> opaque LU symbols / fresh inverse with hypothesis X.X^-1 = I
  dsysv('U')         -> fresh solution x with hypothesis sym(S).x = rhs
  np.linalg.inv      -> fresh Y with X.Y = I;  rng.multivariate_normal -> records (mean, cov, size)
Prior distributions are stubs carrying symbolic mean / std and a unit (dimension + scale, symbolic
scales where the shape asks for them); the real _pytensor_get_mean_std converts them.
Every division is a named reciprocal r with r*x = 1 (exact), so the solver sees polynomial identities.
"""
import collections
import types

from symx import core, stack, symnp, units, pyxfront, env
from symx.core import z3, SN

L = core.lift


class Param:
    def __init__(self, v):
        self.v = v

    def eval(self):
        return self.v


class Dist:
    """stand-in for a pymc random variable of a linear parameter: print name, (mu, std), unit"""
    def __init__(self, name, kind, mu, std, unit, **extra):
        self.name = name
        params = [Param(mu), Param(std)]
        self.owner = types.SimpleNamespace(op=types.SimpleNamespace(_print_name=(kind, "N"), dist_params=lambda owner: params))
        setattr(self, "__tensor_unit__", unit)
        for k, v in extra.items():
            setattr(self, k, v)


class KSetup:
    def __init__(self):
        self.rec = pyxfront.Recorder()
        self.w = env.World()
        st = stack.Stack(world=self.w, load=("prior_helpers", "likelihood_helpers", "utils"))
        st.load("data_helpers")
        st.load("data")
        st.shims["thejoker.units"] = types.SimpleNamespace(UNIT_ATTR_NAME="__tensor_unit__")
        st.shims["thejoker.distributions"] = types.SimpleNamespace(FixedCompanionMass=object)
        self.st = st
        self.mod = pyxfront.load_symbolic(st.shims, self.rec)
        self.Helper = self.mod.CJokerHelper

    def reset(self):
        del self.rec.calls[:]
        self.rec.n_tags = 0
        self.w.reset()


def survey_of(i, nt, noff):
    """survey of the i-th epoch (time order): consecutive blocks, so the surveys do not interleave in time -- the
    interleaved case is C08's subject (and its recorded finding must not leak into the kernel checks)"""
    return min(noff, i * (noff + 1) // nt)


def make_problem(S, shape):
    """symbolic data + prior for one shape.  shape keys: nt, poly, noff, K ('default'|'normal'),
    units ('plain'|'sym'), P_unit ('day'|'year'|'sym'), tref ('default'|'explicit')"""
    st = S.st
    nt, npoly, noff = shape["nt"], shape["poly"], shape["noff"]
    kms = units.km / units.s
    symu = shape.get("units") == "sym"
    dunit = units.sym_unit("data", kms) if symu else kms
    t = [core.real("t_%d" % i) for i in range(nt)]
    y = [core.real("y_%d" % i) for i in range(nt)]
    err = [core.real("err_%d" % i) for i in range(nt)]
    for e in err:
        core.assume(e > 0)
    for i in range(nt - 1):
        core.assume(t[i] < t[i + 1])
    tref_in = None
    if shape.get("tref") == "explicit":
        tref_in = units.Time(core.real("t_ref_in"))
    data = st.data.RVData(symnp.SymArray(symnp._obj(t), symnp._F8), units.Quantity(symnp.SymArray(symnp._obj(y), symnp._F8), dunit),
                          units.Quantity(symnp.SymArray(symnp._obj(err), symnp._F8), dunit), t_ref=False if shape.get("tref") == "false" else tref_in)
    # through the public entry: validate_prepare_data (what TheJoker._make_joker_helper calls before building the helper).
    # Multi-survey input: epoch i belongs to survey survey_of(i) (consecutive blocks in time), given as a list of RVData.
    ids = None
    if noff:
        srcs = []
        for k in range(noff + 1):
            sel = [i for i in range(nt) if survey_of(i, nt, noff) == k]
            srcs.append(st.data.RVData(symnp.SymArray(symnp._obj([t[i] for i in sel]), symnp._F8),
                                       units.Quantity(symnp.SymArray(symnp._obj([y[i] for i in sel]), symnp._F8), dunit),
                                       units.Quantity(symnp.SymArray(symnp._obj([err[i] for i in sel]), symnp._F8), dunit)))
        symnp.DEFAULT_SORT_STABLE = True
        data, ids, trend_M = st.data_helpers.validate_prepare_data(srcs, npoly, noff)
        if not isinstance(ids, symnp.SymArray):
            ids = symnp.SymArray(symnp._obj(list(ids)), symnp._I8)
    else:
        data, _ids0, trend_M = st.data_helpers.validate_prepare_data(data, npoly, 0)
    # prior
    names_lin = ["K"] + ["v%d" % j for j in range(npoly)]
    off_names = ["dv0_%d" % k for k in range(1, noff + 1)]
    pri = {}
    model = {}

    def mk_unit(name, base):
        return units.sym_unit("pr_" + name, base) if symu else (units.m / units.s if name in ("v0",) and shape.get("mixed") else base)
    if shape["P_unit"] == "sym":
        P_unit = units.sym_unit("Pprior", units.day)
    else:
        P_unit = {"day": units.day, "year": units.year}[shape["P_unit"]]
    Ppar = types.SimpleNamespace(name="P")
    setattr(Ppar, "__tensor_unit__", P_unit)
    for j in range(npoly):
        nm = "v%d" % j
        mu, sd = core.real("mu_" + nm), core.real("sd_" + nm)
        core.assume(sd > 0)
        un = mk_unit(nm, kms / units.day ** j)
        model[nm] = Dist(nm, "Normal", mu, sd, un)
        pri[nm] = (mu, sd, un)
    for nm in off_names:
        mu, sd = core.real("mu_" + nm), core.real("sd_" + nm)
        core.assume(sd > 0)
        un = mk_unit(nm, kms)
        model[nm] = Dist(nm, "Normal", mu, sd, un)
        pri[nm] = (mu, sd, un)
    muK = core.real("mu_K")
    unK = mk_unit("K", kms)
    if shape["K"] == "default":
        sK0, P0, maxK = core.real("sigma_K0"), core.real("P0"), core.real("max_K")
        core.assume(sK0 > 0)
        core.assume(P0 > 0)
        core.assume(maxK > 0)
        sdK = core.real("sd_K_unused")
        # FixedCompanionMass.dist stores sigma_K0 / max_K as quantities in the K unit and P0 converted to P's unit
        model["K"] = Dist("K", "FixedCompanionMass", muK, sdK, unK, _sigma_K0=units.Quantity(sK0, unK), _max_K=units.Quantity(maxK, unK),
                          _P0=units.Quantity(P0, P_unit))
        pri["K"] = (muK, None, unK, sK0, P0, maxK)
    else:
        sdK = core.real("sd_K")
        core.assume(sdK > 0)
        model["K"] = Dist("K", "Normal", muK, sdK, unK)
        pri["K"] = (muK, sdK, unK)
    lin_units = S.st.prior_helpers.get_linear_equiv_units(npoly)
    prior = types.SimpleNamespace(
        v0_offsets=[model[n] for n in off_names], _v_trend_names=["v%d" % j for j in range(npoly)], poly_trend=npoly, n_offsets=noff,
        par_names=["P", "e", "omega", "M0", "s"] + names_lin + off_names, model=model, pars=dict(model, P=Ppar),
        _linear_equiv_units=lin_units)
    # the epoch the property prescribes (independent of what the code stored): the user's explicit t_ref for a single source,
    # 0 when disabled, otherwise the earliest time (t is assumed increasing) -- merged multi-survey data always use the earliest
    if noff or shape.get("tref") not in ("explicit", "false"):
        tref_spec = core.sym_min(list(t)) if nt > 1 else t[0]
    elif shape.get("tref") == "false":
        tref_spec = 0
    else:
        tref_spec = tref_in.tcb._v
    return {"tref_spec": tref_spec, "t": t, "y": y, "err": err, "data": data, "dunit": dunit, "trend_M": trend_M, "prior": prior, "pri": pri, "P_unit": P_unit,
            "names_lin": names_lin, "off_names": off_names, "ids": ids, "tref_in": tref_in, "history": shape.get("history"), "shape": shape}


def prelude_prior_reused(S, pb):
    """call history 'the same prior object was used before, with other data': a helper is built from pb's prior and a
    second data set (own epochs, values and -- with symbolic units -- an own RV unit) and evaluates one row, before
    the helper under check is built.  Whatever the code keeps between the two calls is then part of the run."""
    st = S.st
    shape = pb["shape"]
    nt, npoly, noff = shape["nt"], shape["poly"], shape["noff"]
    kms = units.km / units.s
    dunit = units.sym_unit("data_pre", kms) if shape.get("units") == "sym" else units.m / units.s
    t = [core.real("tpre_%d" % i) for i in range(nt)]
    y = [core.real("ypre_%d" % i) for i in range(nt)]
    err = [core.real("errpre_%d" % i) for i in range(nt)]
    for e in err:
        core.assume(e > 0)
    for i in range(nt - 1):
        core.assume(t[i] < t[i + 1])
    data = st.data.RVData(symnp.SymArray(symnp._obj(t), symnp._F8), units.Quantity(symnp.SymArray(symnp._obj(y), symnp._F8), dunit),
                          units.Quantity(symnp.SymArray(symnp._obj(err), symnp._F8), dunit))
    ids = symnp.SymArray(symnp._obj([survey_of(i, nt, noff) for i in range(nt)]), symnp._I8) if noff else None
    trend_M = st.likelihood_helpers.get_trend_design_matrix(data, ids, npoly)
    prior = pb["prior"]
    if pb.get("history") == "other_prior_first":
        # ANOTHER prior object with the same parameter names and kinds but its own (symbolic) numbers was used before
        model = {}
        for nm, d in pb["prior"].model.items():
            extra = {k: getattr(d, k) for k in ("_sigma_K0", "_max_K", "_P0") if hasattr(d, k)}
            if extra:
                un = getattr(d, "__tensor_unit__")
                extra = {"_sigma_K0": units.Quantity(core.real("pre_sigma_K0"), un), "_max_K": units.Quantity(core.real("pre_max_K"), un),
                         "_P0": units.Quantity(core.real("pre_P0"), extra["_P0"].unit)}
                for q in extra.values():
                    core.assume(q.value > 0)
            sd = core.real("pre_sd_" + nm)
            core.assume(sd > 0)
            model[nm] = Dist(nm, d.owner.op._print_name[0], core.real("pre_mu_" + nm), sd, getattr(d, "__tensor_unit__"), **extra)
        pp = pb["prior"]
        prior = types.SimpleNamespace(v0_offsets=[model[o.name] for o in pp.v0_offsets], _v_trend_names=list(pp._v_trend_names), poly_trend=pp.poly_trend,
                                      n_offsets=pp.n_offsets, par_names=list(pp.par_names), model=model, pars=dict(model, P=pp.pars["P"]),
                                      _linear_equiv_units=pp._linear_equiv_units)
    h = S.Helper(data, prior, trend_M)
    row = chunk_rows(1, tag="pre")
    h.batch_marginal_ln_likelihood(symnp.SymArray(symnp._obj([list(r) for r in row]), symnp._F8))
    del S.rec.calls[:]          # the recorder holds the stub calls of the run under check only


def design_order(pb):
    """column order of the design matrix: K, v0, dv0_1.., v1, ..."""
    return ["K", "v0"] + pb["off_names"] + pb["names_lin"][2:]


def chunk_rows(n, tag=""):
    rows = []
    for r in range(n):
        P, e, om, M0, s = [core.real("%s%s_%d" % (nm, tag, r)) for nm in ("P", "e", "om", "M0", "s")]
        core.assume(P > 0)
        core.assume(e >= 0)
        core.assume(e < 1)
        core.assume(s >= 0)
        rows.append([P, e, om, M0, s])
    return rows


def recip(x):
    """named reciprocal of a symbolic term (same machinery as the engine's division)"""
    return SN(z3.RealVal(1)) / x


def spec_prior_slots(pb, row):
    """declared prior mean / variance of every design column in the data unit (spec side)"""
    P, e = row[0], row[1]
    du = pb["dunit"]
    mus, lams = [], []
    for j, nm in enumerate(design_order(pb)):
        ent = pb["pri"][nm]
        if nm.startswith("v") and not nm.startswith("v0") or nm == "v0":
            k = int(nm[1:])
            target = du / units.day ** k
        else:
            target = du
        f = ent[2].to(target)
        mus.append(ent[0] * f)
        if nm == "K" and ent[1] is None:
            sK0, P0, maxK = ent[3], ent[4], ent[5]
            fK = ent[2].to(du)
            P0_day = P0 * pb["P_unit"].to(units.day)     # the reference period as a physical time, in days like P
            ratio = P / P0_day
            var = (sK0 * fK) * (sK0 * fK) / (1 - e * e) * core.uf("POW", ratio, -2 / 3.)
            cap = (maxK * fK) * (maxK * fK)
            lams.append(core.sym_min([cap, var]))
            pb["_last_K_rule"] = {"uncapped": var, "cap": cap}
        else:
            lams.append((ent[1] * f) * (ent[1] * f))
    return mus, lams


def run_marginal(S, pb, rows):
    """construct the helper (real __init__) and run batch_marginal_ln_likelihood on the chunk"""
    chunk = symnp.SymArray(symnp._obj([list(r) for r in rows]), symnp._F8)
    if pb.get("history") in ("prior_reused", "other_prior_first"):
        prelude_prior_reused(S, pb)
    h = S.Helper(pb["data"], pb["prior"], pb["trend_M"])
    ll = h.batch_marginal_ln_likelihood(chunk)
    return h, ll


def cells2(arr, n, m):
    a = arr.a if isinstance(arr, symnp.SymArray) else arr
    return [[a[i, j] for j in range(m)] for i in range(n)]


def cells1(arr, n):
    a = arr.a if isinstance(arr, symnp.SymArray) else arr
    return [a[i] for i in range(n)]


def pickle_roundtrip(obj):
    """what pickle.loads(pickle.dumps(obj)) builds for an instance of a class of the code under test, following the
    pickle protocol (2+) on the class as written: a user __reduce_ex__/__reduce__ -> callable(*args) [+ state];
    otherwise a bare instance (cls.__new__) whose state is __getstate__() or the instance __dict__, installed by
    __setstate__ or into __dict__.  Attribute values travel by value (symbolic cells are immutable terms; arrays copied)."""
    cls = type(obj)

    def val(v):
        return v.copy() if isinstance(v, symnp.SymArray) else v

    def set_state(new, state):
        if state is None:
            return
        if "__setstate__" in _user_attrs(cls):
            new.__setstate__(state)
        else:
            slots = None
            if isinstance(state, tuple) and len(state) == 2:
                state, slots = state
            if state:
                new.__dict__.update({k: val(v) for k, v in state.items()})
            if slots:
                for k, v in slots.items():
                    setattr(new, k, val(v))
    ua = _user_attrs(cls)
    red = None
    if "__reduce_ex__" in ua:
        red = obj.__reduce_ex__(2)
    elif "__reduce__" in ua:
        red = obj.__reduce__()
    if red is not None:
        if isinstance(red, str):
            return obj
        new = red[0](*[val(a) for a in red[1]])
        set_state(new, red[2] if len(red) > 2 else None)
        return new
    args = obj.__getnewargs__() if "__getnewargs__" in ua else ()
    new = cls.__new__(cls, *args)
    state = obj.__getstate__() if "__getstate__" in ua else dict(obj.__dict__)
    set_state(new, state)
    return new


def _user_attrs(cls):
    out = set()
    for k in cls.__mro__:
        if k is object:
            continue
        out |= set(vars(k))
    return out
