"""C13 -- failures propagate and never leak cache files or damage user files.

Crash points are a symbolic variable: every environment call reachable from the entry points
(NamedTemporaryFile, the cache write, tables.open_file, h5py.File, header access, table reads,
pool.map, each worker body, the kernel calls, os.unlink, data validation) consults one symbolic
integer `fault_at` -- "the k-th environment call of this run fails" -- and the explorer forks on it, so
every crash point of every feasible path is covered by the solver-driven exploration (<= 1 fault per
run).  The file-system model tracks created / removed paths and open modes.  After the (possibly
failing) first call the same TheJoker object is called again without faults.
"""
import os
import types

from symx import core, env, symnp, units
from symx.core import z3
from symx.framework import new_result, VCSink, fill_explorer
from checks import groupa, c02

PROPERTY = "C13"
LEVEL = "model_checking"
FUNCTIONS = [
    ("thejoker/utils.py", "tempfile_decorator"), ("thejoker/utils.py", "read_batch_slice"), ("thejoker/utils.py", "read_batch_idx"),
    ("thejoker/multiproc_helpers.py", "run_worker"), ("thejoker/multiproc_helpers.py", "marginal_ln_likelihood_helper"),
    ("thejoker/multiproc_helpers.py", "rejection_sample_helper"), ("thejoker/multiproc_helpers.py", "iterative_rejection_helper"),
    ("thejoker/multiproc_helpers.py", "make_full_samples"), ("thejoker/thejoker.py", "TheJoker.marginal_ln_likelihood"),
    ("thejoker/thejoker.py", "TheJoker.rejection_sample"), ("thejoker/thejoker.py", "TheJoker.iterative_rejection_sample"),
    ("thejoker/samples.py", "JokerSamples.write"), ("thejoker/samples_helpers.py", "write_table_hdf5"),
]
ASSUMPTIONS = [
    "a fault is an exception raised by one environment call (at most one per run); hard process death and crashes inside real worker processes are outside the claim",
    "file system / HDF5 / temp files / pool by contract (symx.env): the model tracks existing paths, creation, unlink, open modes; a closed pool refuses map() as multiprocessing pools do",
    "if os.unlink itself is the failing call the temp file cannot be removed by anyone: the no-leak claim is not asserted for that crash point",
    "bounds: library N = 2, <= 1 fault, n_batches in {None, 2}, pool size 1..2",
]


def bounds(tier):
    return {"N": 2, "faults_per_run": "1 (quick), <= 2 (thorough)", "entries": ["marginal", "rejection", "iterative"], "src": ["user file name", "JokerSamples object (temp cache)", "in_memory"],
            "crash_points": "every environment call of the run (symbolic index)"}


def shapes(tier):
    out = []
    for entry in ("marginal", "rejection", "iterative"):
        for src in ("filename", "object", "inmem"):
            for nb in ((None,) if tier == "quick" and src != "object" else (None, 2)):
                out.append({"entry": entry, "src": src, "n_batches": nb, "pool": 2 if nb is None else 1, "N": 2})
    # the iterative sampler going through several likelihood rounds (a fault in a later round must surface as well)
    for src in ("filename", "inmem"):
        out.append({"entry": "iterative", "src": src, "n_batches": None, "pool": 1, "N": 3, "req": 2})
    # argument forms at the edge of the documented ones (no injected fault needed): more prior samples requested than the object
    # holds (must raise, nothing may be left behind); the user's file given as a path-like object instead of a str
    out.append({"entry": "rejection", "src": "object", "n_batches": None, "pool": 1, "N": 2, "n_prior": 3})
    for entry in ("marginal", "rejection"):
        out.append({"entry": entry, "src": "pathlike", "n_batches": None, "pool": 1, "N": 2})
    # the cache-writing step with the real write_table_hdf5 (every h5py / os operation a crash point)
    for n in (1, 2):
        out.append({"family": "cache_write", "n": n, "interrupt": n == 2, "entry": "marginal", "src": "object", "n_batches": None, "pool": 1, "N": 2})
    # the failing step may be an interrupt (KeyboardInterrupt: not an Exception subclass) -- also an exit path
    for entry in ("marginal", "rejection", "iterative"):
        out.append({"entry": entry, "src": "object", "n_batches": None, "pool": 1, "N": 2, "interrupt": True})
    # ... or an arithmetic error (FloatingPointError / ZeroDivisionError family) rather than a generic one
    for entry in ("marginal", "rejection", "iterative"):
        out.append({"entry": entry, "src": "object", "n_batches": None, "pool": 1, "N": 2, "arith": True})
    if tier == "thorough":
        # two crash points in one run (the second one after the first, e.g. inside the clean-up it triggers)
        for entry in ("marginal", "rejection", "iterative"):
            for src in ("filename", "object"):
                out.append({"entry": entry, "src": src, "n_batches": None, "pool": 1, "N": 2, "faults": 2})
    return out


def _call(S, joker, shape, data, lib, lnp):
    src_kind = shape["src"]
    if src_kind == "filename":
        src = "user_lib.hdf5"
    elif src_kind == "pathlike":
        import pathlib
        src = pathlib.PurePosixPath("user_lib.hdf5")
    else:
        src = S.as_samples(lib, lnp)
    inmem = src_kind == "inmem"
    if shape["entry"] == "marginal":
        return joker.marginal_ln_likelihood(data, src, n_batches=shape["n_batches"], in_memory=inmem)
    if shape["entry"] == "rejection":
        return joker.rejection_sample(data, src, n_linear_samples=1, return_logprobs=True, n_batches=shape["n_batches"], in_memory=inmem,
                                      n_prior_samples=shape.get("n_prior"))
    return joker.iterative_rejection_sample(data, src, n_requested_samples=shape.get("req", 1), n_linear_samples=1, return_logprobs=True, n_batches=shape["n_batches"],
                                            init_batch_size=1, in_memory=inmem)


def _harness(S, shape):
    fault_at = core.integer("fault_at")
    core.assume(fault_at >= -1)
    core.assume(fault_at <= 80)
    S.reset(fault_at)
    w = S.w
    if shape.get("faults", 1) == 2:
        f2 = core.integer("fault_at2")
        core.assume(f2 > fault_at)
        core.assume(f2 <= 90)
        w.fault_at2 = f2
    if shape.get("interrupt"):
        w.fault_interrupt = core.boolean("fault_is_interrupt")
    if shape.get("arith"):
        w.fault_arith = core.boolean("fault_is_arithmetic")
    N = shape["N"]
    lib, lnp = S.library(N, with_lnp=True)
    S.as_file(lib, lnp)            # the user's file (exists in every shape; only used when src == filename)
    user_fm = w.files["user_lib.hdf5"]
    user_snapshot = {k: list(v.a) for k, v in user_fm.columns.items()}
    rng = env.SymRng(w)
    pool = env.Pool(w, size=shape["pool"], order="reversed")
    joker = S.st.thejoker.TheJoker(S.JokerPrior(S), pool=pool, rng=rng)
    data = types.SimpleNamespace(t_ref=units.Time(core.real("t_ref")))
    first = {"raised": None, "result": None}
    try:
        first["result"] = _call(S, joker, shape, data, lib, lnp)
    except (Exception, env.InjectedInterrupt) as e:
        first["raised"] = e
    first["fault"] = w.fault_site
    first["fault_kind"] = w.fault_kind
    first["fault2"] = w.fault_site2
    w.fault_at2 = None
    first["files"] = sorted(w.files)
    first["log"] = list(w.log)
    first["n_env_calls"] = w.env_calls
    # second call on the same object, no faults
    w.fault_at = None
    n_log = len(w.log)
    second = {"raised": None, "result": None}
    try:
        second["result"] = _call(S, joker, shape, data, lib, lnp)
    except Exception as e:
        second["raised"] = e
    second["files"] = sorted(w.files)
    second["log"] = list(w.log[n_log:])
    user_ok = w.files.get("user_lib.hdf5") is user_fm and "user_lib.hdf5" in w.files and all(
        len(user_fm.columns[k].a) == len(v) and all(a is b for a, b in zip(user_fm.columns[k].a, v)) for k, v in user_snapshot.items()) and set(user_fm.columns) == set(user_snapshot)
    return {"first": first, "second": second, "lib": lib, "lnp": lnp, "user_ok": user_ok, "sites": list(w.sites)}


def _user_events_ok(log):
    for e in log:
        if e[0] == "open" and e[2] == "user_lib.hdf5" and e[3] != "r":
            return False
        if e[0] in ("unlink", "write") and e[1] == "user_lib.hdf5":
            return False
    return True


class _FaultLog(list):
    """event log of the h5py / os model of checks.c12 whose every entry is also a crash point of the World"""
    def __init__(self, w):
        list.__init__(self)
        self.w = w

    def append(self, e):
        self.w.call("h5py." + str(e[0]) if e[0] not in ("remove", "replace") else "os." + str(e[0]))
        list.append(self, e)
        self.w.event("h5", *e)


def _run_cache_write(shape, res, sink):
    """the cache-writing step itself: real utils.tempfile_decorator around the real samples_helpers.write_table_hdf5,
    on one file-system model (temp-file creation, h5py file/group/dataset operations, os.remove/unlink), every
    operation a crash point.  Whatever fails, nothing but the user's files may remain."""
    from checks import c12
    from symx import stack, loader
    w = env.World()
    st = stack.Stack(world=w, load=("prior_helpers", "likelihood_helpers", "utils", "samples"))
    hm = types.SimpleNamespace(files=w.files, log=_FaultLog(w))
    sh = c12._helpers_shims(st, hm)
    mod = loader.load("thejoker/samples_helpers.py", sh, "thejoker.samples_helpers")
    JS = st.samples.JokerSamples
    n = shape["n"]
    seen = {}

    def func(prior_samples_file, tag=None):
        w.call("func")
        f = w.files.get(prior_samples_file)
        seen["file"] = f
        seen["rows"] = list(f.items["samples"].rows) if isinstance(f, c12.HFile) and "samples" in f.items else None
        return "done"
    wrapped = st.utils.tempfile_decorator(func)

    def harness():
        fault_at = core.integer("fault_at")
        core.assume(fault_at >= -1)
        core.assume(fault_at <= 40)
        w.reset(fault_at)
        hm.files = w.files
        del hm.log[:]
        seen.clear()
        if shape.get("interrupt"):
            w.fault_interrupt = core.boolean("fault_is_interrupt")
        w.files["user_lib.hdf5"] = env.FileModel("user_lib.hdf5", user=True)
        rows = [("row", i) for i in range(n)]
        tbl = c12.Tbl([dict(c12.MENU[0])], {"poly_trend": 1, "n_offsets": 0}, rows)
        obj = object.__new__(JS)
        obj.write = lambda output, overwrite=False, append=False: mod.write_table_hdf5(
            tbl, output, path="samples", compression=False, append=append, overwrite=overwrite, serialize_meta=True, metadata_conflicts="error", maxshape=(None,))
        out = {"raised": None, "result": None}
        try:
            out["result"] = wrapped(prior_samples_file=obj)
        except (Exception, env.InjectedInterrupt) as e:
            out["raised"] = e
        out.update(fault=w.fault_site, kind=w.fault_kind, files=sorted(w.files), rows=rows, seen=dict(seen), sites=list(w.sites))
        return out
    ex = core.Explorer(max_paths=2000)
    twin = False
    n_fault = 0
    for path in ex.paths(harness):
        core.Ctx.cur = path.ctx
        try:
            r, _, _ = path.check(core.SB(z3.BoolVal(False)))
            twin = twin or r == "sat"
            if path.raised is not None:
                if isinstance(path.raised, core.UnsupportedByShim):
                    raise path.raised
                sink.check(path, "cache_write.harness", core.SB(z3.BoolVal(False)), site="harness", describe=lambda m: {"raised": repr(path.raised)[:300]})
                continue
            o = path.result
            fault = o["fault"]
            site = fault[1] if fault else None
            k = o["sites"][:fault[0]].count(site) if fault else None
            desc = lambda m: {"fault_site": site, "per_site_index": k, "interrupt": o["kind"] == "interrupt", "raised": repr(o["raised"])[:200], "files_left": o["files"]}
            tag = "cache_write." + (site or "nofault")
            if fault:
                n_fault += 1
                sink.check(path, "propagates", core.SB(z3.BoolVal(o["raised"] is not None)), site=tag, describe=desc)
            else:
                ok = o["raised"] is None and o["result"] == "done" and o["seen"].get("rows") == o["rows"]
                sink.check(path, "cache_holds_the_library", core.SB(z3.BoolVal(bool(ok))), site=tag, describe=desc)
            if site not in ("os.unlink",):
                left = [p for p in o["files"] if p != "user_lib.hdf5"]
                sink.check(path, "no_leaked_cache_file", core.SB(z3.BoolVal(not left)), site=tag, describe=desc)
            sink.check(path, "user_file_untouched", core.SB(z3.BoolVal("user_lib.hdf5" in o["files"])), site=tag, describe=desc)
        finally:
            core.Ctx.cur = None
    res["twin_ok"] = twin and n_fault > 0
    res["notes"].append("crash points explored in this shape: %d" % n_fault)
    fill_explorer(res, ex)
    return res


def run_shape(shape, tier):
    res = new_result(shape)
    sink = VCSink(res, PROPERTY)
    if shape.get("family") == "cache_write":
        return _run_cache_write(shape, res, sink)
    S = groupa.Setup(with_api=True)
    ex = core.Explorer(max_paths=6000, max_seconds=1200)
    twin = False
    n_fault_paths = 0
    for path in ex.paths(lambda: _harness(S, shape)):
        core.Ctx.cur = path.ctx
        try:
            r, _, _ = path.check(core.SB(z3.BoolVal(False)))
            twin = twin or r == "sat"
            if path.raised is not None:
                sink.check(path, "harness", core.SB(z3.BoolVal(False)), site="harness", describe=lambda m: {"raised": repr(path.raised)[:300]})
                continue
            info = path.result
            f, s2 = info["first"], info["second"]
            fault = f["fault"]
            site = fault[1] if fault else None
            per_site_k = info["sites"][:fault[0]].count(site) if fault else None
            desc = lambda m: {"fault_site": site, "per_site_index": per_site_k, "interrupt": f.get("fault_kind") == "interrupt", "arith": f.get("fault_kind") == "arith", "second_fault": (f.get("fault2") or [None, None])[1], "global_index": fault[0] if fault else None,
                              "raised": repr(f["raised"])[:200], "second_raised": repr(s2["raised"])[:200]}
            tag = "%s" % (site or "nofault")
            if fault:
                n_fault_paths += 1
                sink.check(path, "propagates", core.SB(z3.BoolVal(f["raised"] is not None)), site=tag, describe=desc)
            elif shape.get("n_prior", 0) > shape["N"]:
                # asking for more prior samples than there are must be refused (and still leave nothing behind)
                sink.check(path, "too_many_requested_raises", core.SB(z3.BoolVal(isinstance(f["raised"], ValueError))), site=tag, describe=desc)
            elif shape["src"] == "pathlike":
                # the documented forms are a str file name or a JokerSamples: refusing anything else is fine, using it is fine, harming the file is not
                sink.check(path, "no_spurious_exception", core.SB(z3.BoolVal(f["raised"] is None or isinstance(f["raised"], TypeError))), site=tag, describe=desc)
            else:
                sink.check(path, "no_spurious_exception", core.SB(z3.BoolVal(f["raised"] is None)), site=tag, describe=desc)
            site2 = f["fault2"][1] if f.get("fault2") else None
            if site != "os.unlink" and site2 != "os.unlink":
                leaked = [p for p in f["files"] if p.startswith("/tmpmodel/")]
                sink.check(path, "no_leaked_cache_file", core.SB(z3.BoolVal(not leaked)), site=tag, describe=lambda m: dict(desc(m), leaked=leaked))
            sink.check(path, "user_file_untouched", core.SB(z3.BoolVal(info["user_ok"] and _user_events_ok(f["log"]) and _user_events_ok(s2["log"]))), site=tag, describe=desc)
            if shape.get("n_prior", 0) > shape["N"] or (shape["src"] == "pathlike" and isinstance(s2["raised"], TypeError)):
                continue      # the follow-up call repeats the refused request
            # the next call on the same object works and leaves nothing behind
            ok2 = s2["raised"] is None and (site == "os.unlink" or site2 == "os.unlink" or not [p for p in s2["files"] if p.startswith("/tmpmodel/")])
            if ok2:
                r2 = s2["result"]
                if shape["entry"] == "marginal":
                    ok2 = isinstance(r2, symnp.SymArray) and r2.a.shape == (shape["N"],)
                    cl = z3.And([core.lift(r2.a[i] == groupa.ll_of(info["lib"][i])) for i in range(shape["N"])]) if ok2 else z3.BoolVal(False)
                else:
                    obs = groupa.observe_samples(r2)
                    ok2 = not obs.get("not_samples") and obs.get("n", 0) >= 1
                    # every returned row is a library row with its own ln_prior / ln_likelihood
                    cl = z3.BoolVal(False)
                    if ok2 and "ln_prior" in obs and not isinstance(obs["ln_prior"], env.RecordRows):
                        rows_ok = []
                        for g in range(obs["n"]):
                            rows_ok.append(z3.Or([z3.And([core.lift(obs["rows"][g][c] == info["lib"][i][c]) for c in range(5)]
                                                         + [core.lift(obs["ln_prior"][g] == info["lnp"][i]), core.lift(obs["ln_likelihood"][g] == groupa.ll_of(info["lib"][i]))])
                                                  for i in range(shape["N"])]))
                        cl = z3.And(rows_ok)
                sink.check(path, "next_call_correct", core.SB(cl), site=tag, describe=desc)
            else:
                sink.check(path, "next_call_correct", core.SB(z3.BoolVal(False)), site=tag, describe=desc)
        finally:
            core.Ctx.cur = None
    res["twin_ok"] = twin and (n_fault_paths > 0)
    res["notes"].append("crash points explored in this shape: %d" % n_fault_paths)
    fill_explorer(res, ex)
    if shape["n_batches"] is None:
        res["witnesses"].append({"vc": "witness", "site": "nofault", "shape": shape, "model": {"fault_site": None, "per_site_index": None}, "witness": True})
        res["witnesses"].append({"vc": "witness", "site": "kernel.ll", "shape": shape, "model": {"fault_site": "kernel.ll", "per_site_index": 0}, "witness": True})
    return res


# ---------------------------------------------------------------------------------------------
# replay on the real build: monkey-patched real functions raising at the model's invocation index
# ---------------------------------------------------------------------------------------------

class Boom(Exception):
    pass


class BoomInterrupt(KeyboardInterrupt):
    pass


class BoomArith(Boom, FloatingPointError):
    pass


class FakeHelper:
    """picklable stand-in for the compiled kernel (module level so that real worker processes can import it)"""
    packed_order = ["P", "e", "omega", "M0", "s"]
    fail = {"kernel.ll": None, "kernel.post": None}
    count = {"kernel.ll": 0, "kernel.post": 0}
    boom = Boom

    def __init__(self):
        import astropy.units as u
        from astropy.time import Time
        self.internal_units = {"P": u.day, "e": u.one, "omega": u.rad, "M0": u.rad, "s": u.km / u.s, "K": u.km / u.s, "v0": u.km / u.s}
        self.data = types.SimpleNamespace(t_ref=Time(55000.0, format="mjd", scale="tcb"))
        self.prior = types.SimpleNamespace(poly_trend=1, n_offsets=0)

    def _tick(self, site):
        k = FakeHelper.count[site]
        FakeHelper.count[site] += 1
        if FakeHelper.fail[site] is not None and k == FakeHelper.fail[site]:
            raise FakeHelper.boom("injected fault in %s #%d" % (site, k))

    def batch_marginal_ln_likelihood(self, chunk):
        import numpy as np
        self._tick("kernel.ll")
        return -0.01 * np.asarray(chunk)[:, 0]

    def batch_get_posterior_samples(self, chunk, n_lin, rng):
        import numpy as np
        self._tick("kernel.post")
        chunk = np.asarray(chunk)
        raw = np.zeros((len(chunk) * n_lin, 7))
        for i, r in enumerate(chunk):
            for j in range(n_lin):
                raw[i * n_lin + j, :5] = r
        return raw, np.zeros(len(chunk) * n_lin)


def replay(cand):
    import contextlib
    import glob
    import hashlib
    import shutil
    import tempfile
    import numpy as np
    import astropy.units as u
    import h5py
    import tables as tb
    import schwimmbad
    import thejoker
    import thejoker.utils as tju
    import thejoker.samples as tjs
    import thejoker.thejoker as tjm
    from thejoker.samples import JokerSamples
    shape = cand["shape"]
    m = cand.get("model") or {}
    site, k = m.get("fault_site"), m.get("per_site_index")
    Boom_ = BoomInterrupt if m.get("interrupt") else (BoomArith if m.get("arith") else Boom)
    if site in ("os.unlink", "validate_prepare_data", "h5py.getitem", "worker"):
        # map the unreplayable crash points onto the nearest replayable one in the same region
        site = {"worker": "kernel.ll", "h5py.getitem": "h5py.File", "validate_prepare_data": None, "os.unlink": None}[site]
        if site is None:
            return {"reproduced": False, "detail": "crash point not replayable on the real build"}
    if shape.get("family") == "cache_write" and site is not None:
        site = {"h5py.open": "h5py.File", "h5py.truncate": "h5py.File", "h5py.create": "h5py.create", "h5py.create_group": "h5py.create", "h5py.assign": "h5py.create",
                "h5py.resize": "h5py.create", "h5py.delete": "h5py.create", "os.remove": "os.remove", "os.replace": "h5py.create", "func": "tables.open_file"}.get(site, site)
        if site == "tables.open_file":
            k = 0
    tmpd = tempfile.mkdtemp(prefix="verif_c13_")
    userd = tempfile.mkdtemp(prefix="verif_c13_user_")
    old_tmp = tempfile.tempdir
    tempfile.tempdir = tmpd
    patches = []
    try:
        N = 6
        lib = JokerSamples(poly_trend=1, n_offsets=0)
        rnd = np.random.default_rng(5)
        lib["P"] = rnd.uniform(2, 50, N) * u.day
        lib["e"] = rnd.uniform(0, 0.5, N) * u.one
        lib["omega"] = rnd.uniform(0, 6, N) * u.rad
        lib["M0"] = rnd.uniform(0, 6, N) * u.rad
        lib["s"] = np.zeros(N) * u.km / u.s
        lib["ln_prior"] = rnd.normal(size=N)
        fn = os.path.join(userd, "user_lib.hdf5")
        lib.write(fn, overwrite=True)
        sha0 = hashlib.sha256(open(fn, "rb").read()).hexdigest()
        FakeHelper.fail = {"kernel.ll": None, "kernel.post": None}
        FakeHelper.count = {"kernel.ll": 0, "kernel.post": 0}
        FakeHelper.boom = Boom_
        helper = FakeHelper()
        counters = {}

        def faulty(name, real):
            def f(*a, **kw):
                c = counters.get(name, 0)
                counters[name] = c + 1
                if active[0] and site == name and c == k:
                    raise Boom_("injected fault in %s #%d" % (name, c))
                return real(*a, **kw)
            return f
        active = [True]

        class Pool(schwimmbad.SerialPool):
            size = shape["pool"]
            closed = False

            def map(self, f, tasks):
                if self.closed:
                    raise ValueError("Pool not running")
                c = counters.get("pool.map", 0)
                counters["pool.map"] = c + 1
                if active[0] and site == "pool.map" and c == k:
                    raise Boom_("injected fault in pool.map #%d" % c)
                return [f(t) for t in tasks]

            def close(self):
                self.closed = True

        def patch(obj, attr, new):
            patches.append((obj, attr, getattr(obj, attr)))
            setattr(obj, attr, new)
        patch(tju, "NamedTemporaryFile", faulty("NamedTemporaryFile", tju.NamedTemporaryFile))
        patch(tjs, "write_table_hdf5", faulty("write_table_hdf5", tjs.write_table_hdf5))
        patch(tb, "open_file", faulty("tables.open_file", tb.open_file))
        patch(tb.Table, "read", faulty("tables.read", tb.Table.read))
        patch(tb.Table, "read_coordinates", faulty("tables.read_coordinates", tb.Table.read_coordinates))
        realFile = h5py.File

        class FaultyFile(realFile):
            def __init__(self, *a, **kw):
                c = counters.get("h5py.File", 0)
                counters["h5py.File"] = c + 1
                if active[0] and site == "h5py.File" and c == k:
                    raise Boom_("injected fault in h5py.File #%d" % c)
                super().__init__(*a, **kw)
        patch(h5py, "File", FaultyFile)
        patch(h5py.Group, "create_dataset", faulty("h5py.create", h5py.Group.create_dataset))
        if site == "os.remove":
            import thejoker.samples_helpers as tsh
            patch(tsh.os, "remove", faulty("os.remove", tsh.os.remove))
        if site in ("kernel.ll", "kernel.post"):
            FakeHelper.fail[site] = k
        patch(tjm.TheJoker, "_make_joker_helper", lambda self, data: helper)
        joker = thejoker.TheJoker.__new__(thejoker.TheJoker)
        joker.pool, joker.rng, joker.prior = Pool(), np.random.default_rng(1), object.__new__(thejoker.JokerPrior)

        def call():
            import pathlib
            src = fn if shape["src"] == "filename" else (pathlib.Path(fn) if shape["src"] == "pathlike" else lib)
            inmem = shape["src"] == "inmem"
            if shape.get("n_prior"):
                return joker.rejection_sample(None, src, n_linear_samples=1, return_logprobs=True, n_batches=shape["n_batches"], in_memory=inmem, n_prior_samples=len(lib) + 1)
            if shape["entry"] == "marginal":
                return joker.marginal_ln_likelihood(None, src, n_batches=shape["n_batches"], in_memory=inmem)
            if shape["entry"] == "rejection":
                return joker.rejection_sample(None, src, n_linear_samples=1, return_logprobs=True, n_batches=shape["n_batches"], in_memory=inmem)
            return joker.iterative_rejection_sample(None, src, n_requested_samples=shape.get("req", 1) if shape.get("req") is None else len(lib), n_linear_samples=1, return_logprobs=True,
                                                    n_batches=shape["n_batches"], init_batch_size=2 if shape.get("req") is None else 1, in_memory=inmem)
        bad = []
        raised = None
        try:
            call()
        except (Exception, BoomInterrupt) as e:
            raised = e
        fired = site is not None and (counters.get(site, 0) > k if site not in ("kernel.ll", "kernel.post") else FakeHelper.count[site] > k)
        if site is not None and not fired:
            return {"reproduced": False, "detail": "the crash point %s#%s is not reached on the real build's call sequence" % (site, k)}
        if site is not None and raised is None:
            bad.append("the injected fault in %s did not reach the caller" % site)
        refused_ok = (shape.get("n_prior") and isinstance(raised, ValueError)) or (shape["src"] == "pathlike" and isinstance(raised, TypeError))
        if shape.get("n_prior") and not isinstance(raised, ValueError):
            bad.append("n_prior_samples larger than the library was not refused with ValueError (got %r)" % (raised,))
        if site is None and raised is not None and not refused_ok:
            bad.append("fault-free call raised %r" % (raised,))
        if not os.path.exists(fn):
            bad.append("the user's file was deleted")
            lib.write(fn, overwrite=True)
            sha0 = hashlib.sha256(open(fn, "rb").read()).hexdigest()
        left = glob.glob(os.path.join(tmpd, "*"))
        if left:
            bad.append("temporary files left behind: %s" % [os.path.basename(p) for p in left])
        if hashlib.sha256(open(fn, "rb").read()).hexdigest() != sha0:
            bad.append("the user's file was modified")
        active[0] = False
        FakeHelper.fail = {"kernel.ll": None, "kernel.post": None}
        try:
            if refused_ok:
                raise StopIteration
            r2 = call()
            if shape["entry"] == "marginal":
                if not np.allclose(np.asarray(r2), -0.01 * lib["P"].value):
                    bad.append("follow-up call returned wrong likelihoods")
            else:
                P = np.atleast_1d(r2["P"].value)
                if len(P) < 1 or not all(np.any(np.isclose(p, lib["P"].value)) for p in P):
                    bad.append("follow-up call returned rows that are not library rows")
        except StopIteration:
            pass
        except Exception as e:
            bad.append("the next call on the same TheJoker object failed: %s: %s" % (type(e).__name__, str(e)[:120]))
        left = glob.glob(os.path.join(tmpd, "*"))
        if left:
            bad.append("temporary files left behind after the follow-up call")
        if not os.path.exists(fn):
            bad.append("the user's file was deleted by the follow-up call")
        elif hashlib.sha256(open(fn, "rb").read()).hexdigest() != sha0:
            bad.append("the user's file was modified by the follow-up call")
        return {"reproduced": bool(bad), "detail": "; ".join(bad)[:800] or "fault at %s#%s handled correctly" % (site, k)}
    finally:
        for obj, attr, old in reversed(patches):
            setattr(obj, attr, old)
        tempfile.tempdir = old_tmp
        shutil.rmtree(tmpd, ignore_errors=True)
        shutil.rmtree(userd, ignore_errors=True)
