"""C04 -- a sample row denotes one RV curve everywhere (the Bayes identity holds).

Encoded (current tree): samples.JokerSamples.get_orbit, .orbits, ln_unmarginalized_likelihood,
likelihood_helpers.ln_normal (real Python under shims).  twobody's KeplerOrbit / PolynomialRVTrend are
shimmed by their documented formulas: rv(t) = K_eff * RV(t - t0; P, e, omega, M0) + sum_k c_k (t - t0)^k
with K_eff = 2 pi a sin(i) / (P sqrt(1 - e^2)) -- the same uninterpreted RV symbol as the kernel's
c_rv_from_elements contract (C01).  VCs: X1 the orbit's (P, e, omega, M0, t0) are the row's and the
samples' t_ref, and its effective amplitude is the row's K; X2 trend coefficient v_k multiplies
(t - t_ref)^k, exactly the kernel's design-matrix column k; X4 the per-epoch variance in
ln_unmarginalized_likelihood is sigma_n^2 + s^2 in the data unit and the summand is the Normal log
density.  X3 (posterior samples inherit data.t_ref) is C03-W6.  With C01, C03 and Gaussian conjugacy
(trusted) this is the stated identity.
"""
import math
import types
from fractions import Fraction

from symx import core, stack, symnp, units
from symx.core import z3
from symx.framework import new_result, VCSink, fill_explorer, add_witness

PROPERTY = "C04"
LEVEL = "model_checking"
FUNCTIONS = [("thejoker/samples.py", "JokerSamples.get_orbit"), ("thejoker/samples.py", "JokerSamples.orbits"),
             ("thejoker/samples.py", "JokerSamples.ln_unmarginalized_likelihood"), ("thejoker/likelihood_helpers.py", "ln_normal"),
             ("thejoker/likelihood_helpers.py", "get_trend_design_matrix")]
ASSUMPTIONS = [
    "twobody.KeplerOrbit.radial_velocity(t) = K_eff*RV(t-t0;P,e,omega,M0) + PolynomialRVTrend(c, t0)(t), K_eff = 2 pi a sin i/(P sqrt(1-e^2)), RV uninterpreted (shared with the kernel contract of C01); twobody internals are outside",
    "Gaussian conjugacy: marginal = likelihood * prior / conditional posterior (trusted lemma) links X1-X4, C01 and C03 to the stated identity",
    "n_offsets > 0: the public ln_unmarginalized_likelihood takes ONE RVData and get_orbit has no offset argument, so the identity is claimed there only up to X1-X3",
    "bounds: <= 2 epochs, <= 2 sample rows, poly_trend <= 3; SQRT/LOG uninterpreted with sqrt(x)^2 = x",
]
L = core.lift


def bounds(tier):
    return {"n_epochs": [1, 2], "rows": [1, 2], "poly_trend": [1, 3]}


def shapes(tier):
    out = []
    for npoly in (1, 2, 3):
        for n in (1, 2):
            for nt in (1, 2):
                out.append({"poly": npoly, "n": n, "nt": nt, "jitter_col": (npoly + n) % 2 == 0, "dunit": "m/s" if nt == 2 else "km/s"})
    return out


class Elements:
    pass


class KeplerOrbit:
    """documented behaviour of twobody.KeplerOrbit as far as thejoker uses it"""
    def __init__(self, P=None, e=None, omega=None, Omega=None, i=None, a=None, t0=None, **kw):
        self.elements = Elements()
        self.elements._P, self.elements._e, self.elements._omega, self.elements._Omega = P, e, omega, Omega
        self.elements._i, self.elements._a, self.elements.t0 = i, a, t0
        self.elements._M0 = kw.get("M0", 0 * units.rad)
        self._vtrend = None
        self._barycenter = None

    def __copy__(self):
        o = KeplerOrbit()
        o.elements = Elements()
        o.elements.__dict__.update(self.elements.__dict__)
        o._vtrend, o._barycenter = self._vtrend, self._barycenter
        return o

    def radial_velocity(self, time):
        el = self.elements
        P, e, a = el._P, el._e, el._a
        ev = e.to_value(units.one) if isinstance(e, units.Quantity) else e
        # K_eff = 2 pi a sin(i) / (P sqrt(1 - e^2)), i = 90 deg for thejoker's orbits
        sini = 1
        K = (a * (2 * math.pi) * sini) / (P * symnp.sqrt(1 - ev * ev))
        tt = time.tcb._v if isinstance(time, units.Time) else time
        t0 = el.t0.tcb._v
        om = el._omega.to_value(units.rad)
        M0 = el._M0.to_value(units.rad)
        Pd = P.to_value(units.day)
        cells = []
        tl = list(tt.a) if isinstance(tt, symnp.SymArray) else [tt]
        for t in tl:
            cells.append(core.uf("RV", t - t0, Pd, ev, om, M0))
        kep = K * symnp.SymArray(symnp._obj(cells), symnp._F8)
        if self._vtrend is not None:
            kep = kep + self._vtrend(time)
        return kep


class PolynomialRVTrend:
    def __init__(self, coeffs=None, t0=None):
        self.coeffs = list(coeffs or [])
        self.t0 = t0

    def __call__(self, time):
        tt = time.tcb._v
        tl = list(tt.a) if isinstance(tt, symnp.SymArray) else [tt]
        t0 = self.t0.tcb._v if self.t0 is not None else 0
        out = None
        for k, c in enumerate(self.coeffs):
            dt = units.Quantity(symnp.SymArray(symnp._obj([(t - t0) for t in tl]), symnp._F8), units.day)
            term = c * dt ** k if k else c * symnp.SymArray(symnp._obj([1.0] * len(tl)), symnp._F8)
            out = term if out is None else out + term
        return out


def run_shape(shape, tier):
    res = new_result(shape)
    sink = VCSink(res, PROPERTY)
    st = stack.Stack(load=("prior_helpers", "likelihood_helpers", "samples"), twobody={"KeplerOrbit": KeplerOrbit, "PolynomialRVTrend": PolynomialRVTrend})
    st.load("data_helpers")
    st.load("data")
    npoly, n, nt = shape["poly"], shape["n"], shape["nt"]
    kms = units.km / units.s
    dunit = units.m / units.s if shape["dunit"] == "m/s" else kms

    def harness():
        JS = st.samples.JokerSamples
        tref = units.Time(core.real("t_ref"))
        s = JS(poly_trend=npoly, n_offsets=0, t_ref=tref)
        cols = ["P", "e", "omega", "M0", "K"] + ["v%d" % k for k in range(npoly)] + (["s"] if shape["jitter_col"] else [])
        un = {"P": units.day, "e": units.one, "omega": units.rad, "M0": units.rad, "K": kms, "s": units.m / units.s}
        for k in range(npoly):
            un["v%d" % k] = kms / units.day ** k
        cells = {}
        for c in cols:
            cells[c] = [core.real("%s_%d" % (c, i)) for i in range(n)]
            s[c] = units.Quantity(symnp.SymArray(symnp._obj(cells[c]), symnp._F8), un[c])
        for i in range(n):
            core.assume(cells["P"][i] > 0)
            core.assume(cells["e"][i] >= 0)
            core.assume(cells["e"][i] < 1)
        t = [core.real("t_%d" % j) for j in range(nt)]
        for j in range(nt - 1):
            core.assume(t[j] < t[j + 1])
        y = [core.real("y_%d" % j) for j in range(nt)]
        err = [core.real("err_%d" % j) for j in range(nt)]
        for e_ in err:
            core.assume(e_ > 0)
        data = st.data.RVData(symnp.SymArray(symnp._obj(t), symnp._F8), units.Quantity(symnp.SymArray(symnp._obj(y), symnp._F8), dunit),
                              units.Quantity(symnp.SymArray(symnp._obj(err), symnp._F8), dunit), t_ref=tref)
        orbits = [s.get_orbit(i) for i in range(n)]
        rvs = [o.radial_velocity(data.t) for o in orbits]
        lls = s.ln_unmarginalized_likelihood(data)
        # the kernel's trend columns for the same data (C01-V3 relates them to the kernel state)
        tm = st.likelihood_helpers.get_trend_design_matrix(data, None, npoly)
        return s, cells, un, tref, t, y, err, data, orbits, rvs, lls, tm

    ex = core.Explorer(max_paths=50, solver_timeout_ms=60000)
    twin = False
    for path in ex.paths(harness):
        core.Ctx.cur = path.ctx
        try:
            r, _, _ = path.check_isolated(core.SB(z3.BoolVal(False)))
            twin = twin or r == "sat"
            if path.raised is not None:
                sink.check(path, "no_exception", core.SB(z3.BoolVal(False)), site="samples", describe=lambda m: {"raised": repr(path.raised)[:300]})
                continue
            s, cells, un, tref, t, y, err, data, orbits, rvs, lls, tm = path.result

            def desc(m):
                return {"cells": {c: [str(core.model_value(m, x)) for x in v] for c, v in cells.items()}, "t": [str(core.model_value(m, x)) for x in t],
                        "y": [str(core.model_value(m, x)) for x in y], "err": [str(core.model_value(m, x)) for x in err], "t_ref": str(core.model_value(m, tref._v))}
            fd = kms.to(dunit)
            for i in range(n):
                o = orbits[i]
                el = o.elements
                # X1: elements and amplitude
                sq = core.uf("SQRT", 1 - cells["e"][i] * cells["e"][i])
                ax = [L(sq) * L(sq) == L(1 - cells["e"][i] * cells["e"][i]), L(sq) > 0]
                same_tref = el.t0 is tref
                cl = [z3.BoolVal(bool(same_tref)), L(el._P.to_value(units.day)) == L(cells["P"][i]), L(el._e.to_value(units.one)) == L(cells["e"][i]),
                      L(el._omega.to_value(units.rad)) == L(cells["omega"][i]), L(el._M0.to_value(units.rad)) == L(cells["M0"][i])]
                # a * 2 pi == P * K * sqrt(1 - e^2)   (so that K_eff = K)
                a_val = el._a.to_value(units.day * kms)
                cl.append(L(a_val * (2 * math.pi)) == L(cells["P"][i] * cells["K"][i] * sq))
                sink.check(path, "X1.elements[%d]" % i, core.SB(z3.And(cl)), site="get_orbit.elements", describe=desc, isolated=True, axioms=ax)
                # X2: trend
                vt = o._vtrend
                okv = isinstance(vt, PolynomialRVTrend) and vt.t0 is tref and len(vt.coeffs) == npoly
                cl = [z3.BoolVal(bool(okv))]
                if okv:
                    for k in range(npoly):
                        cl.append(L(vt.coeffs[k].to_value(un["v%d" % k])) == L(cells["v%d" % k][i]))
                sink.check(path, "X2.trend_coefficients[%d]" % i, core.SB(z3.And(cl)), site="get_orbit.trend", describe=desc, isolated=True)
                # the curve the row denotes == the sampler's model:  K*RV + sum_k v_k * (kernel trend column k)
                rvq = rvs[i]
                okq = isinstance(rvq, units.Quantity) and rvq.unit.is_equivalent(kms)
                cl = [z3.BoolVal(bool(okq))]
                if okq:
                    got = rvq.to_value(kms)
                    for j in range(nt):
                        model = cells["K"][i] * core.uf("RV", t[j] - data._t_ref_bmjd, cells["P"][i], cells["e"][i], cells["omega"][i], cells["M0"][i])
                        for k in range(npoly):
                            col = 1 if k == 0 else tm.a[j, k]      # design matrix columns: v0 -> 1, v_k -> column k
                            model = model + cells["v%d" % k][i] * col
                        cl.append(L(got.a[j]) == L(model))
                sink.check(path, "X1X2.same_curve[%d]" % i, core.SB(z3.And(cl)), site="get_orbit.curve", describe=desc, isolated=True, axioms=ax)
                # X4: unmarginalised likelihood of this row
                s2 = (cells["s"][i] * (units.m / units.s).to(dunit)) ** 2 if shape["jitter_col"] else 0
                okl = isinstance(lls, symnp.SymArray) and lls.a.shape == (n,)
                if okl:
                    spec = 0
                    for j in range(nt):
                        var = err[j] * err[j] + s2
                        mrv = rvs[i].to_value(dunit).a[j]
                        spec = spec + (-0.5) * (core.uf("LOG", 2 * math.pi * var) + (mrv - y[j]) * (mrv - y[j]) / var)
                    cl = L(lls.a[i]) == L(spec)
                else:
                    cl = z3.BoolVal(False)
                sink.check(path, "X4.ln_unmarginalized[%d]" % i, core.SB(cl), site="ln_unmarginalized_likelihood", describe=desc, isolated=True)
            add_witness(res, path, desc, site="orbit", limit=1, isolated=True,
                        prefer=[L(cells["P"][i]) >= 3 for i in range(n)] + [L(cells["P"][i]) <= 40 for i in range(n)] + [L(cells["e"][i]) <= Fraction(1, 2) for i in range(n)]
                        + [z3.And(L(c) >= -5, L(c) <= 5) for nm in cells if nm not in ("P", "e") for c in cells[nm]] + [z3.And(L(x) >= 0, L(x) <= 30) for x in t]
                        + [z3.And(L(x) >= Fraction(1, 2), L(x) <= 2) for x in err] + [z3.And(L(x) >= -9, L(x) <= 9) for x in y] + [L(tref._v) >= -5, L(tref._v) <= 5])
        finally:
            core.Ctx.cur = None
    res["twin_ok"] = twin
    fill_explorer(res, ex)
    return res


# ---------------------------------------------------------------------------------------------

def replay(cand):
    """real twobody orbits: the curve of the reconstructed orbit vs the sampler's own model (kernel convention) and
    ln_unmarginalized_likelihood vs the explicit Normal sum"""
    import numpy as np
    import astropy.units as u
    from astropy.time import Time
    from twobody.wrap import cy_rv_from_elements
    from thejoker.samples import JokerSamples
    from thejoker.data import RVData
    from thejoker.likelihood_helpers import get_trend_design_matrix
    shape = cand["shape"]
    m = cand.get("model") or {}
    if "cells" not in m:
        return {"reproduced": False, "detail": "no concrete input"}
    f = lambda x: float(Fraction(x))
    npoly, n, nt = shape["poly"], shape["n"], shape["nt"]
    dunit = u.m / u.s if shape["dunit"] == "m/s" else u.km / u.s
    tref = Time(57000.0 + f(m["t_ref"]), format="mjd", scale="utc")      # a non-TCB reference epoch
    c = {k: np.array([f(x) for x in v]) for k, v in m["cells"].items()}
    c["P"] = np.abs(c["P"]) + (c["P"] == 0) * 5.0
    c["e"] = np.clip(np.abs(c["e"]), 0, 0.9)
    s = JokerSamples(poly_trend=npoly, n_offsets=0, t_ref=tref)
    un = {"P": u.day, "e": u.one, "omega": u.rad, "M0": u.rad, "K": u.km / u.s, "s": u.m / u.s}
    for k in range(npoly):
        un["v%d" % k] = u.km / u.s / u.day ** k
    for k, v in c.items():
        s[k] = v * un[k]
    t = 57000.0 + np.sort(np.array([f(x) for x in m["t"]]))
    y = np.array([f(x) for x in m["y"]])
    err = np.array([abs(f(x)) or 1.0 for x in m["err"]])
    data = RVData(Time(t, format="mjd", scale="tcb"), y * dunit, err * dunit, t_ref=tref)
    bad = []
    try:
        tm = get_trend_design_matrix(data, None, npoly)
        lls = s.ln_unmarginalized_likelihood(data)
        for i in range(n):
            orbit = s.get_orbit(i)
            got = orbit.radial_velocity(data.t).to_value(u.km / u.s)
            kern = c["K"][i] * np.asarray(cy_rv_from_elements(np.ascontiguousarray(t), c["P"][i], 1.0, c["e"][i], c["omega"][i], c["M0"][i], tref.tcb.mjd, 1e-12, 256))
            for k in range(npoly):
                kern = kern + c["v%d" % k][i] * tm[:, k]
            if not np.allclose(got, kern, rtol=1e-7, atol=1e-7):
                bad.append("row %d: reconstructed orbit gives %s km/s, the sampler's model %s km/s" % (i, got.tolist(), kern.tolist()))
            s2 = (c["s"][i] * u.m / u.s).to_value(dunit) ** 2 if "s" in c else 0.0
            mrv = (kern * u.km / u.s).to_value(dunit)
            var = err ** 2 + s2
            want = np.sum(-0.5 * (np.log(2 * np.pi * var) + (mrv - y) ** 2 / var))
            if not np.isclose(lls[i], want, rtol=1e-7, atol=1e-7):
                bad.append("row %d: ln_unmarginalized_likelihood=%r, Normal sum with variance sigma^2+s^2 = %r" % (i, lls[i], want))
    except Exception as e:
        return {"reproduced": True, "detail": "%s: %s" % (type(e).__name__, str(e)[:200])}
    return {"reproduced": bool(bad), "detail": "; ".join(bad[:3])[:900] or "real build agrees"}
