"""C04 -- a sample row denotes one RV curve everywhere (the Bayes identity holds).

Encoded (current tree): samples.JokerSamples.get_orbit, .orbits, ln_unmarginalized_likelihood,
likelihood_helpers.ln_normal (real Python under shims).  twobody's KeplerOrbit / PolynomialRVTrend are
shimmed by their documented formulas: rv(t) = K_eff * RV(t - t0; P, e, omega, M0) + sum_k c_k (t - t0)^k
with K_eff = 2 pi a sin(i) / (P sqrt(1 - e^2)) -- the same uninterpreted RV symbol as the kernel's
c_rv_from_elements contract (C01).  VCs: X1 the orbit's (P, e, omega, M0, t0) are the row's and the
samples' t_ref, and its effective amplitude is the row's K; X2 trend coefficient v_k multiplies
(t - t_ref)^k, exactly the kernel's design-matrix column k; X4 the per-epoch variance in
ln_unmarginalized_likelihood is sigma_n^2 + s^2 in the data unit and the summand is the Normal log
density.  X3 (posterior samples inherit data.t_ref) is C03-W6.  With C01, C03 and Gaussian conjugacy
(trusted) this is the stated identity.
"""
import math
import types
from fractions import Fraction

from symx import core, stack, symnp, units
from symx.core import z3
from symx.framework import new_result, VCSink, fill_explorer, add_witness

PROPERTY = "C04"
LEVEL = "model_checking"
FUNCTIONS = [("thejoker/samples.py", "JokerSamples.get_orbit"), ("thejoker/samples.py", "JokerSamples.orbits"),
             ("thejoker/samples.py", "JokerSamples.ln_unmarginalized_likelihood"), ("thejoker/likelihood_helpers.py", "ln_normal"),
             ("thejoker/likelihood_helpers.py", "get_trend_design_matrix")]
ASSUMPTIONS = [
    "twobody.KeplerOrbit.radial_velocity(t) = K_eff*RV(t-t0;P,e,omega,M0) + PolynomialRVTrend(c, t0)(t), K_eff = 2 pi a sin i/(P sqrt(1-e^2)), RV uninterpreted (shared with the kernel contract of C01); twobody internals are outside",
    "Gaussian conjugacy: marginal = likelihood * prior / conditional posterior (trusted lemma) links X1-X4, C01 and C03 to the stated identity",
    "n_offsets > 0: the public ln_unmarginalized_likelihood takes ONE RVData and get_orbit has no offset argument, so the identity is claimed there only up to X1-X3",
    "bounds: <= 2 epochs, <= 2 sample rows, poly_trend <= 3; SQRT/LOG uninterpreted with sqrt(x)^2 = x",
]
L = core.lift


def bounds(tier):
    return {"n_epochs": [1, 2], "rows": [1, 2], "poly_trend": [1, 3]}


def shapes(tier):
    out = []
    for npoly in (1, 2, 3):
        for n in (1, 2):
            for nt in (1, 2):
                out.append({"poly": npoly, "n": n, "nt": nt, "jitter_col": (npoly + n) % 2 == 0, "dunit": "m/s" if nt == 2 else "km/s"})
    # call history on ONE samples object: orbits / likelihood first, then wrap_K() (in-place edit of K and omega), then again
    out.append({"poly": 1, "n": 1, "nt": 1, "jitter_col": False, "dunit": "km/s", "history": "wrap_K"})
    out.append({"poly": 2, "n": 2, "nt": 1, "jitter_col": True, "dunit": "km/s", "history": "wrap_K"})
    # ... or a column re-assigned through __setitem__ in between
    out.append({"poly": 2, "n": 1, "nt": 2, "jitter_col": False, "dunit": "m/s", "history": "setitem"})
    # the reference epoch the kernel uses (data._t_ref_bmjd) is the one the samples inherit (data.t_ref)
    for inp, sizes in (("single", [2]), ("list", [1, 1]), ("list", [2, 1]), ("dict", [1, 2])):
        for mode in ("default", "common", "distinct", "false"):
            if inp == "single" and mode == "distinct":
                continue
            out.append({"family": "tref", "input": inp, "sizes": sizes, "tref": mode, "poly": 2})
    return out


class Elements:
    pass


class KeplerOrbit:
    """documented behaviour of twobody.KeplerOrbit as far as thejoker uses it"""
    def __init__(self, P=None, e=None, omega=None, Omega=None, i=None, a=None, t0=None, **kw):
        self.elements = Elements()
        self.elements._P, self.elements._e, self.elements._omega, self.elements._Omega = P, e, omega, Omega
        self.elements._i, self.elements._a, self.elements.t0 = i, a, t0
        self.elements._M0 = kw.get("M0", 0 * units.rad)
        self._vtrend = None
        self._barycenter = None

    def __copy__(self):
        o = KeplerOrbit()
        o.elements = Elements()
        o.elements.__dict__.update(self.elements.__dict__)
        o._vtrend, o._barycenter = self._vtrend, self._barycenter
        return o

    def unscaled_radial_velocity(self, time, anomaly_tol=None, anomaly_maxiter=None):
        """the unit-amplitude Keplerian term RV(t - t0; P, e, omega, M0) (dimensionless), as twobody documents it"""
        el = self.elements
        ev = el._e.to_value(units.one) if isinstance(el._e, units.Quantity) else el._e
        tt = time.tcb._v if isinstance(time, units.Time) else time
        t0 = el.t0.tcb._v
        tl = list(tt.a) if isinstance(tt, symnp.SymArray) else [tt]
        cells = [core.uf("RV", t - t0, el._P.to_value(units.day), ev, el._omega.to_value(units.rad), el._M0.to_value(units.rad)) for t in tl]
        return symnp.SymArray(symnp._obj(cells), symnp._F8)

    def radial_velocity(self, time):
        el = self.elements
        P, e, a = el._P, el._e, el._a
        ev = e.to_value(units.one) if isinstance(e, units.Quantity) else e
        # K_eff = 2 pi a sin(i) / (P sqrt(1 - e^2)), i = 90 deg for thejoker's orbits
        sini = 1
        K = (a * (2 * math.pi) * sini) / (P * symnp.sqrt(1 - ev * ev))
        tt = time.tcb._v if isinstance(time, units.Time) else time
        t0 = el.t0.tcb._v
        om = el._omega.to_value(units.rad)
        M0 = el._M0.to_value(units.rad)
        Pd = P.to_value(units.day)
        cells = []
        tl = list(tt.a) if isinstance(tt, symnp.SymArray) else [tt]
        for t in tl:
            cells.append(core.uf("RV", t - t0, Pd, ev, om, M0))
        kep = K * symnp.SymArray(symnp._obj(cells), symnp._F8)
        if self._vtrend is not None:
            kep = kep + self._vtrend(time)
        return kep


class PolynomialRVTrend:
    def __init__(self, coeffs=None, t0=None):
        self.coeffs = list(coeffs or [])
        self.t0 = t0

    def __call__(self, time):
        tt = time.tcb._v
        tl = list(tt.a) if isinstance(tt, symnp.SymArray) else [tt]
        t0 = self.t0.tcb._v if self.t0 is not None else 0
        out = None
        for k, c in enumerate(self.coeffs):
            dt = units.Quantity(symnp.SymArray(symnp._obj([(t - t0) for t in tl]), symnp._F8), units.day)
            term = c * dt ** k if k else c * symnp.SymArray(symnp._obj([1.0] * len(tl)), symnp._F8)
            out = term if out is None else out + term
        return out


def _run_tref(shape, res, sink):
    """validate_prepare_data for one / several sources with default, common explicit, distinct explicit or disabled
    reference epochs: the Time the posterior samples inherit (all_data.t_ref) and the float the kernel and the trend
    columns use (all_data._t_ref_bmjd) are the same epoch -- also after copy() and slicing of the data."""
    st = stack.Stack(load=("prior_helpers", "likelihood_helpers"))
    st.load("data_helpers")
    st.load("data")
    RVData = st.data.RVData
    sizes = shape["sizes"]
    K = len(sizes)

    def harness():
        common = units.Time(core.real("tref_common"))
        srcs, cells, trefs = [], [], []
        for k, n in enumerate(sizes):
            t = [core.real("t_%d_%d" % (k, j)) for j in range(n)]
            rv = [core.real("rv_%d_%d" % (k, j)) for j in range(n)]
            err = [core.real("err_%d_%d" % (k, j)) for j in range(n)]
            for e in err:
                core.assume(e > 0)
            for j in range(n - 1):
                core.assume(t[j] < t[j + 1])
            if k:
                core.assume(cells[-1][0][-1] < t[0])      # surveys do not interleave (interleaving is C08's subject)
            tr = {"default": None, "common": common, "distinct": units.Time(core.real("tref_%d" % k)), "false": False}[shape["tref"]]
            trefs.append(tr)
            srcs.append(RVData(symnp.SymArray(symnp._obj(t), symnp._F8), units.Quantity(symnp.SymArray(symnp._obj(rv), symnp._F8), units.km / units.s),
                               units.Quantity(symnp.SymArray(symnp._obj(err), symnp._F8), units.km / units.s), t_ref=tr))
            cells.append((t, rv, err))
        if shape["input"] == "single":
            data = srcs[0]
        elif shape["input"] == "list":
            data = list(srcs)
        else:
            data = {k_: d for k_, d in zip(["b_survey", "a_survey", "c_survey"], srcs)}
        all_data, ids, trend_M = st.data_helpers.validate_prepare_data(data, shape["poly"], K - 1)
        return cells, trefs, all_data, trend_M, all_data.copy(), all_data[:1]

    ex = core.Explorer(max_paths=400)
    twin = False
    for path in ex.paths(harness):
        core.Ctx.cur = path.ctx
        try:
            r, _, _ = path.check(core.SB(z3.BoolVal(False)))
            twin = twin or r == "sat"
            if path.raised is not None:
                sink.check(path, "tref.no_exception", core.SB(z3.BoolVal(False)), site="validate_prepare_data", describe=lambda m: {"raised": repr(path.raised)[:300]})
                continue
            cells, trefs, all_data, trend_M, dcopy, dslice = path.result

            def desc(m):
                mv = lambda x: str(core.model_value(m, x))
                return {"t": [[mv(x) for x in c[0]] for c in cells], "tref": [None if tr in (None, False) else mv(tr.tcb._v) for tr in trefs]}

            def consistent(d):
                if d.t_ref is None:
                    return L(d._t_ref_bmjd == 0) if core.is_sym(d._t_ref_bmjd) else z3.BoolVal(d._t_ref_bmjd == 0)
                return L(d.t_ref.tcb._v) == L(d._t_ref_bmjd)
            sink.check(path, "tref.samples_epoch_is_kernel_epoch", core.SB(consistent(all_data)), site="validate_prepare_data.t_ref", describe=desc)
            # ... and it is the epoch the user asked for: a single source keeps its own (explicit, disabled or default = earliest
            # time); merged sources are referred to the earliest time of the merged set
            t_min = cells[0][0][0]
            if shape["input"] == "single" and shape["tref"] in ("common", "distinct"):
                want = trefs[0].tcb._v
            elif shape["input"] == "single" and shape["tref"] == "false":
                want = 0
            else:
                want = t_min
            got = all_data._t_ref_bmjd
            sink.check(path, "tref.prescribed_epoch", core.SB(L(got) == L(want) if (core.is_sym(got) or core.is_sym(want)) else z3.BoolVal(got == want)),
                       site="validate_prepare_data.t_ref", describe=desc)
            sink.check(path, "tref.copy", core.SB(z3.And(consistent(dcopy), L(dcopy._t_ref_bmjd) == L(all_data._t_ref_bmjd))), site="RVData.copy", describe=desc)
            # (a slice is a new data set: whether it keeps the parent's epoch is not part of the property; its two epochs must agree)
            sink.check(path, "tref.slice", core.SB(consistent(dslice)), site="RVData.__getitem__", describe=desc)
            # trend column 1 is (t - that epoch)
            M = trend_M.a
            tt = all_data._t_bmjd.a
            ncol0 = 1 + (K - 1)
            cl = [L(M[r_, ncol0]) == L(tt[r_] - all_data._t_ref_bmjd) for r_ in range(len(tt))]
            sink.check(path, "tref.trend_column", core.SB(z3.And(cl)), site="get_trend_design_matrix", describe=desc)
            add_witness(res, path, desc, site="tref", limit=1)
        finally:
            core.Ctx.cur = None
    res["twin_ok"] = twin
    fill_explorer(res, ex)
    return res


def run_shape(shape, tier):
    res = new_result(shape)
    sink = VCSink(res, PROPERTY)
    if shape.get("family") == "tref":
        return _run_tref(shape, res, sink)
    st = stack.Stack(load=("prior_helpers", "likelihood_helpers", "samples"), twobody={"KeplerOrbit": KeplerOrbit, "PolynomialRVTrend": PolynomialRVTrend})
    st.load("data_helpers")
    st.load("data")
    npoly, n, nt = shape["poly"], shape["n"], shape["nt"]
    kms = units.km / units.s
    dunit = units.m / units.s if shape["dunit"] == "m/s" else kms

    def harness():
        JS = st.samples.JokerSamples
        tref = units.Time(core.real("t_ref"))
        s = JS(poly_trend=npoly, n_offsets=0, t_ref=tref)
        cols = ["P", "e", "omega", "M0", "K"] + ["v%d" % k for k in range(npoly)] + (["s"] if shape["jitter_col"] else [])
        un = {"P": units.day, "e": units.one, "omega": units.rad, "M0": units.rad, "K": kms, "s": units.m / units.s}
        for k in range(npoly):
            un["v%d" % k] = kms / units.day ** k
        cells = {}
        for c in cols:
            cells[c] = [core.real("%s_%d" % (c, i)) for i in range(n)]
            s[c] = units.Quantity(symnp.SymArray(symnp._obj(cells[c]), symnp._F8), un[c])
        for i in range(n):
            core.assume(cells["P"][i] > 0)
            core.assume(cells["e"][i] >= 0)
            core.assume(cells["e"][i] < 1)
        t = [core.real("t_%d" % j) for j in range(nt)]
        for j in range(nt - 1):
            core.assume(t[j] < t[j + 1])
        y = [core.real("y_%d" % j) for j in range(nt)]
        err = [core.real("err_%d" % j) for j in range(nt)]
        for e_ in err:
            core.assume(e_ > 0)
        data = st.data.RVData(symnp.SymArray(symnp._obj(t), symnp._F8), units.Quantity(symnp.SymArray(symnp._obj(y), symnp._F8), dunit),
                              units.Quantity(symnp.SymArray(symnp._obj(err), symnp._F8), dunit), t_ref=tref)
        hist = shape.get("history")
        cells0 = dict(cells)
        if hist:
            for i in range(n):
                s.get_orbit(i).radial_velocity(data.t)
            s.ln_unmarginalized_likelihood(data)
            if hist == "wrap_K":
                s.wrap_K()
            else:
                for c in ("K", "P", "e"):
                    cells[c] = [core.real("%s2_%d" % (c, i)) for i in range(n)]
                    cells0[c + "2"] = cells[c]
                    s[c] = units.Quantity(symnp.SymArray(symnp._obj(cells[c]), symnp._F8), un[c])
                for i in range(n):
                    core.assume(cells["P"][i] > 0)
                    core.assume(cells["e"][i] >= 0)
                    core.assume(cells["e"][i] < 1)
            # the rows as they are stored NOW are what must denote the curve
            cells = {c: [s[c].to_value(un[c]).a[i] for i in range(n)] for c in cols}
        orbits = [s.get_orbit(i) for i in range(n)]
        rvs = [o.radial_velocity(data.t) for o in orbits]
        lls = s.ln_unmarginalized_likelihood(data)
        # the kernel's trend columns for the same data (C01-V3 relates them to the kernel state)
        tm = st.likelihood_helpers.get_trend_design_matrix(data, None, npoly)
        return s, cells, un, tref, t, y, err, data, orbits, rvs, lls, tm, cells0

    ex = core.Explorer(max_paths=50, solver_timeout_ms=60000)
    twin = False
    for path in ex.paths(harness):
        core.Ctx.cur = path.ctx
        try:
            r, _, _ = path.check_isolated(core.SB(z3.BoolVal(False)))
            twin = twin or r == "sat"
            if path.raised is not None:
                sink.check(path, "no_exception", core.SB(z3.BoolVal(False)), site="samples", describe=lambda m: {"raised": repr(path.raised)[:300]})
                continue
            s, cells, un, tref, t, y, err, data, orbits, rvs, lls, tm, cells0 = path.result

            def desc(m):
                return {"cells": {c: [str(core.model_value(m, x)) for x in v] for c, v in cells0.items()}, "t": [str(core.model_value(m, x)) for x in t],
                        "y": [str(core.model_value(m, x)) for x in y], "err": [str(core.model_value(m, x)) for x in err], "t_ref": str(core.model_value(m, tref._v))}
            fd = kms.to(dunit)
            for i in range(n):
                o = orbits[i]
                el = o.elements
                # X1: elements and amplitude
                sq = core.uf("SQRT", 1 - cells["e"][i] * cells["e"][i])
                ax = [L(sq) * L(sq) == L(1 - cells["e"][i] * cells["e"][i]), L(sq) > 0]
                same_tref = el.t0 is tref
                cl = [z3.BoolVal(bool(same_tref)), L(el._P.to_value(units.day)) == L(cells["P"][i]), L(el._e.to_value(units.one)) == L(cells["e"][i]),
                      L(el._omega.to_value(units.rad)) == L(cells["omega"][i]), L(el._M0.to_value(units.rad)) == L(cells["M0"][i])]
                # a * 2 pi == P * K * sqrt(1 - e^2)   (so that K_eff = K)
                a_val = el._a.to_value(units.day * kms)
                cl.append(L(a_val * (2 * math.pi)) == L(cells["P"][i] * cells["K"][i] * sq))
                sink.check(path, "X1.elements[%d]" % i, core.SB(z3.And(cl)), site="get_orbit.elements", describe=desc, isolated=True, axioms=ax)
                # X2: trend
                vt = o._vtrend
                okv = isinstance(vt, PolynomialRVTrend) and vt.t0 is tref and len(vt.coeffs) == npoly
                cl = [z3.BoolVal(bool(okv))]
                if okv:
                    for k in range(npoly):
                        cl.append(L(vt.coeffs[k].to_value(un["v%d" % k])) == L(cells["v%d" % k][i]))
                sink.check(path, "X2.trend_coefficients[%d]" % i, core.SB(z3.And(cl)), site="get_orbit.trend", describe=desc, isolated=True)
                # the curve the row denotes == the sampler's model:  K*RV + sum_k v_k * (kernel trend column k)
                rvq = rvs[i]
                okq = isinstance(rvq, units.Quantity) and rvq.unit.is_equivalent(kms)
                cl = [z3.BoolVal(bool(okq))]
                if okq:
                    got = rvq.to_value(kms)
                    for j in range(nt):
                        model = cells["K"][i] * core.uf("RV", t[j] - data._t_ref_bmjd, cells["P"][i], cells["e"][i], cells["omega"][i], cells["M0"][i])
                        for k in range(npoly):
                            col = 1 if k == 0 else tm.a[j, k]      # design matrix columns: v0 -> 1, v_k -> column k
                            model = model + cells["v%d" % k][i] * col
                        cl.append(L(got.a[j]) == L(model))
                sink.check(path, "X1X2.same_curve[%d]" % i, core.SB(z3.And(cl)), site="get_orbit.curve", describe=desc, isolated=True, axioms=ax)
                # X4: unmarginalised likelihood of this row
                s2 = (cells["s"][i] * (units.m / units.s).to(dunit)) ** 2 if shape["jitter_col"] else 0
                okl = isinstance(lls, symnp.SymArray) and lls.a.shape == (n,)
                if okl:
                    spec = 0
                    for j in range(nt):
                        var = err[j] * err[j] + s2
                        mrv = rvs[i].to_value(dunit).a[j]
                        spec = spec + (-0.5) * (core.uf("LOG", 2 * math.pi * var) + (mrv - y[j]) * (mrv - y[j]) / var)
                    cl = L(lls.a[i]) == L(spec)
                else:
                    cl = z3.BoolVal(False)
                sink.check(path, "X4.ln_unmarginalized[%d]" % i, core.SB(cl), site="ln_unmarginalized_likelihood", describe=desc, isolated=True)
            add_witness(res, path, desc, site="orbit", limit=1, isolated=True,
                        prefer=[L(cells["P"][i]) >= 3 for i in range(n)] + [L(cells["P"][i]) <= 40 for i in range(n)] + [L(cells["e"][i]) <= Fraction(1, 2) for i in range(n)]
                        + [z3.And(L(c) >= -5, L(c) <= 5) for nm in cells if nm not in ("P", "e") for c in cells[nm]] + [z3.And(L(x) >= 0, L(x) <= 30) for x in t]
                        + [z3.And(L(x) >= Fraction(1, 2), L(x) <= 2) for x in err] + [z3.And(L(x) >= -9, L(x) <= 9) for x in y] + [L(tref._v) >= -5, L(tref._v) <= 5])
        finally:
            core.Ctx.cur = None
    res["twin_ok"] = twin
    fill_explorer(res, ex)
    return res


# ---------------------------------------------------------------------------------------------

def replay(cand):
    """real twobody orbits: the curve of the reconstructed orbit vs the sampler's own model (kernel convention) and
    ln_unmarginalized_likelihood vs the explicit Normal sum"""
    import numpy as np
    import astropy.units as u
    from astropy.time import Time
    from twobody.wrap import cy_rv_from_elements
    from thejoker.samples import JokerSamples
    from thejoker.data import RVData
    from thejoker.likelihood_helpers import get_trend_design_matrix
    shape = cand["shape"]
    m = cand.get("model") or {}
    if shape.get("family") == "tref":
        return _replay_tref(shape, m)
    if "cells" not in m:
        return {"reproduced": False, "detail": "no concrete input"}
    f = lambda x: float(Fraction(x))
    npoly, n, nt = shape["poly"], shape["n"], shape["nt"]
    dunit = u.m / u.s if shape["dunit"] == "m/s" else u.km / u.s
    tref = Time(57000.0 + f(m["t_ref"]), format="mjd", scale="utc")      # a non-TCB reference epoch
    c = {k: np.array([f(x) for x in v]) for k, v in m["cells"].items()}
    c["P"] = np.abs(c["P"]) + (c["P"] == 0) * 5.0
    c["e"] = np.clip(np.abs(c["e"]), 0, 0.9)
    s = JokerSamples(poly_trend=npoly, n_offsets=0, t_ref=tref)
    un = {"P": u.day, "e": u.one, "omega": u.rad, "M0": u.rad, "K": u.km / u.s, "s": u.m / u.s}
    for k in range(npoly):
        un["v%d" % k] = u.km / u.s / u.day ** k
    c2 = {k[:-1]: c.pop(k) for k in ("K2", "P2", "e2") if k in c}
    for k, v in c.items():
        s[k] = v * un[k]
    t = 57000.0 + np.sort(np.array([f(x) for x in m["t"]]))
    y = np.array([f(x) for x in m["y"]])
    err = np.array([abs(f(x)) or 1.0 for x in m["err"]])
    data = RVData(Time(t, format="mjd", scale="tcb"), y * dunit, err * dunit, t_ref=tref)
    bad = []
    try:
        if shape.get("history"):
            # the shape's call history on the one samples object
            for i in range(n):
                s.get_orbit(i).radial_velocity(data.t)
            s.ln_unmarginalized_likelihood(data)
            if shape["history"] == "wrap_K":
                s.wrap_K()
            else:
                for k, v in c2.items():
                    if k == "P":
                        v = np.abs(v) + (v == 0) * 5.0
                    if k == "e":
                        v = np.clip(np.abs(v), 0, 0.9)
                    s[k] = v * un[k]
            c = {k: np.asarray(s[k].to_value(un[k]), dtype=float) for k in c}     # the rows as stored now
        tm = get_trend_design_matrix(data, None, npoly)
        lls = s.ln_unmarginalized_likelihood(data)
        for i in range(n):
            orbit = s.get_orbit(i)
            got = orbit.radial_velocity(data.t).to_value(u.km / u.s)
            kern = c["K"][i] * np.asarray(cy_rv_from_elements(np.ascontiguousarray(t), c["P"][i], 1.0, c["e"][i], c["omega"][i], c["M0"][i], tref.tcb.mjd, 1e-12, 256))
            for k in range(npoly):
                kern = kern + c["v%d" % k][i] * tm[:, k]
            if not np.allclose(got, kern, rtol=1e-7, atol=1e-7):
                bad.append("row %d: reconstructed orbit gives %s km/s, the sampler's model %s km/s" % (i, got.tolist(), kern.tolist()))
            s2 = (c["s"][i] * u.m / u.s).to_value(dunit) ** 2 if "s" in c else 0.0
            mrv = (kern * u.km / u.s).to_value(dunit)
            var = err ** 2 + s2
            want = np.sum(-0.5 * (np.log(2 * np.pi * var) + (mrv - y) ** 2 / var))
            if not np.isclose(lls[i], want, rtol=1e-7, atol=1e-7):
                bad.append("row %d: ln_unmarginalized_likelihood=%r, Normal sum with variance sigma^2+s^2 = %r" % (i, lls[i], want))
    except Exception as e:
        return {"reproduced": True, "detail": "%s: %s" % (type(e).__name__, str(e)[:200])}
    return {"reproduced": bool(bad), "detail": "; ".join(bad[:3])[:900] or "real build agrees"}


def _replay_tref(shape, m):
    """real validate_prepare_data / RVData: the epoch the samples inherit vs the epoch the kernel and the trend columns use,
    and the curve of a hand-built row reconstructed at samples.t_ref vs the kernel convention"""
    import numpy as np
    import astropy.units as u
    from astropy.time import Time
    from twobody.wrap import cy_rv_from_elements
    from thejoker.data import RVData
    from thejoker.data_helpers import validate_prepare_data
    from thejoker.samples import JokerSamples
    f = lambda x: float(Fraction(x))
    sizes = shape["sizes"]
    K = len(sizes)
    srcs = []
    base = 57000.0
    for k, n in enumerate(sizes):
        if "t" in m:
            t = base + np.array([f(x) for x in m["t"][k]])
        else:
            t = base + 10.0 * k + np.arange(n) * 1.5 + 2.0
        tm_ = (m.get("tref") or [None] * K)[k]
        tr = {"default": None, "false": False}.get(shape["tref"], "explicit")
        if tr == "explicit":
            tr = Time(base + (f(tm_) if tm_ is not None else -7.25), format="mjd", scale="tcb")
            if shape["tref"] == "common" and srcs:
                tr = srcs[0].t_ref
        srcs.append(RVData(Time(t, format="mjd", scale="tcb"), (np.arange(n) + 1.0 + k) * u.km / u.s, np.full(n, 0.5) * u.km / u.s, t_ref=tr))
    data = srcs[0] if shape["input"] == "single" else (list(srcs) if shape["input"] == "list" else dict(zip(["b_survey", "a_survey", "c_survey"], srcs)))
    bad = []
    try:
        all_data, ids, trend_M = validate_prepare_data(data, shape["poly"], K - 1)
        for tag, d in (("validate_prepare_data", all_data), ("copy", all_data.copy()), ("slice", all_data[:1])):
            if d.t_ref is None:
                if d._t_ref_bmjd != 0:
                    bad.append("%s: t_ref is None but _t_ref_bmjd=%r" % (tag, d._t_ref_bmjd))
            elif abs(d.t_ref.tcb.mjd - d._t_ref_bmjd) > 1e-9:
                bad.append("%s: samples would inherit t_ref=MJD %.4f while the kernel/trend use MJD %.4f" % (tag, d.t_ref.tcb.mjd, d._t_ref_bmjd))
        if shape["input"] == "single":
            want = 0.0 if shape["tref"] == "false" else (srcs[0]._t_bmjd.min() if shape["tref"] == "default" else srcs[0].t_ref.tcb.mjd)
        else:
            want = min(d._t_bmjd.min() for d in srcs)
        if abs(all_data._t_ref_bmjd - want) > 1e-9:
            bad.append("prepared data refer to MJD %.4f, the prescribed reference epoch is MJD %.4f" % (all_data._t_ref_bmjd, want))
        if all_data.t_ref is not None:
            s = JokerSamples(poly_trend=shape["poly"], n_offsets=0, t_ref=all_data.t_ref)
            row = {"P": 7.3 * u.day, "e": 0.3 * u.one, "omega": 0.7 * u.rad, "M0": 1.1 * u.rad, "K": 4.0 * u.km / u.s, "v0": 1.0 * u.km / u.s, "v1": 0.25 * u.km / u.s / u.day}
            for k_, v in row.items():
                s[k_] = np.atleast_1d(v.value) * v.unit
            got = s.get_orbit(0).radial_velocity(all_data.t).to_value(u.km / u.s)
            tt = np.ascontiguousarray(all_data._t_bmjd)
            kern = 4.0 * np.asarray(cy_rv_from_elements(tt, 7.3, 1.0, 0.3, 0.7, 1.1, all_data._t_ref_bmjd, 1e-12, 256)) + 1.0 + 0.25 * trend_M[:, K]
            if not np.allclose(got, kern, rtol=1e-7, atol=1e-7):
                bad.append("row reconstructed at samples.t_ref gives %s km/s, the sampler's model (kernel epoch, trend column) %s km/s" % (got.tolist(), kern.tolist()))
    except Exception as e:
        return {"reproduced": True, "detail": "%s: %s" % (type(e).__name__, str(e)[:200])}
    return {"reproduced": bool(bad), "detail": "; ".join(bad[:3])[:900] or "real build agrees"}
