"""C06 -- reported ln_prior / ln_likelihood stay attached to their own sample (rejection_sample
paths; the iterative sampler's columns are asserted by the C14 harness with focus C06).

Same harness as C02 (see checks/c02.py) with return_logprobs / return_all_logprobs switched on and a
symbolic ln_prior column in the library: the k-th returned row must carry LL(row) of exactly that row
and the ln_prior stored at exactly that library row (through the shuffle and the truncation), both as
plain scalar columns (the table stub distinguishes read_coordinates(idx, field=name) -> column from
field=None -> records); the all-logprobs array is LL of every evaluated row in evaluation order.
"""
from checks import c02, c14

PROPERTY = "C06"
LEVEL = "model_checking"
FUNCTIONS = c02.FUNCTIONS + [("thejoker/likelihood_helpers.py", "iterative_rejection_inmem"),
                             ("thejoker/multiproc_helpers.py", "iterative_rejection_helper"),
                             ("thejoker/thejoker.py", "TheJoker.iterative_rejection_sample")]
ASSUMPTIONS = c02.ASSUMPTIONS + [
    "n_linear_samples > 1 together with return_logprobs=True makes astropy refuse the column (length mismatch) before anything is returned: no rows are returned, so the property is silent there; only return_all_logprobs is asserted for those shapes",
]


def bounds(tier):
    b = c02.bounds(tier)
    b["iterative"] = c14.bounds(tier)
    return b


def shapes(tier):
    out = [dict(s, family="rej") for s in c02.shapes(tier) if not (s["mode"] == "file" and s.get("n_prior") is not None and s["n_prior"] > s["N"])]
    out += [dict(s, family="iter") for s in c14.shapes(tier, focus="C06")]
    return out


def run_shape(shape, tier):
    if shape.get("family") == "iter":
        return c14.run_shape(shape, tier, focus="C06")
    return c02.run_shape(shape, tier, focus="C06")


def replay(cand):
    if cand["shape"].get("family") == "iter":
        return c14.replay(cand, focus="C06")
    return c02.replay(cand, focus="C06")
