"""C10 -- seeded runs are reproducible and randomness is confined to the given generator.

Noninterference by symbolic execution of the real entry points (TheJoker.rejection_sample,
iterative_rejection_sample, marginal_ln_likelihood and the helpers under them; JokerPrior.sample's
call of pm.draw) with every source of nondeterminism a separate symbol source: the sampler's
generator (a stream of symbols with a position counter + a seed sequence with a spawn counter),
numpy's global random state, OS entropy (default_rng() without seed, PCG64() without seed), a
prior.sample call that is not handed the generator.  Each entry point is called TWICE on the same
TheJoker.  Claims per path: (a) no draw and no effect outside the sampler's generator; (b) every
stream that feeds the output derives from the generator (root key or a child spawned from it);
(c) every (stream, position) that delivers linear-parameter draws is used once -- across batches of one
call and across the two calls.
"""
import types

from symx import core, env, symnp, units, stack, loader
from symx.core import z3
from symx.framework import new_result, VCSink, fill_explorer
from checks import groupa

PROPERTY = "C10"
LEVEL = "model_checking"
FUNCTIONS = [
    ("thejoker/thejoker.py", "TheJoker.__init__"), ("thejoker/thejoker.py", "TheJoker.rejection_sample"),
    ("thejoker/thejoker.py", "TheJoker.iterative_rejection_sample"), ("thejoker/thejoker.py", "TheJoker.marginal_ln_likelihood"),
    ("thejoker/multiproc_helpers.py", "run_worker"), ("thejoker/multiproc_helpers.py", "rejection_sample_helper"),
    ("thejoker/multiproc_helpers.py", "iterative_rejection_helper"), ("thejoker/multiproc_helpers.py", "make_full_samples"),
    ("thejoker/likelihood_helpers.py", "rejection_sample_inmem"), ("thejoker/likelihood_helpers.py", "iterative_rejection_inmem"),
    ("thejoker/likelihood_helpers.py", "make_full_samples_inmem"), ("thejoker/utils.py", "read_random_batch"),
    ("thejoker/prior.py", "JokerPrior.sample"),
]
ASSUMPTIONS = [
    "generator model: stream of symbols + position counter; SeedSequence.spawn(k) hands out k fresh keys and advances its counter (so later spawns differ); bit-level behaviour of PCG64/SeedSequence is outside the claim",
    "pool.map: every task once, results in task order (workers executed in reverse order in the model); real process scheduling outside the claim",
    "kernel stub draws linear parameters from the generator it is handed (the real kernel's single rng.multivariate_normal call is checked in C03)",
    "JokerPrior.sample is a contract stub inside the sampler harness (draws from the generator it is given); its own forwarding of rng to pm.draw is checked on the real source with pm.draw recorded",
    "bounds: library N <= 3, two consecutive calls, n_batches in {None, 1, 3}, pool size <= 2",
]


def bounds(tier):
    return {"N": [2, 3], "calls_in_sequence": 2, "n_batches": [None, 1, 3], "pool.size": [1, 2],
            "entries": ["rejection(file|object|in_memory|count)", "iterative(file|in_memory)", "marginal_ln_likelihood", "prior.sample", "read_random_batch"]}


def shapes(tier):
    out = []
    for N in ((2, 3) if tier == "quick" else (2, 3, 4, 5)):
        for nb in (None, 1, 3):
            out.append({"entry": "rejection", "N": N, "src": "filename", "in_memory": False, "n_batches": nb, "pool": 1 if nb == 3 else 2, "randomize": nb != 1, "full": nb == 3})
            out.append({"entry": "rejection", "N": N, "src": "object", "in_memory": nb == 1, "n_batches": nb, "pool": 1, "randomize": False})
        out.append({"entry": "rejection", "N": N, "src": "count", "in_memory": False, "n_batches": None, "pool": 1, "randomize": False})
        out.append({"entry": "rejection", "N": N, "src": "count", "in_memory": True, "n_batches": None, "pool": 1, "randomize": False})
        out.append({"entry": "iterative", "N": N, "src": "object", "in_memory": False, "n_batches": 3, "pool": 1, "randomize": True})
        out.append({"entry": "iterative", "N": N, "src": "object", "in_memory": True, "n_batches": None, "pool": 1, "randomize": False})
        out.append({"entry": "marginal", "N": N, "src": "object", "in_memory": False, "n_batches": 3, "pool": 2, "randomize": False})
    out.append({"entry": "prior_sample"})
    out.append({"entry": "read_random_batch"})
    return out


def _harness(S, shape):
    S.reset()
    w = S.w
    N = shape["N"]
    lib, lnp = S.library(N, with_lnp=True)
    rng = env.SymRng(w)
    pool = env.Pool(w, size=shape["pool"], order="reversed")
    TJ = S.st.thejoker.TheJoker
    joker = TJ(S.JokerPrior(S), pool=pool, rng=rng)
    data = types.SimpleNamespace(t_ref=units.Time(core.real("t_ref")))
    outs = []
    for call in range(2):
        if shape["src"] == "filename":
            src = S.as_file(lib, lnp)
        elif shape["src"] == "object":
            src = S.as_samples(lib, lnp)
        else:
            src = N
        if shape["entry"] == "rejection":
            npri = N if shape.get("full") else None
            o = joker.rejection_sample(data, src, n_prior_samples=npri, n_linear_samples=2, n_batches=shape["n_batches"],
                                       randomize_prior_order=shape["randomize"], in_memory=shape["in_memory"])
        elif shape["entry"] == "iterative":
            o = joker.iterative_rejection_sample(data, src, n_requested_samples=1, n_linear_samples=1, n_batches=shape["n_batches"],
                                                 randomize_prior_order=shape["randomize"], init_batch_size=1, in_memory=shape["in_memory"])
        else:
            o = joker.marginal_ln_likelihood(data, src, n_batches=shape["n_batches"], in_memory=shape["in_memory"])
        outs.append(o)
    return {"outs": outs, "rng": rng, "prior_rngs": list(S.prior_sample_rngs)}


def run_shape(shape, tier):
    res = new_result(shape)
    sink = VCSink(res, PROPERTY)
    if shape["entry"] == "prior_sample":
        return _prior_sample_shape(shape, res, sink)
    if shape["entry"] == "read_random_batch":
        return _read_random_shape(shape, res, sink)
    S = groupa.Setup(with_api=True)
    ex = core.Explorer(max_paths=4000, max_seconds=900)
    twin = False
    for path in ex.paths(lambda: _harness(S, shape)):
        core.Ctx.cur = path.ctx
        try:
            r, _, _ = path.check(core.SB(z3.BoolVal(False)))
            twin = twin or r == "sat"
            w = S.w
            desc = lambda m: {"global": list(w.global_random_touched)[:3], "streams": [list(map(str, k)) for k in w.streams][:12]}
            if path.raised is not None:
                # an exception from the code under test is not C10's subject unless it comes from randomness handling
                sink.check(path, "no_exception", core.SB(z3.BoolVal(False)), site=shape["entry"], describe=lambda m: {"raised": repr(path.raised)[:300]})
                continue
            info = path.result
            # (a) confinement
            sink.check(path, "confined", core.SB(z3.BoolVal(not w.global_random_touched)), site=shape["entry"] + ".global_state", describe=desc)
            # (b) every stream used derives from the sampler's generator
            foreign = [k for k in w.streams if k[:1] != ("root",)]
            sink.check(path, "streams_from_generator", core.SB(z3.BoolVal(not foreign)), site=shape["entry"] + ".streams", describe=desc)
            if shape["src"] == "count":
                ok = len(info["prior_rngs"]) == 2 and all(r is info["rng"] for r in info["prior_rngs"])
                sink.check(path, "prior_sample_gets_generator", core.SB(z3.BoolVal(ok)), site="TheJoker.prior_sample_rng", describe=desc)
            # (c) every (stream, position) that delivered linear draws is used once
            uses = [(e[1], e[2]) for e in w.log if e[0] == "mvn"]
            sink.check(path, "draw_streams_distinct", core.SB(z3.BoolVal(len(set(uses)) == len(uses))), site=shape["entry"] + ".child_streams",
                       describe=lambda m: {"mvn_uses": [[list(map(str, k)), p] for k, p in uses][:16]})
            # (d) no position of any stream is consumed twice (a multi-process pool hands workers COPIES of the generators
            #     in their tasks: a worker drawing from a copy of the sampler's own generator leaves the original behind)
            alld = [(e[1], e[2]) for e in w.log if e[0] == "draw"]
            dup = sorted({d for d in alld if alld.count(d) > 1}, key=str)
            sink.check(path, "no_stream_position_reused", core.SB(z3.BoolVal(not dup)), site=shape["entry"] + ".pickled_generators",
                       describe=lambda m: {"reused": [[list(map(str, k)), p] for k, p in dup][:8]})
        finally:
            core.Ctx.cur = None
    res["twin_ok"] = twin
    fill_explorer(res, ex)
    if shape.get("N") == 2:
        # scenario replay of this option combination on the real build (equal-seed twin runs)
        res["witnesses"].append({"vc": "witness", "site": shape["entry"], "shape": shape, "model": {}, "witness": True})
    return res


def _prior_sample_shape(shape, res, sink):
    """real JokerPrior.sample with pymc replaced by a recorder: pm.draw must receive the caller's rng"""
    rec = {}
    pm = types.ModuleType("pymc")

    def draw(vars, draws=1, random_seed=None, **kw):
        if rec.get("fail_next"):
            rec["fail_next"] = False
            raise ValueError("draws must be an integer (injected failure of the draw)")
        rec["draw_seed"] = random_seed
        rec["draws"] = draws
        rec.setdefault("orders", []).append([v.name for v in vars])
        rec.setdefault("seeds", []).append(random_seed)
        if int(draws) > 1000:
            # a very large request: the values do not matter for the claims made (which generator, how many draw calls)
            return [symnp.zeros((int(draws),)) for _ in vars]
        return [symnp.SymArray(symnp._obj([core.fresh("real", "d") for _ in range(int(draws))]), symnp._F8) for _ in vars]
    pm.draw = draw

    class _LP:
        def __init__(self, n): self.n = n
        def eval(self): return symnp.zeros((self.n,))
    pm.logp = lambda par, val: _LP(len(val))
    pm.Model = type("Model", (), {})
    pm.modelcontext = lambda m: m
    pt = types.ModuleType("pytensor.tensor")
    pt.TensorVariable = type("TensorVariable", (), {})
    w = env.World()
    st = stack.Stack(world=w, load=("prior_helpers", "likelihood_helpers", "utils", "samples"),
                     extra_shims={"pymc": pm, "pytensor.tensor": pt, "thejoker.units": types.SimpleNamespace(UNIT_ATTR_NAME="__tensor_unit__")})
    st.shims["pytensor"] = types.SimpleNamespace(__version__="3.3.2", tensor=pt)
    # sets iterate in an order that depends on the interpreter's hash seed: every order is explored (symx.loader.AdvSet)
    st.load("prior", transform=loader.adversarial_sets, extra={"set": loader.AdvSet})
    JP = st.prior.JokerPrior

    def harness():
        w.reset()
        rec["orders"] = []
        rec["seeds"] = []
        p = object.__new__(JP)
        names = ["P", "e", "omega", "M0", "s", "K", "v0", "v1", "dv0_1"]
        kms = units.km / units.s
        p.pars = {}
        for nm, un in zip(names, [units.day, units.one, units.rad, units.rad, kms, kms, kms, kms / units.day, kms]):
            v = types.SimpleNamespace(name=nm)
            setattr(v, "__tensor_unit__", un)
            p.pars[nm] = v
        p.poly_trend, p._v_trend_names = 2, ["v0", "v1"]
        p.v0_offsets = [p.pars["dv0_1"]]
        p._nonlinear_equiv_units = st.prior_helpers.get_nonlinear_equiv_units()
        p._linear_equiv_units = st.prior_helpers.get_linear_equiv_units(2)
        p._v0_offsets_equiv_units = st.prior_helpers.get_v0_offsets_equiv_units(1)
        rng = env.SymRng(w)
        s1 = p.sample(size=2, rng=rng)
        seed1 = rec.get("draw_seed")
        s2 = p.sample(size=2, return_logprobs=True, rng=rng)
        seed2 = rec.get("draw_seed")
        s3 = p.sample(size=2, generate_linear=True, rng=rng)
        seed3 = rec.get("draw_seed")
        # a request far beyond any internal block size still is ONE draw from the caller's generator
        n0 = len(rec["seeds"])
        p.sample(size=70000, rng=rng)
        rec["big_ok"] = len(rec["seeds"]) == n0 + 1 and rec["seeds"][-1] is rng
        # a call that fails inside the draw must leave numpy's global random machinery as it found it
        g0 = st.np.random.get_bit_generator()
        rec["fail_next"] = True
        try:
            p.sample(size=2, rng=rng)
        except ValueError:
            pass
        rec["fail_next"] = False
        rec["global_restored"] = st.np.random.get_bit_generator() is g0 or st.np.random.get_bit_generator() == g0
        return rng, seed1, seed2 if seed3 is seed2 else None, [list(o) for o in rec["orders"]], [list(x.tbl.colnames) for x in (s1, s2, s3)]

    ex = core.Explorer(max_paths=200)
    twin = False
    seen = {}
    for path in ex.paths(harness):
        r, _, _ = path.check(core.SB(z3.BoolVal(False)))
        twin = twin or r == "sat"
        if path.raised is not None:
            sink.check(path, "prior_sample.no_exception", core.SB(z3.BoolVal(False)), site="JokerPrior.sample", describe=lambda m: {"raised": repr(path.raised)[:300]})
            continue
        rng, s1, s2, orders, cols = path.result
        sink.check(path, "prior_sample_forwards_rng", core.SB(z3.BoolVal(s1 is rng and s2 is rng and not w.global_random_touched)),
                   site="JokerPrior.sample", describe=lambda m: {"seed_passed": repr(s1)[:80]})
        sink.check(path, "large_request_is_one_draw_from_the_generator", core.SB(z3.BoolVal(bool(rec.get("big_ok")))), site="JokerPrior.sample.large",
                   describe=lambda m: {"draw_calls_for_size_70000": [repr(x)[:40] for x in rec.get("seeds", [])[-3:]]})
        sink.check(path, "global_bit_generator_restored_after_failure", core.SB(z3.BoolVal(bool(rec.get("global_restored")))), site="JokerPrior.sample.failure",
                   describe=lambda m: {"events": [list(map(str, e)) for e in w.log if e[0] == "set_bit_generator"][:4]})
        # the order in which the variables are handed to pm.draw fixes which sub-stream each one gets: it must not depend on
        # anything but the prior (in particular not on the iteration order of a set, which changes with PYTHONHASHSEED)
        first = seen.setdefault("orders", (orders, cols))
        sink.check(path, "draw_order_is_a_function_of_the_prior", core.SB(z3.BoolVal(first == (orders, cols))), site="JokerPrior.sample.order",
                   describe=lambda m: {"orders": orders, "first_path": first[0]})
    res["twin_ok"] = twin
    fill_explorer(res, ex)
    return res


def _read_random_shape(shape, res, sink):
    """utils.read_random_batch / read_batch(int): the subset must be drawn from the rng argument"""
    S = groupa.Setup()
    ex = core.Explorer(max_paths=200)
    twin = False

    def harness():
        S.reset()
        lib, lnp = S.library(3)
        fn = S.as_file(lib, lnp)
        rng = env.SymRng(S.w)
        b = S.st.utils.read_batch(fn, ["P", "e"], 2, rng=rng)
        return b
    for path in ex.paths(harness):
        r, _, _ = path.check(core.SB(z3.BoolVal(False)))
        twin = twin or r == "sat"
        if path.raised is not None:
            sink.check(path, "read_random.no_exception", core.SB(z3.BoolVal(False)), site="read_random_batch", describe=lambda m: {"raised": repr(path.raised)[:300]})
            continue
        w = S.w
        foreign = [k for k in w.streams if k[:1] != ("root",)]
        sink.check(path, "read_random_uses_rng", core.SB(z3.BoolVal(not foreign and not w.global_random_touched and bool(groupa.stream_choices(w)))),
                   site="read_random_batch", describe=lambda m: {"streams": [list(map(str, k)) for k in w.streams]})
    res["twin_ok"] = twin
    fill_explorer(res, ex)
    return res


# ---------------------------------------------------------------------------------------------
# replay: scenario on the real build (real kernel, real HDF5, real generators)
# ---------------------------------------------------------------------------------------------

def replay(cand):
    import io
    import os
    import random
    import shutil
    import tempfile
    import numpy as np
    import astropy.units as u
    import schwimmbad
    import thejoker as tj
    shape = cand["shape"]
    entry = shape["entry"]
    bad = []
    tmpd = tempfile.mkdtemp(prefix="verif_c10_")
    try:
        if entry == "prior_sample":
            prior = tj.JokerPrior.default(P_min=2 * u.day, P_max=50 * u.day, sigma_K0=30 * u.km / u.s, sigma_v=50 * u.km / u.s)
            a = prior.sample(size=8, rng=np.random.default_rng(7))
            np.random.seed(99)
            b = prior.sample(size=8, rng=np.random.default_rng(7))
            if not all(np.array_equal(a[k].value, b[k].value) for k in a.par_names):
                bad.append("prior.sample(rng=seed 7) is not reproducible")
            # a large seeded request: no row may be an exact copy of another
            big = prior.sample(size=70000, rng=np.random.default_rng(7))
            if len(np.unique(big["P"].value)) != 70000 or len(np.unique(big["M0"].value)) != 70000:
                bad.append("prior.sample(size=70000, rng=...) contains exact copies of earlier rows (%d distinct periods)" % len(np.unique(big["P"].value)))
            # a failing call must not leave numpy's global generator swapped
            g0 = np.random.get_bit_generator()
            st0 = np.random.get_state()[1].copy()
            gen = np.random.default_rng(7)
            try:
                prior.sample(size=16.0, rng=gen)
            except Exception:
                pass
            if np.random.get_bit_generator() is not g0 or not np.array_equal(st0, np.random.get_state()[1]):
                bad.append("after a failing prior.sample call numpy's global bit generator / state is not what it was")
                np.random.set_bit_generator(g0)
            # equal seed in separate interpreter processes (different str hash seeds)
            import subprocess
            import sys
            code = ("import warnings; warnings.simplefilter('ignore')\n"
                    "import hashlib, numpy as np, astropy.units as u, pymc as pm, thejoker as tj, thejoker.units as xu\n"
                    "with pm.Model():\n"
                    "    dv = xu.with_unit(pm.Normal('dv0_1', 0.0, 4.0), u.km / u.s)\n"
                    "    prior = tj.JokerPrior.default(P_min=2 * u.day, P_max=50 * u.day, sigma_K0=30 * u.km / u.s, sigma_v=[50 * u.km / u.s, 1 * u.km / u.s / u.day], poly_trend=2, v0_offsets=[dv])\n"
                    "s = prior.sample(size=8, generate_linear=True, rng=np.random.default_rng(42))\n"
                    "h = hashlib.sha256()\n"
                    "for k in sorted(s.par_names):\n"
                    "    h.update(np.ascontiguousarray(s[k].value).tobytes())\n"
                    "print('DIGEST', h.hexdigest())\n")
            digests = []
            for hs in ("1", "3", "4"):
                envv = dict(os.environ, PYTHONHASHSEED=hs)
                out = subprocess.run([sys.executable, "-c", code], env=envv, capture_output=True, text=True, timeout=600, cwd=os.environ.get("VERIF_REPO", "/repo"))
                dg = [ln.split()[1] for ln in out.stdout.splitlines() if ln.startswith("DIGEST")]
                if not dg:
                    return {"reproduced": False, "error": "subprocess failed: %s" % out.stderr[-300:]}
                digests.append(dg[0])
            if len(set(digests)) != 1:
                bad.append("prior.sample(generate_linear=True, rng=default_rng(42)) is not bit-identical between interpreter processes (PYTHONHASHSEED 1/3/4)")
            return {"reproduced": bool(bad), "detail": "; ".join(bad) or "reproducible"}
        rnd = np.random.default_rng(3)
        t = 56000 + np.sort(rnd.uniform(0, 60, 6))
        data = tj.RVData(t, (10 * np.sin(2 * np.pi * t / 13.0) + rnd.normal(0, 1, 6)) * u.km / u.s, np.full(6, 1.0) * u.km / u.s)
        prior = tj.JokerPrior.default(P_min=2 * u.day, P_max=50 * u.day, sigma_K0=30 * u.km / u.s, sigma_v=50 * u.km / u.s)
        lib = prior.sample(size=96, rng=np.random.default_rng(11), return_logprobs=True)
        if shape["src"] != "count":
            # identical nonlinear rows: every row is accepted and all conditional posteriors N(a, A) coincide, so a random
            # stream that is shared between batches or calls shows up as exactly repeated linear draws
            for k in ("P", "e", "omega", "M0", "s", "ln_prior"):
                lib.tbl[k][:] = lib.tbl[k][0]
        fn = os.path.join(tmpd, "lib.hdf5")
        lib.write(fn, overwrite=True)
        if entry == "read_random_batch":
            from thejoker.utils import read_batch
            st0 = np.random.get_state()[1].copy()
            a = read_batch(fn, ["P", "e"], 8, rng=np.random.default_rng(5))
            np.random.seed(1234)
            st1 = np.random.get_state()[1].copy()
            b = read_batch(fn, ["P", "e"], 8, rng=np.random.default_rng(5))
            if not np.array_equal(a, b):
                bad.append("read_batch(random subset) differs for equal rng seeds")
            if not np.array_equal(st1, np.random.get_state()[1]):
                bad.append("read_batch advanced numpy's global random state")
            return {"reproduced": bool(bad), "detail": "; ".join(bad) or "ok"}

        def run(seed, gseed):
            np.random.seed(gseed)
            random.seed(gseed)
            g0 = np.random.get_state()[1].copy()
            p0 = random.getstate()
            joker = tj.TheJoker(prior, rng=np.random.default_rng(seed), pool=schwimmbad.SerialPool())
            src = {"filename": fn, "object": lib, "count": 96}[shape["src"]]
            outs = []
            for call in range(2):
                if entry == "rejection":
                    o = joker.rejection_sample(data, src, n_prior_samples=(96 if shape.get("full") else None), n_linear_samples=2, n_batches=4 if shape["n_batches"] == 3 else shape["n_batches"],
                                               randomize_prior_order=shape["randomize"], in_memory=shape["in_memory"])
                elif entry == "iterative":
                    o = joker.iterative_rejection_sample(data, src, n_requested_samples=4, n_linear_samples=1, n_batches=4 if shape["n_batches"] == 3 else shape["n_batches"],
                                                         randomize_prior_order=shape["randomize"], init_batch_size=16, in_memory=shape["in_memory"])
                else:
                    o = joker.marginal_ln_likelihood(data, src, n_batches=4 if shape["n_batches"] == 3 else shape["n_batches"], in_memory=shape["in_memory"])
                outs.append(o)
            touched = not np.array_equal(g0, np.random.get_state()[1]) or p0 != random.getstate()
            return outs, touched

        def flat(o):
            if isinstance(o, np.ndarray):
                return [o]
            return [np.asarray(o[k].value) for k in o.par_names]
        (a, ta), (b, tb) = run(42, 1), run(42, 2)
        if ta or tb:
            bad.append("numpy's / Python's global random state was read or advanced")
        for i in range(2):
            fa, fb = flat(a[i]), flat(b[i])
            if len(fa) != len(fb) or any(x.shape != y.shape or not np.array_equal(x, y) for x, y in zip(fa, fb)):
                bad.append("call %d: equal seeds give different outputs when only the global random state differs" % (i + 1))
        import thejoker.thejoker as _tjm
        if shape.get("pool", 1) > 1 and not shape["in_memory"] and type(_tjm.CJokerHelper).__name__ != "function":
            # equal seed and batching on a serial and on a 2-process pool, two successive calls
            def run_pool(pool, kmax=None):
                joker = tj.TheJoker(prior, rng=np.random.default_rng(42), pool=pool)
                src = {"filename": fn, "object": lib, "count": 96}[shape["src"]]
                nb = 4 if shape["n_batches"] == 3 else (shape["n_batches"] or 2)     # equal, explicit batching on both pools
                outs = []
                for call in range(2):
                    if entry == "rejection":
                        outs.append(joker.rejection_sample(data, src, n_linear_samples=2, n_batches=nb, randomize_prior_order=shape["randomize"],
                                                           max_posterior_samples=kmax))
                    elif entry == "iterative":
                        outs.append(joker.iterative_rejection_sample(data, src, n_requested_samples=4, n_linear_samples=1, n_batches=nb,
                                                                     randomize_prior_order=shape["randomize"], init_batch_size=16))
                    else:
                        outs.append(joker.marginal_ln_likelihood(data, src, n_batches=nb))
                return outs
            # (kmax=1: fewer accepted samples than batches, i.e. the posterior stage runs as a single task)
            for kmax in ((None, 1) if entry == "rejection" else (None,)):
                sa = run_pool(schwimmbad.SerialPool(), kmax)
                with schwimmbad.MultiPool(2) as mpool:
                    sb = run_pool(mpool, kmax)
                for i in range(2):
                    fa, fb = flat(sa[i]), flat(sb[i])
                    if len(fa) != len(fb) or any(x.shape != y.shape or not np.array_equal(x, y) for x, y in zip(fa, fb)):
                        bad.append("call %d (max_posterior_samples=%r): equal seed and batching give different outputs on SerialPool and MultiPool(2)" % (i + 1, kmax))
        if entry != "marginal":
            K = np.concatenate([np.asarray(o["K"].value) for o in a])
            if len(np.unique(K)) != len(K):
                bad.append("linear-parameter draws repeat across batches / calls (%d draws, %d distinct)" % (len(K), len(np.unique(K))))
        return {"reproduced": bool(bad), "detail": "; ".join(bad) or "reproducible, confined, distinct streams"}
    except Exception as e:
        import traceback
        return {"reproduced": False, "error": "replay scenario failed: %s" % traceback.format_exc()[-600:]}
    finally:
        shutil.rmtree(tmpd, ignore_errors=True)
