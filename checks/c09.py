"""C09 -- prior draws and the reported ln_prior follow the declared densities.

Front-end F3: the pytensor graphs the real code builds (pm.logp of UniformLog, the parameter graph of
FixedCompanionMass, the Beta parameters of the Kipping13 classes, the variables JokerPrior.default wires
up, and the very graphs JokerPrior.sample evaluates for ln_prior) are regenerated on every run and
evaluated symbolically (symx.ptfront); the sampler UniformLogRV.rng_fn (real function) runs on symbolic
a, b and a symbolic uniform draw.  LOG / EXP / POW / SQRT are uninterpreted with the axioms named per VC;
sat answers are concretised and replayed on pm.logp(...).eval() / pm.draw against scipy.
"""
import math
import warnings
from fractions import Fraction

import numpy as np

from symx import core, ptfront
from symx.core import z3, SN
from symx.framework import new_result, VCSink, fill_explorer

PROPERTY = "C09"
LEVEL = "model_checking"
FUNCTIONS = [("thejoker/distributions.py", "FixedCompanionMass.dist"), ("thejoker/distributions.py", "Kipping13Global.dist"),
             ("thejoker/distributions.py", "Kipping13Long.dist"), ("thejoker/distributions.py", "Kipping13Short.dist"),
             ("thejoker/prior.py", "JokerPrior.sample"), ("thejoker/prior.py", "default_nonlinear_prior"), ("thejoker/prior.py", "default_linear_prior")]
ASSUMPTIONS = [
    "LOG, EXP, POW, SQRT uninterpreted; axioms used: LOG(EXP z) = z, EXP(LOG x) = x and strict monotonicity of EXP / LOG on the terms present (sampler VC); POW(x,-1/3)^2 = POW(x,-2/3) is not needed (the sigma rule is compared as sigma, not sigma^2)",
    "a RandomVariable node left inside an evaluated log-density graph means 'redrawn on every evaluation' (fresh symbol)",
    "numpy / pytensor samplers for Beta, Normal and the uniform bit stream, pymc's logp of Normal/Beta and pymc_ext.angle are trusted",
    "bounds: scalar parameters; JokerPrior.default with poly_trend <= 2; prior.sample size 2",
]
L = core.lift


def bounds(tier):
    return {"distributions": ["UniformLog", "FixedCompanionMass", "Kipping13Global/Long/Short"], "prior.sample": "size 2, generate_linear on/off", "poly_trend": [1, 2]}


def shapes(tier):
    out = [{"what": "uniformlog_logp"}, {"what": "uniformlog_rng"}, {"what": "kipping"}]
    for cfg in ("day_year", "year_day", "ms"):
        out.append({"what": "fcm_sigma", "cfg": cfg})
    for npoly in (1, 2):
        out.append({"what": "default_wiring", "poly": npoly})
    for gl in (False, True):
        out.append({"what": "sample_logp", "generate_linear": gl})
    out.append({"what": "sample_logp", "generate_linear": True, "offsets": True})
    # call history on one prior object: an earlier sample() call with another dtype / other options
    # a user prior in which one nonlinear parameter depends on another (e | P): the log-density must be evaluated on the row's own P
    out.append({"what": "sample_logp", "generate_linear": False, "custom": "e_given_P"})
    out.append({"what": "sample_logp", "generate_linear": True, "custom": "e_given_P"})
    # a parameter declared as a transformed variable: P = exp(lnP), lnP uniform (density of P is 1/P up to a constant)
    out.append({"what": "sample_logp", "generate_linear": False, "custom": "P_deterministic"})
    # an informative prior on one of the parameters that is a constant by default (the jitter s)
    out.append({"what": "sample_logp", "generate_linear": False, "custom": "s_lognormal"})
    out.append({"what": "sample_logp", "generate_linear": True, "history": "float32_first"})
    out.append({"what": "sample_logp", "generate_linear": False, "history": "linear_first"})
    return out


def _quiet():
    warnings.simplefilter("ignore")
    import logging
    logging.getLogger("pymc").setLevel(logging.ERROR)


def run_shape(shape, tier):
    _quiet()
    res = new_result(shape)
    sink = VCSink(res, PROPERTY)
    fn = {"uniformlog_logp": _uniformlog_logp, "uniformlog_rng": _uniformlog_rng, "kipping": _kipping, "fcm_sigma": _fcm_sigma,
          "default_wiring": _default_wiring, "sample_logp": _sample_logp}[shape["what"]]
    ex = core.Explorer(max_paths=50, solver_timeout_ms=30000)
    twin = False
    for path in ex.paths(lambda: fn(shape)):
        core.Ctx.cur = path.ctx
        try:
            r, _, _ = path.check_isolated(core.SB(z3.BoolVal(False)))
            twin = twin or r == "sat"
            if path.raised is not None:
                if isinstance(path.raised, core.UnsupportedByShim):
                    raise path.raised
                sink.check(path, shape["what"] + ".no_exception", core.SB(z3.BoolVal(False)), site=shape["what"], describe=lambda m: {"raised": repr(path.raised)[:300]})
                continue
            for name, claim, site, desc, axioms in path.result:
                sink.check(path, name, core.SB(claim), site=site, describe=desc, isolated=True, axioms=axioms, structural_claim=True)
        finally:
            core.Ctx.cur = None
    res["twin_ok"] = twin
    fill_explorer(res, ex)
    if shape["what"] in ("uniformlog_logp", "uniformlog_rng", "sample_logp", "fcm_sigma"):
        res["witnesses"].append({"vc": "witness", "site": shape["what"], "shape": shape, "model": {}, "witness": True})
    return res


# ---- A: UniformLog.logp ---------------------------------------------------------------------

def _uniformlog_logp(shape):
    import pymc as pm
    import pytensor.tensor as pt
    from thejoker.distributions import UniformLog
    a, b, v = pt.dscalar("a"), pt.dscalar("b"), pt.dscalar("v")
    lp = pm.logp(UniformLog.dist(a, b), v)
    A, B, V = core.real("a"), core.real("b"), core.real("v")
    core.assume(A > 0)
    core.assume(B > A)
    ev = ptfront.Evaluator({a: np.asarray(A, dtype=object), b: np.asarray(B, dtype=object), v: np.asarray(V, dtype=object)})
    g = ev(lp).item()
    spec = -core.uf("LOG", V) - core.uf("LOG", core.uf("LOG", B) - core.uf("LOG", A))

    def desc(m):
        return {"a": str(core.model_value(m, A)), "b": str(core.model_value(m, B)), "v": str(core.model_value(m, V))}
    inside = z3.And(L(V) > L(A), L(V) < L(B))
    outside = z3.Or(L(V) < L(A), L(V) > L(B))
    out = []
    pref = [L(A) == 2, L(B) == 50]
    if isinstance(g, ptfront.Cond):
        # switch(in_support, density, -inf)
        fin, cnd = (g.a, L(g.c)) if isinstance(g.b, ptfront.NegInf) else (g.b, z3.Not(L(g.c)))
        out.append(("uniformlog.logp.support", z3.And(z3.Implies(inside, cnd), z3.Implies(outside, z3.Not(cnd))), "UniformLog.logp.support", desc, []))
        out.append(("uniformlog.logp.density", z3.Implies(inside, L(fin) == L(spec)) if not isinstance(fin, ptfront.NegInf) else z3.BoolVal(False), "UniformLog.logp.density", desc, []))
    elif isinstance(g, ptfront.NegInf):
        out.append(("uniformlog.logp.density", z3.BoolVal(False), "UniformLog.logp.density", desc, []))
    else:
        out.append(("uniformlog.logp.density", z3.Implies(inside, L(g) == L(spec)), "UniformLog.logp.density", desc, []))
        out.append(("uniformlog.logp.support", z3.Not(outside), "UniformLog.logp.support", desc, []))   # a finite value outside the support
    # parameter check a > 0, a < b present
    has_check = bool(ev.checks)
    out.append(("uniformlog.logp.parameter_check", z3.BoolVal(has_check), "UniformLog.logp", desc, []))
    return out


# ---- B: the sampler -------------------------------------------------------------------------

class _RngU:
    def __init__(self, u):
        self.u = u

    def uniform(self, low=0.0, high=1.0, size=None):
        return self.u


def _uniformlog_rng(shape):
    from thejoker.distributions import UniformLogRV
    A, B, U = core.real("a"), core.real("b"), core.real("u")
    core.assume(A > 0)
    core.assume(B > A)
    core.assume(U >= 0)
    core.assume(U <= 1)
    x = UniformLogRV.rng_fn(_RngU(U), A, B, None)
    la, lb = core.uf("LOG", A), core.uf("LOG", B)
    lx = core.uf("LOG", x)
    ax = []
    # LOG(EXP z) = z for the EXP terms present; EXP/LOG strictly monotone on the terms present; EXP(LOG a) = a
    exps = [(args[0], t) for (nm, args, t) in core.UF_LOG if nm == "EXP"]
    EXP = core.uf_decl("EXP", 1)
    LOG = core.uf_decl("LOG", 1)
    for z_, t in exps:
        ax.append(LOG(t) == z_)
    pts = [z_ for z_, _ in exps] + [L(la), L(lb)]
    for p_ in pts:
        for q_ in pts:
            ax.append((EXP(p_) < EXP(q_)) == (p_ < q_))
    ax += [EXP(L(la)) == L(A), EXP(L(lb)) == L(B), L(lb) > L(la)]

    def desc(m):
        return {"a": str(core.model_value(m, A)), "b": str(core.model_value(m, B)), "u": str(core.model_value(m, U))}
    cdf = z3.And(L(lx) - L(la) == L(U) * (L(lb) - L(la)))
    supp = z3.And(L(x) >= L(A), L(x) <= L(B))
    return [("uniformlog.rng.inverse_cdf", cdf, "UniformLogRV.rng_fn", desc, ax), ("uniformlog.rng.support", supp, "UniformLogRV.rng_fn", desc, ax)]


# ---- C: FixedCompanionMass ------------------------------------------------------------------

def _fcm_sigma(shape):
    import astropy.units as u
    import pymc as pm
    import thejoker.units as xu
    from thejoker.distributions import FixedCompanionMass, UniformLog, Kipping13Global
    cfg = shape["cfg"]
    P_unit, P0, sK0, maxK = {"day_year": (u.day, 1 * u.year, 30 * u.km / u.s, None),
                             "year_day": (u.year, 100 * u.day, 25 * u.km / u.s, 80 * u.km / u.s),
                             "ms": (u.day, 2 * u.year, 3000 * u.m / u.s, 200 * u.km / u.s)}[cfg]
    with pm.Model():
        P = xu.with_unit(UniformLog("P", 1.0, 100.0), P_unit)
        e = xu.with_unit(Kipping13Global("e"), u.one)
        kw = {} if maxK is None else {"max_K": maxK}
        K = FixedCompanionMass("K", P=P, e=e, sigma_K0=sK0, P0=P0, **kw)
    Ps, Es = core.real("P"), core.real("e")
    core.assume(Ps > 0)
    core.assume(Es >= 0)
    core.assume(Es < 1)
    ev = ptfront.Evaluator({P: np.asarray(Ps, dtype=object), e: np.asarray(Es, dtype=object)})
    mu_g, sig_g = [ev(x).item() for x in K.owner.op.dist_params(K.owner)]
    # declared rule, in the unit of sigma_K0: sigma = min(sigma_K0 (P/P0)^(-1/3) / sqrt(1-e^2), max_K), P/P0 a ratio of equal units
    ratio = Ps / Fraction(repr(float(P0.to_value(P_unit))))       # P / P0 with P0 expressed in P's unit
    unc = core.uf("POW", ratio, -1 / 3) * Fraction(repr(float(sK0.value))) / core.uf("SQRT", 1 - Es * Es)
    cap = Fraction(repr(float((500 * u.km / u.s if maxK is None else maxK).to_value(sK0.unit))))
    spec = core.sym_min([SN(L(cap)), core.sym_max([SN(L(0)), unc])])

    def desc(m):
        return {"P": str(core.model_value(m, Ps)), "e": str(core.model_value(m, Es)), "cfg": cfg}
    sq = core.uf("SQRT", 1 - Es * Es)
    ax = [L(sq) > 0, L(core.uf("POW", ratio, -1 / 3)) > 0]
    stored = (abs(float(K._sigma_K0.to_value(sK0.unit)) - float(sK0.value)) < 1e-12 and abs(float(K._P0.to_value(P_unit)) - float(P0.to_value(P_unit))) < 1e-9
              and K._max_K.unit == sK0.unit)
    return [("fcm.sigma_rule", L(sig_g) == L(spec), "FixedCompanionMass.dist.sigma", desc, ax),
            ("fcm.mu", L(mu_g) == 0 if core.is_sym(mu_g) else z3.BoolVal(float(mu_g) == 0.0), "FixedCompanionMass.dist", desc, []),
            ("fcm.stored_quantities", z3.BoolVal(bool(stored)), "FixedCompanionMass.dist", desc, [])]


# ---- D: Kipping constants -------------------------------------------------------------------

def _kipping(shape):
    from thejoker import distributions as D
    want = {"Kipping13Global": (0.867, 3.03), "Kipping13Long": (1.12, 3.09), "Kipping13Short": (0.697, 3.27)}
    out = []
    for nm, (al, be) in want.items():
        d = getattr(D, nm).dist()
        pars = [float(x.eval()) for x in d.owner.op.dist_params(d.owner)]
        ok = type(d.owner.op).__name__.lower().startswith("beta") and abs(pars[0] - al) < 1e-6 and abs(pars[1] - be) < 1e-6
        out.append(("kipping.%s" % nm, z3.BoolVal(bool(ok)), "distributions.%s" % nm, (lambda m, nm=nm, pars=pars: {"class": nm, "params": pars}), []))
    return out


# ---- E: default prior wiring ----------------------------------------------------------------

def _default_wiring(shape):
    import astropy.units as u
    import pymc as pm
    import thejoker as tj
    import thejoker.units as xu
    npoly = shape["poly"]
    sv = [7 * u.km / u.s, 0.3 * u.m / u.s / u.day][:npoly]
    prior = tj.JokerPrior.default(P_min=3 * u.day, P_max=2 * u.year, sigma_K0=20 * u.km / u.s, P0=2 * u.year, sigma_v=sv if npoly > 1 else sv[0], poly_trend=npoly,
                                  s=3 * u.m / u.s)
    p = prior.pars
    out = []

    def opname(v):
        return type(v.owner.op).__name__ if v.owner is not None else None

    def params(v):
        return [float(np.asarray(x.eval())) for x in v.owner.op.dist_params(v.owner)]

    def unit(v):
        return getattr(v, xu.UNIT_ATTR_NAME, None)
    okP = opname(p["P"]) == "UniformLogRV" and np.allclose(params(p["P"]), [3.0, (2 * u.year).to_value(u.day)]) and unit(p["P"]) == u.day
    oke = opname(p["e"]).lower().startswith("beta") and np.allclose(params(p["e"]), [0.867, 3.03]) and unit(p["e"]) == u.one
    okang = unit(p["omega"]) == u.rad and unit(p["M0"]) == u.rad
    oks = unit(p["s"]) == u.m / u.s and abs(float(p["s"].eval()) - 3.0) < 1e-12
    okK = opname(p["K"]) == "FixedCompanionMassRV" and unit(p["K"]) == u.km / u.s and p["K"]._P0.unit == u.day
    okv = True
    for j in range(npoly):
        v = p["v%d" % j]
        okv = okv and type(v.owner.op).__name__.startswith("Normal") and np.allclose(params(v), [0.0, sv[j].value]) and unit(v) == sv[j].unit
    names_ok = prior.par_names == ["P", "e", "omega", "M0", "s", "K"] + ["v%d" % j for j in range(npoly)]
    d = lambda m: {"poly_trend": npoly}
    for nm, ok in (("P", okP), ("e", oke), ("angles", okang), ("s", oks), ("K", okK), ("v", okv), ("par_names", names_ok)):
        out.append(("default_prior.%s" % nm, z3.BoolVal(bool(ok)), "JokerPrior.default", d, []))
    # omega / M0 are uniform angles: draws inside [-pi, pi] or [0, 2 pi) -- support checked on a draw (trusted sampler)
    return out


def _sample_prior(shape):
    import astropy.units as u
    import pymc as pm
    import thejoker as tj
    import thejoker.units as xu
    if shape.get("custom") == "e_given_P":
        import pytensor.tensor as pt
        from thejoker.distributions import UniformLog
        with pm.Model():
            P = xu.with_unit(UniformLog("P", 3.0, 300.0), u.day)
            e = xu.with_unit(pm.Beta("e", alpha=pt.switch(pt.lt(P, 20.0), 0.697, 1.12), beta=3.2), u.one)
            return tj.JokerPrior.default(sigma_K0=20 * u.km / u.s, sigma_v=50 * u.km / u.s, pars={"P": P, "e": e})
    if shape.get("custom") == "s_lognormal":
        with pm.Model():
            sj = xu.with_unit(pm.Lognormal("s", 0.0, 0.5), u.km / u.s)
            return tj.JokerPrior.default(P_min=3 * u.day, P_max=300 * u.day, sigma_K0=20 * u.km / u.s, sigma_v=50 * u.km / u.s, s=sj)
    if shape.get("custom") == "P_deterministic":
        import pytensor.tensor as pt
        with pm.Model():
            lnP = pm.Uniform("lnP", np.log(3.0), np.log(300.0))
            P = xu.with_unit(pm.Deterministic("P", pt.exp(lnP)), u.day)
            return tj.JokerPrior.default(sigma_K0=20 * u.km / u.s, sigma_v=50 * u.km / u.s, pars={"P": P})
    if shape.get("offsets"):
        with pm.Model():
            dv = xu.with_unit(pm.Normal("dv0_1", 0.0, 4.0), u.km / u.s)
            return tj.JokerPrior.default(P_min=3 * u.day, P_max=300 * u.day, sigma_K0=20 * u.km / u.s, sigma_v=50 * u.km / u.s, v0_offsets=[dv])
    return tj.JokerPrior.default(P_min=3 * u.day, P_max=300 * u.day, sigma_K0=20 * u.km / u.s, sigma_v=50 * u.km / u.s)


def _history(prior, shape):
    """the earlier call of a history shape (same prior object)"""
    h = shape.get("history")
    if h == "float32_first":
        prior.sample(size=3, generate_linear=shape["generate_linear"], return_logprobs=True, rng=np.random.default_rng(11), dtype=np.float32)
    elif h == "linear_first":
        prior.sample(size=3, generate_linear=not shape["generate_linear"], return_logprobs=True, rng=np.random.default_rng(11))


# ---- F: the graphs prior.sample evaluates for ln_prior -----------------------------------------

def _sample_logp(shape):
    import astropy.units as u
    import thejoker as tj
    from pytensor.graph.basic import Variable
    gl = shape["generate_linear"]
    prior = _sample_prior(shape)
    captured = []
    orig = Variable.eval
    _history(prior, shape)

    def rec(self, *a, **k):
        captured.append(self)
        return orig(self, *a, **k)
    Variable.eval = rec
    try:
        s = prior.sample(size=2, generate_linear=gl, return_logprobs=True, rng=np.random.default_rng(3))
    finally:
        Variable.eval = orig
    out = []
    d = lambda m: {"generate_linear": gl}
    n_terms = 0
    for g in captured:
        try:
            shp = tuple(np.asarray(orig(g)).shape)
        except Exception:
            continue
        if shp != (2,):
            continue
        ev = ptfront.Evaluator({})
        try:
            val = ev(g)
        except core.UnsupportedByShim:
            raise
        n_terms += 1
        redrawn = [r[0] for r in ev.fresh_rvs]
        out.append(("sample.logp_is_function_of_row[%d]" % n_terms, z3.BoolVal(not redrawn), "JokerPrior.sample.logp_graph",
                    (lambda m, redrawn=redrawn: {"generate_linear": gl, "redrawn_inputs": redrawn}), []))
    # one log-density term per drawn parameter that has a density: P, e (+ K, v0, offsets with generate_linear)
    want_terms = 2 + (2 if gl else 0) + (1 if (gl and shape.get("offsets")) else 0) + (1 if shape.get("custom") == "s_lognormal" else 0)
    out.append(("sample.logp_terms_present", z3.BoolVal(n_terms >= want_terms), "JokerPrior.sample.terms", (lambda m: {"generate_linear": gl, "terms": n_terms, "expected": want_terms}), []))
    ok_cols = "ln_prior" in s.tbl.colnames and len(s) == 2
    out.append(("sample.ln_prior_column", z3.BoolVal(bool(ok_cols)), "JokerPrior.sample", d, []))
    return out


# ---------------------------------------------------------------------------------------------

def replay(cand):
    _quiet()
    import astropy.units as u
    import pymc as pm
    import scipy.stats as st
    import thejoker as tj
    import thejoker.units as xu
    from thejoker.distributions import UniformLog, FixedCompanionMass, Kipping13Global
    shape = cand["shape"]
    m = cand.get("model") or {}
    what = shape["what"]
    f = lambda x: float(Fraction(x))
    bad = []
    try:
        if what == "uniformlog_logp":
            pts = [(2.0, 50.0, v) for v in (2.5, 7.0, 49.0, 1.0, 60.0, -3.0)]
            if "a" in m:
                a, b, v = f(m["a"]), f(m["b"]), f(m["v"])
                if a > 0 and b > a:
                    pts.insert(0, (a, b, v))
            for a, b, v in pts:
                got = float(pm.logp(UniformLog.dist(a, b), v).eval())
                want = -np.log(v) - np.log(np.log(b) - np.log(a)) if a <= v <= b else -np.inf
                if not (np.isclose(got, want, rtol=1e-6, atol=1e-9) or (got == want)):
                    bad.append("logp(UniformLog(%g,%g), %g) = %r, the normalised density gives %r" % (a, b, v, got, want))
        elif what == "uniformlog_rng":
            x = pm.draw(UniformLog.dist(2.0, 50.0), draws=4000, random_seed=np.random.default_rng(5))
            if x.min() < 2.0 or x.max() > 50.0:
                bad.append("draws outside the support")
            ks = st.kstest(np.log(x), st.uniform(loc=np.log(2.0), scale=np.log(50.0) - np.log(2.0)).cdf)
            if ks.pvalue < 1e-4:
                bad.append("draws are not log-uniform (KS p=%g)" % ks.pvalue)
        elif what == "fcm_sigma":
            cfgs = {"base": (u.day, 1 * u.year, 30 * u.km / u.s, 90 * u.km / u.s), "day_year": (u.day, 1 * u.year, 30 * u.km / u.s, None),
                    "year_day": (u.year, 100 * u.day, 25 * u.km / u.s, 80 * u.km / u.s), "ms": (u.day, 2 * u.year, 3000 * u.m / u.s, 200 * u.km / u.s)}
            for cfg in ("base", shape.get("cfg", "base")):
                P_unit, P0, sK0, maxK = cfgs[cfg]
                with pm.Model():
                    P = xu.with_unit(UniformLog("P", 1.0, 100.0), P_unit)
                    e = xu.with_unit(Kipping13Global("e"), u.one)
                    kw = {} if maxK is None else {"max_K": maxK}
                    K = FixedCompanionMass("K", P=P, e=e, sigma_K0=sK0, P0=P0, **kw)
                sig = K.owner.op.dist_params(K.owner)[1]
                cap = (500 * u.km / u.s if maxK is None else maxK).to_value(sK0.unit)
                for Pv, evv in ((3.0, 0.1), (40.0, 0.6), (1.5, 0.95)):
                    got = float(sig.eval({P: Pv, e: evv}))
                    want = min(sK0.value * (Pv / P0.to_value(P_unit)) ** (-1 / 3) / np.sqrt(1 - evv ** 2), cap)
                    if not np.isclose(got, want, rtol=1e-6):
                        bad.append("[%s] sigma_K(P=%g %s, e=%g) = %r in %s, declared rule %r" % (cfg, Pv, P_unit, evv, got, sK0.unit, want))
                if abs(K._sigma_K0.to_value(sK0.unit) - sK0.value) > 1e-9 * sK0.value or K._max_K.unit != sK0.unit:
                    bad.append("[%s] stored sigma_K0=%s / max_K=%s are not the declared quantities in the unit of sigma_K0 (%s)" % (cfg, K._sigma_K0, K._max_K, sK0.unit))
            # through the public prior: K is labelled with the unit of sigma_K0
            pr = tj.JokerPrior.default(P_min=3 * u.day, P_max=300 * u.day, sigma_K0=3000 * u.m / u.s, sigma_v=50 * u.km / u.s)
            smp = pr.sample(size=400, generate_linear=True, rng=np.random.default_rng(2))
            Pd, ee = smp["P"].to_value(u.day), np.asarray(smp["e"])
            z = smp["K"].to_value(u.km / u.s) / np.minimum(3.0 * (Pd / 365.25) ** (-1 / 3) / np.sqrt(1 - ee ** 2), 500.0)
            if not (0.8 < np.std(z) < 1.25):
                bad.append("JokerPrior.default(sigma_K0=3000 m/s): K draws have %.3g times the declared standard deviation" % np.std(z))
        elif what == "sample_logp":
            gl = shape["generate_linear"]
            prior = _sample_prior(shape)
            _history(prior, shape)
            a = prior.sample(size=6, generate_linear=gl, return_logprobs=True, rng=np.random.default_rng(3))
            b = prior.sample(size=6, generate_linear=gl, return_logprobs=True, rng=np.random.default_rng(3))
            if not np.array_equal(np.asarray(a["ln_prior"]), np.asarray(b["ln_prior"])):
                bad.append("ln_prior differs between two calls with equal seeds: the log-density is evaluated at freshly drawn values, not at the row's own")
            P, e = a["P"].to_value(u.day), np.asarray(a["e"])
            if shape.get("custom") == "e_given_P":
                want = -np.log(P) + st.beta(np.where(P < 20.0, 0.697, 1.12), 3.2).logpdf(e)
            elif shape.get("custom") == "s_lognormal":
                want = -np.log(P) + st.beta(0.867, 3.03).logpdf(e) + st.lognorm(s=0.5, scale=1.0).logpdf(a["s"].to_value(u.km / u.s))
            else:
                want = -np.log(P) + st.beta(0.867, 3.03).logpdf(e)
            if gl:
                sig = np.minimum(20.0 * (P / 365.25) ** (-1 / 3) / np.sqrt(1 - e ** 2), 500.0)
                want = want + st.norm(0, sig).logpdf(a["K"].to_value(u.km / u.s)) + st.norm(0, 50.0).logpdf(a["v0"].to_value(u.km / u.s))
                if shape.get("offsets"):
                    want = want + st.norm(0, 4.0).logpdf(a["dv0_1"].to_value(u.km / u.s))
            dlt = np.asarray(a["ln_prior"]) - want
            if np.ptp(dlt) > 1e-5:
                bad.append("ln_prior - log joint density is not constant across rows (spread %.3g)" % np.ptp(dlt))
        elif what == "kipping":
            from thejoker import distributions as D
            for nm, (al, be) in {"Kipping13Global": (0.867, 3.03), "Kipping13Long": (1.12, 3.09), "Kipping13Short": (0.697, 3.27)}.items():
                for x in (0.05, 0.3, 0.8):
                    got = float(pm.logp(getattr(D, nm).dist(), x).eval())
                    want = float(st.beta(al, be).logpdf(x))
                    if not np.isclose(got, want, rtol=1e-6, atol=1e-9):
                        bad.append("logp(%s, %g) = %r, Beta(%g, %g) gives %r" % (nm, x, got, al, be, want))
                        break
                dr = pm.draw(getattr(D, nm).dist(), draws=4000, random_seed=np.random.default_rng(9))
                if st.kstest(dr, st.beta(al, be).cdf).pvalue < 1e-4:
                    bad.append("%s draws do not follow Beta(%g, %g)" % (nm, al, be))
        elif what == "default_wiring":
            # the same call on the real build, judged by what it draws: every default component follows the
            # distribution the arguments prescribe, in the argument's own unit
            npoly = shape["poly"]
            sv = [7 * u.km / u.s, 0.3 * u.m / u.s / u.day][:npoly]
            try:
                prior = tj.JokerPrior.default(P_min=3 * u.day, P_max=2 * u.year, sigma_K0=20 * u.km / u.s, P0=2 * u.year,
                                              sigma_v=sv if npoly > 1 else sv[0], poly_trend=npoly, s=3 * u.m / u.s)
                smp = prior.sample(size=3000, rng=np.random.default_rng(5), generate_linear=True)
            except Exception as e:
                bad.append("JokerPrior.default / sample with valid mixed-unit arguments raised %s: %s" % (type(e).__name__, str(e)[:200]))
                smp = None
            if smp is not None:
                Pd = smp["P"].to_value(u.day)
                hi = (2 * u.year).to_value(u.day)
                if Pd.min() < 3 * (1 - 1e-9) or Pd.max() > hi * (1 + 1e-9) or Pd.max() < 100:
                    bad.append("3000 default draws of P span [%.4g, %.4g] d; P_min = 3 d, P_max = 2 yr = %.4g d" % (Pd.min(), Pd.max(), hi))
                elif st.kstest(np.log(Pd), st.uniform(np.log(3.0), np.log(hi) - np.log(3.0)).cdf).pvalue < 1e-5:
                    bad.append("default draws of ln P are not uniform on [ln 3 d, ln 2 yr]")
                ee = np.asarray(smp["e"])
                if st.kstest(ee, st.beta(0.867, 3.03).cdf).pvalue < 1e-5:
                    bad.append("default draws of e do not follow Beta(0.867, 3.03)")
                for j in range(npoly):
                    vv = smp["v%d" % j].to_value(sv[j].unit)
                    if st.kstest(vv, st.norm(0, sv[j].value).cdf).pvalue < 1e-5:
                        bad.append("default draws of v%d have spread %.4g %s; sigma_v = %s" % (j, np.std(vv), sv[j].unit, sv[j]))
                Kk = smp["K"].to_value(u.km / u.s)
                sig = 20.0 * (Pd / hi) ** (-1 / 3) / np.sqrt(1 - ee ** 2)
                if st.kstest(Kk / sig, st.norm(0, 1).cdf).pvalue < 1e-5:
                    bad.append("default draws of K / (sigma_K0 (P/P0)^(-1/3) / sqrt(1-e^2)) are not standard normal")
        else:
            return {"reproduced": False, "detail": "structural claim; nothing to replay"}
    except Exception as e:
        import traceback
        return {"reproduced": False, "error": traceback.format_exc()[-400:]}
    return {"reproduced": bool(bad), "detail": "; ".join(bad[:3])[:900] or "real build agrees with the declared densities"}
