"""C15 -- RVData preserves the observations it is given.

Real code executed symbolically: thejoker/data.py RVData.__init__, .t, .cov, .ivar, __copy__/copy,
__getitem__, __len__ (current tree, loaded under shimmed numpy / astropy.units / astropy.time).
Symbolic: every time, velocity, error (or covariance) cell, a per-cell "is finite" flag, the argsort
permutation (ANY sorting permutation allowed by numpy's contract), the RV unit scale, t_ref.
Concrete per shape: number of epochs, clean, 1-D errors vs full covariance, t_ref kind, slice.
"""
import itertools
from fractions import Fraction

from symx import core, stack, env, symnp, units
from symx.core import z3, SN
from symx.framework import new_result, VCSink, fill_explorer, add_witness

PROPERTY = "C15"
LEVEL = "model_checking"
FUNCTIONS = [("thejoker/data.py", "RVData.__init__"), ("thejoker/data.py", "RVData.ivar"), ("thejoker/data.py", "RVData.cov"),
             ("thejoker/data.py", "RVData.__copy__"), ("thejoker/data.py", "RVData.__getitem__"), ("thejoker/data.py", "RVData.t")]
ASSUMPTIONS = [
    "numpy argsort: ANY permutation that sorts the keys (default sort is not stable); boolean-mask indexing, isfinite, atleast_1d by their documented semantics (symx.symnp)",
    "astropy Quantity / Time by contract (symx.units): unit = dimension vector + scale; Time = BMJD real",
    "velocities are used as pairwise-distinct labels when a VC speaks about 'which observation is which' (the constructor never branches on velocities)",
    "a non-finite input cell is a cell whose is-finite flag is false; all-non-finite input (constructor raises on min of empty) is an allowed exit",
    "np.linalg.inv by contract X.Y = I; reals for floats",
    "bounds: n_epochs <= 3 (quick) / 5 (thorough; covariance <= 4)",
]


def bounds(tier):
    return {"n_epochs": [1, 3 if tier == "quick" else 5], "covariance_n": [1, 2 if tier == "quick" else 4], "clean": [True, False],
            "t_ref": ["default", "explicit", "False"], "ops": ["init", "copy", "slice", "ivar", "cov"]}


def shapes(tier):
    out = []
    nmax = 3 if tier == "quick" else 5
    for nt in range(1, nmax + 1):
        for clean in (True, False):
            for tref in ("default", "explicit", "false"):
                out.append({"kind": "1d", "nt": nt, "clean": clean, "tref": tref})
    for nt in range(1, (2 if tier == "quick" else 4) + 1):
        for clean in (True, False):
            out.append({"kind": "cov", "nt": nt, "clean": clean, "tref": "default"})
    # Time input on another scale than TCB; a 3x3 covariance (mask / index-array subsets keep the off-diagonal terms)
    out.append({"kind": "1d", "nt": 2, "clean": True, "tref": "default", "tin": "time", "tscale": "tdb"})
    out.append({"kind": "1d", "nt": 1, "clean": False, "tref": "default", "tin": "time", "tscale": "utc"})
    out.append({"kind": "cov", "nt": 3, "clean": False, "tref": "default", "skip_ivar": tier == "quick"})      # (the 3x3 inverse is decided in the thorough tier)
    # uncertainties in another unit than the velocities
    out.append({"kind": "1d", "nt": 2, "clean": True, "tref": "default", "err_unit": True})
    out.append({"kind": "cov", "nt": 2, "clean": False, "tref": "default", "err_unit": True})
    # time input kind chosen against the parity rule of the harness (default: float array for odd, Time for even n)
    for nt in ((2, 3, 4) if tier == "quick" else (2, 3, 4, 5, 6)):
        out.append({"kind": "1d", "nt": nt, "clean": True, "tref": "default", "tin": "time" if nt % 2 else "array"})
    return out


def _mk_inputs(shape, st):
    nt = shape["nt"]
    clean = shape["clean"]
    u = st.u
    vunit = units.sym_unit("rv", units.km / units.s)
    # the uncertainties may be quoted in another (equivalent) unit than the velocities
    eunit = units.sym_unit("rverr", units.km / units.s) if shape.get("err_unit") else vunit
    t, rv, err, flags = [], [], [], {}
    for i in range(nt):
        for nm, lst in (("t", t), ("rv", rv), ("err", err)):
            v = core.real("%s_%d" % (nm, i))
            if clean and not (shape["kind"] == "cov" and nm == "err"):
                f = core.boolean("fin_%s_%d" % (nm, i))
                flags[(nm, i)] = f
                lst.append(symnp.FinCell(v.e, f))
            else:
                lst.append(v)
    inp = {"t": t, "rv": rv, "vunit": vunit, "eunit": eunit, "flags": flags}
    if shape["kind"] == "1d":
        for e in err:
            core.assume(SN(e.e) > 0)
        inp["err"] = err
        rv_err = units.Quantity(symnp.SymArray(symnp._obj(err), symnp._F8), eunit)
    else:
        cov = [[None] * nt for _ in range(nt)]
        for i in range(nt):
            for j in range(nt):
                v = core.real("cov_%d_%d" % (i, j))
                if clean:
                    f = core.boolean("fin_cov_%d_%d" % (i, j))
                    flags[("cov", i, j)] = f
                    cov[i][j] = symnp.FinCell(v.e, f)
                else:
                    cov[i][j] = v
        inp["cov"] = cov
        rv_err = units.Quantity(symnp.SymArray(symnp._obj(cov), symnp._F8), eunit ** 2)
    inp["rv_q"] = units.Quantity(symnp.SymArray(symnp._obj(rv), symnp._F8), vunit)
    inp["rv_err_q"] = rv_err
    inp["t_arr"] = symnp.SymArray(symnp._obj(t), symnp._F8)
    if shape["tref"] == "explicit":
        inp["t_ref"] = units.Time(core.real("t_ref_in"))
    elif shape["tref"] == "false":
        inp["t_ref"] = False
    else:
        inp["t_ref"] = None
    return inp


def _kept_flags(shape, inp):
    nt = shape["nt"]
    fl = inp["flags"]
    out = []
    for i in range(nt):
        if not shape["clean"]:
            out.append(z3.BoolVal(True))
            continue
        c = [fl[("t", i)].e, fl[("rv", i)].e]
        if shape["kind"] == "1d":
            c.append(fl[("err", i)].e)
        else:
            # the whole covariance column must be finite (np.isfinite(cov).all(axis=0)); by symmetry of a
            # covariance this is the row as well. The property's wording: "non-finite ones dropped".
            c += [fl[("cov", r, i)].e for r in range(nt)]
        out.append(z3.And(c))
    return out


def _cells(x):
    v = x.value if isinstance(x, units.Quantity) else (x._v if isinstance(x, units.Time) else x)
    if isinstance(v, symnp.SymArray):
        return v.a
    return None


def _val(c):
    return core.lift(c)


def _triple_claims(shape, inp, kept, t_out, rv_out, err_out, cov_out):
    """count + every output row is an intact kept input observation + every kept one appears"""
    nt = shape["nt"]
    n_out = len(t_out)
    L = core.lift
    cl = [z3.Sum([z3.If(k, 1, 0) for k in kept]) == n_out]
    match = [[None] * nt for _ in range(n_out)]
    for k in range(n_out):
        for i in range(nt):
            same = [L(t_out[k]) == L(inp.get("t_spec", inp["t"])[i]), L(rv_out[k]) == L(inp["rv"][i])]
            if err_out is not None:
                same.append(L(err_out[k]) == L(inp["err"][i]))
            match[k][i] = z3.And(kept[i], *same)
        cl.append(z3.Or(match[k]) if nt else z3.BoolVal(False))
    for i in range(nt):
        cl.append(z3.Implies(kept[i], z3.Or([match[k][i] for k in range(n_out)]) if n_out else z3.BoolVal(False)))
    if cov_out is not None:
        for k in range(n_out):
            for l in range(n_out):
                for i in range(nt):
                    for j in range(nt):
                        cl.append(z3.Implies(z3.And(kept[i], kept[j], L(rv_out[k]) == L(inp["rv"][i]), L(rv_out[l]) == L(inp["rv"][j])),
                                             L(cov_out[k, l]) == L(inp["cov"][i][j])))
    distinct = z3.Distinct(*[L(x) for x in inp["rv"]]) if nt > 1 else z3.BoolVal(True)
    return z3.Implies(distinct, z3.And(cl))


def _describe(shape, inp, extra=None):
    def d(m):
        mv = lambda x: str(core.model_value(m, x))
        nt = shape["nt"]
        out = {"t": [mv(x) for x in inp["t"]], "rv": [mv(x) for x in inp["rv"]],
               "fin": {"%s_%s" % (k[0], "_".join(str(i) for i in k[1:])): bool(core.model_value(m, v)) for k, v in inp["flags"].items()},
               "vscale": mv(inp["vunit"].scale), "escale": mv(inp["eunit"].scale)}
        if "err" in inp:
            out["err"] = [mv(x) for x in inp["err"]]
        if "cov" in inp:
            out["cov"] = [[mv(x) for x in r] for r in inp["cov"]]
        if isinstance(inp["t_ref"], units.Time):
            out["t_ref"] = mv(inp["t_ref"]._v)
        if extra:
            out.update(extra)
        return out
    return d


def run_shape(shape, tier):
    res = new_result(shape)
    sink = VCSink(res, PROPERTY)
    st = stack.Stack(load=("prior_helpers", "likelihood_helpers"))
    st.load("data_helpers")
    st.load("data")
    RVData = st.data.RVData
    nt = shape["nt"]

    def harness():
        inp = _mk_inputs(shape, st)
        as_time = (nt % 2 == 0) if shape.get("tin") is None else shape["tin"] == "time"
        if as_time:
            # astropy's Time refuses non-finite values, so Time input implies finite times
            for i in range(nt):
                if ("t", i) in inp["flags"]:
                    core.assume(inp["flags"][("t", i)])
        tin = inp["t_arr"]
        if as_time:
            tin = units.Time(inp["t_arr"], scale=shape.get("tscale", "tcb"))
            inp["t_spec"] = list(tin.tcb._v.a)       # the observations' barycentric (TCB) MJD, whatever scale they were given on
        d = RVData(tin, inp["rv_q"], inp["rv_err_q"], t_ref=inp["t_ref"], clean=shape["clean"])
        return inp, d

    ex = core.Explorer(max_paths=5000)
    twin = False
    for path in ex.paths(harness):
        core.Ctx.cur = path.ctx
        try:
            r, _, _ = path.check(core.SB(z3.BoolVal(False)))
            twin = twin or r == "sat"
            if path.raised is not None:
                # all observations non-finite -> min() of empty raises; anything else is a failure
                e = path.raised
                inp = _mk_probe(shape)
                kept = _kept_flags(shape, inp)
                none_kept = z3.Not(z3.Or(kept))
                ok = shape["clean"]   # any exception type is acceptable when no observation is finite
                sink.check(path, "ctor_raises_only_if_nothing_finite", core.SB(none_kept if ok else z3.BoolVal(False)), site="RVData.__init__",
                           describe=_describe(shape, inp, {"raised": repr(e)[:200]}))
                continue
            inp, d = path.result
            kept = _kept_flags(shape, inp)
            desc = _describe(shape, inp)
            _check_object(sink, path, shape, inp, kept, d, "init", desc)
            # the caller's own arrays are left as they were (a second data set built from the same arrays must see the same pairing)
            same_in = all(a is b for a, b in zip(inp["t_arr"].a.flat, inp["t"])) and all(a is b for a, b in zip(inp["rv_q"].value.a.flat, inp["rv"]))
            if shape["kind"] == "1d":
                same_in = same_in and all(a is b for a, b in zip(inp["rv_err_q"].value.a.flat, inp["err"]))
            pref_in = [core.lift(inp["t"][i]) > core.lift(inp["t"][i + 1]) + 1 for i in range(nt - 1)] + [f_.e for f_ in inp["flags"].values()]
            sink.check(path, "init.inputs_unmodified", core.SB(z3.BoolVal(bool(same_in))), site="RVData.__init__.inputs", describe=desc, structural_claim=True,
                       prefer=pref_in)      # counterexample models: unsorted, all-finite input
            if ex.n_paths % 2 == 1:
                add_witness(res, path, desc, site="RVData")
            # derived quantities
            if not shape.get("skip_ivar"):
                _check_ivar_cov(sink, path, shape, inp, d, desc)
            # copy(): same observations, same pairing, same units, same reference epoch
            try:
                c = d.copy()
            except Exception as e:
                sink.check(path, "copy.no_exception", core.SB(z3.BoolVal(False)), site="RVData.__copy__", describe=_describe(shape, inp, {"raised": repr(e)[:200]}))
                c = None
            if c is not None:
                _check_same(sink, path, shape, d, c, list(range(len(d))), "copy", desc, check_tref=True)
            # slicing
            n = len(d)
            for name, slc, idxs in _slices(n):
                try:
                    s = d[slc]
                except Exception as e:
                    sink.check(path, "slice.no_exception", core.SB(z3.BoolVal(False)), site="RVData.__getitem__", describe=_describe(shape, inp, {"raised": repr(e)[:200], "slice": name}))
                    continue
                _check_same(sink, path, shape, d, s, idxs, "slice[%s]" % name, _describe(shape, inp, {"slice": name}), check_tref=False)
        finally:
            core.Ctx.cur = None
    res["twin_ok"] = twin
    fill_explorer(res, ex)
    return res


def _mk_probe(shape):
    """re-create the input symbols by name (for paths where the constructor raised)"""
    nt = shape["nt"]
    inp = {"t": [core.real("t_%d" % i) for i in range(nt)], "rv": [core.real("rv_%d" % i) for i in range(nt)],
           "flags": {}, "vunit": units.Unit(core.real("unit_rv"), (units.km / units.s).dims, "rv"), "t_ref": None}
    inp["eunit"] = units.Unit(core.real("unit_rverr"), (units.km / units.s).dims, "rverr") if shape.get("err_unit") else inp["vunit"]
    if shape["kind"] == "1d":
        inp["err"] = [core.real("err_%d" % i) for i in range(nt)]
    else:
        inp["cov"] = [[core.real("cov_%d_%d" % (i, j)) for j in range(nt)] for i in range(nt)]
    if shape["clean"]:
        for i in range(nt):
            for nm in ("t", "rv") + (("err",) if shape["kind"] == "1d" else ()):
                inp["flags"][(nm, i)] = core.boolean("fin_%s_%d" % (nm, i))
            if shape["kind"] == "cov":
                for j in range(nt):
                    inp["flags"][("cov", i, j)] = core.boolean("fin_cov_%d_%d" % (i, j))
    return inp


def _slices(n):
    out = []
    if n >= 1:
        out.append(("0:1", slice(0, 1), [0]))
    if n >= 2:
        out.append(("1:", slice(1, None), list(range(1, n))))
        out.append(("::2", slice(None, None, 2), list(range(0, n, 2))))
        # selections that name the rows out of time order: the new object is time-ordered all the same
        out.append(("::-1", slice(None, None, -1), list(range(n - 1, -1, -1))))
        out.append(("index[n-1,0]", symnp.SymArray(symnp._obj([n - 1, 0]), symnp._I8), [n - 1, 0]))
    if n >= 3:
        out.append(("mask", symnp.SymArray(symnp._obj([True] + [False] * (n - 2) + [True]), symnp._B1), [0, n - 1]))
    return out


def _check_object(sink, path, shape, inp, kept, d, tag, desc):
    L = core.lift
    t_out = _cells(d._t_bmjd)
    rv_out = _cells(d.rv)
    ok_struct = t_out is not None and rv_out is not None and len(t_out) == len(rv_out) == len(d)
    err_out = cov_out = None
    if shape["kind"] == "1d":
        err_out = _cells(d.rv_err)
        ok_struct = ok_struct and err_out is not None and err_out.shape == (len(d),) and d._has_cov is False
    else:
        cov_out = _cells(d.rv_err)
        ok_struct = ok_struct and cov_out is not None and cov_out.shape == (len(d), len(d)) and d._has_cov is True
    sink.check(path, tag + ".structure", core.SB(z3.BoolVal(bool(ok_struct))), site="RVData.__init__", describe=desc)
    if not ok_struct:
        return
    sink.check(path, tag + ".observations", core.SB(_triple_claims(shape, inp, kept, list(t_out), list(rv_out), list(err_out) if err_out is not None else None, cov_out)),
               site="RVData.__init__", describe=desc)
    srt = z3.And([L(t_out[k]) <= L(t_out[k + 1]) for k in range(len(t_out) - 1)]) if len(t_out) > 1 else z3.BoolVal(True)
    sink.check(path, tag + ".sorted", core.SB(srt), site="RVData.__init__", describe=desc)
    units_ok = d.rv.unit is inp["vunit"] or d.rv.unit == inp["vunit"]
    eu = d.rv_err.unit
    units_ok = units_ok and (eu == inp["eunit"] if shape["kind"] == "1d" else eu == inp["eunit"] ** 2)
    tt = d.t
    units_ok = units_ok and isinstance(tt, units.Time) and all(z3.eq(L(a), L(b)) for a, b in zip(_cells(tt), t_out))
    sink.check(path, tag + ".units", core.SB(z3.BoolVal(bool(units_ok))), site="RVData.__init__", describe=desc)
    # reference epoch
    if shape["tref"] == "false":
        ok = d.t_ref is None and not core.is_sym(d._t_ref_bmjd) and d._t_ref_bmjd == 0
        sink.check(path, tag + ".t_ref", core.SB(z3.BoolVal(bool(ok))), site="RVData.__init__", describe=desc)
    elif shape["tref"] == "explicit":
        ok = isinstance(d.t_ref, units.Time)
        # the explicit epoch is given on the UTC scale: the internal barycentric value is its TCB equivalent
        cl = z3.And(L(d.t_ref._v) == L(inp["t_ref"]._v), z3.BoolVal(d.t_ref.scale == inp["t_ref"].scale), L(d._t_ref_bmjd) == L(inp["t_ref"].tcb._v)) if ok else z3.BoolVal(False)
        sink.check(path, tag + ".t_ref", core.SB(cl), site="RVData.__init__", describe=desc)
    else:
        ok = isinstance(d.t_ref, units.Time) and len(t_out) > 0
        if ok:
            tr = L(d.t_ref._v)
            cl = z3.And([tr <= L(x) for x in t_out] + [z3.Or([tr == L(x) for x in t_out]), L(d._t_ref_bmjd) == tr])
        else:
            cl = z3.BoolVal(False)
        sink.check(path, tag + ".t_ref", core.SB(cl), site="RVData.__init__", describe=desc)


def _check_ivar_cov(sink, path, shape, inp, d, desc):
    L = core.lift
    n = len(d)
    try:
        iv = d.ivar
        cv = d.cov
    except Exception as e:
        sink.check(path, "ivar.no_exception", core.SB(z3.BoolVal(False)), site="RVData.ivar", describe=desc)
        return
    if shape["kind"] == "1d":
        err = _cells(d.rv_err)
        ivc = _cells(iv)
        ok = ivc is not None and ivc.shape == (n,)
        cl = z3.And([L(ivc[k]) * L(err[k]) * L(err[k]) == 1 for k in range(n)] + [iv.unit.same_as(inp["eunit"] ** -2)]) if ok else z3.BoolVal(False)
        sink.check(path, "ivar.reciprocal_variance", core.SB(cl), site="RVData.ivar", describe=desc)
        cc = _cells(cv)
        ok = cc is not None and cc.shape == (n, n)
        cl = z3.And([L(cc[k, l]) == (L(err[k]) * L(err[k]) if k == l else 0) for k in range(n) for l in range(n)] + [cv.unit.same_as(inp["eunit"] ** 2)]) if ok else z3.BoolVal(False)
        sink.check(path, "cov.diagonal_variances", core.SB(cl), site="RVData.cov", describe=desc)
    else:
        cov = _cells(d.rv_err)
        ivc = _cells(iv)
        ok = ivc is not None and ivc.shape == (n, n)
        if ok:
            cl = z3.And([core.lift(core.sym_sum([cov[k, r] * ivc[r, l] for r in range(n)])) == (1 if k == l else 0) for k in range(n) for l in range(n)] + [iv.unit.same_as(inp["eunit"] ** -2)])
        else:
            cl = z3.BoolVal(False)
        # counterexample models on the scale where absolute tolerances of the code would bite (errors of ~0.1 m/s in km/s)
        pref = []
        if ok:
            from fractions import Fraction as _Fr
            pref = [L(cov[k, l]) == (_Fr(2, 10 ** 8) if k == l else _Fr(1, 10 ** 8) / (1 + abs(k - l))) for k in range(n) for l in range(n)]
        sink.check(path, "ivar.inverse_covariance", core.SB(cl), site="RVData.ivar", describe=desc, prefer=pref)
        cc = _cells(cv)
        ok = cc is not None and cc.shape == (n, n)
        cl = z3.And([L(cc[k, l]) == L(cov[k, l]) for k in range(n) for l in range(n)] + [cv.unit.same_as(inp["eunit"] ** 2)]) if ok else z3.BoolVal(False)
        sink.check(path, "cov.is_covariance", core.SB(cl), site="RVData.cov", describe=desc)


def _check_same(sink, path, shape, d, c, idxs, tag, desc, check_tref):
    """object c must hold observations idxs of d (already time-sorted, so order is preserved)"""
    L = core.lift
    t0, rv0, e0 = _cells(d._t_bmjd), _cells(d.rv), _cells(d.rv_err)
    t1, rv1, e1 = _cells(c._t_bmjd), _cells(c.rv), _cells(c.rv_err)
    site = "RVData.__copy__" if tag == "copy" else "RVData.__getitem__"
    ok = t1 is not None and len(t1) == len(idxs) and rv1 is not None and len(rv1) == len(idxs) and e1 is not None and c._has_cov == d._has_cov
    if ok and d._has_cov:
        ok = e1.shape == (len(idxs), len(idxs))
    elif ok:
        ok = e1.shape == (len(idxs),)
    ok = ok and c.rv.unit == d.rv.unit and c.rv_err.unit == d.rv_err.unit
    if not ok:
        sink.check(path, tag + ".structure", core.SB(z3.BoolVal(False)), site=site, describe=desc)
        return
    # the new object re-sorts; for distinct velocities every output row must be an intact row of d[idxs], all present
    n1 = len(idxs)
    cl = []
    match = [[None] * n1 for _ in range(n1)]
    for k in range(n1):
        for a, i in enumerate(idxs):
            same = [L(t1[k]) == L(t0[i]), L(rv1[k]) == L(rv0[i])]
            if not d._has_cov:
                same.append(L(e1[k]) == L(e0[i]))
            match[k][a] = z3.And(same)
        cl.append(z3.Or(match[k]))
    for a in range(n1):
        cl.append(z3.Or([match[k][a] for k in range(n1)]))
    if d._has_cov:
        for k in range(n1):
            for l in range(n1):
                for a, i in enumerate(idxs):
                    for b, j in enumerate(idxs):
                        cl.append(z3.Implies(z3.And(L(rv1[k]) == L(rv0[i]), L(rv1[l]) == L(rv0[j])), L(e1[k, l]) == L(e0[i, j])))
    cl.append(z3.And([L(t1[k]) <= L(t1[k + 1]) for k in range(n1 - 1)]) if n1 > 1 else z3.BoolVal(True))
    distinct = z3.Distinct(*[L(x) for x in rv0]) if len(rv0) > 1 else z3.BoolVal(True)
    sink.check(path, tag + ".observations", core.SB(z3.Implies(distinct, z3.And(cl))), site=site, describe=desc)
    if check_tref:
        if d.t_ref is None:
            okr = c.t_ref is None and not core.is_sym(c._t_ref_bmjd) and c._t_ref_bmjd == 0
            clr = z3.BoolVal(bool(okr))
        else:
            clr = z3.And(L(c.t_ref.tcb._v) == L(d.t_ref.tcb._v), L(c._t_ref_bmjd) == L(d._t_ref_bmjd)) if isinstance(c.t_ref, units.Time) else z3.BoolVal(False)
        sink.check(path, tag + ".t_ref", core.SB(clr), site=site + ".t_ref", describe=desc)


# ---------------------------------------------------------------------------------------------

def replay(cand):
    """a cell whose 'finite' flag is off in the model stands for ANY non-finite float: try NaN, +inf and -inf"""
    last = None
    for fill in (float("nan"), float("inf"), float("-inf")):
        rr = _replay_once(cand, fill)
        if rr.get("reproduced"):
            if fill == fill:
                rr["detail"] = "[non-finite cells = %r] %s" % (fill, rr.get("detail", ""))
            return rr
        last = last or rr
    return last


def _replay_once(cand, fill):
    """real RVData on the model's values; oracle: plain-Python reference of the property"""
    import numpy as np
    import astropy.units as u
    from astropy.time import Time
    from thejoker.data import RVData
    m = cand.get("model") or {}
    shape = cand["shape"]
    if "t" not in m:
        return {"reproduced": False, "detail": "no concrete input"}
    f = lambda x: float(Fraction(x))
    nt = shape["nt"]
    t = np.array([f(x) for x in m["t"]]) + 55000.0
    rv = np.array([f(x) for x in m["rv"]])
    fin = m.get("fin", {})
    scale = f(m.get("vscale", "1"))
    vunit = u.def_unit("vsym", scale * u.m / u.s)
    eunit = u.def_unit("esym", f(m.get("escale", m.get("vscale", "1"))) * u.m / u.s) if shape.get("err_unit") else vunit
    for i in range(nt):
        if not fin.get("t_%d" % i, True):
            t[i] = fill
        if not fin.get("rv_%d" % i, True):
            rv[i] = np.inf if fill != fill else fill
    if shape["kind"] == "1d":
        err = np.array([abs(f(x)) or 1.0 for x in m["err"]])
        for i in range(nt):
            if not fin.get("err_%d" % i, True):
                err[i] = np.nan
        err_q = err * eunit
    else:
        cov = np.array([[f(x) for x in r] for r in m["cov"]])
        for i in range(nt):
            for j in range(nt):
                if not fin.get("cov_%d_%d" % (i, j), True):
                    cov[i, j] = np.nan
        err_q = cov * eunit ** 2
    if shape["tref"] == "explicit":
        t_ref = Time(f(m.get("t_ref", "0")) + 55000.0, format="mjd", scale="utc")
    elif shape["tref"] == "false":
        t_ref = False
    else:
        t_ref = None
    keep = np.ones(nt, bool)
    if shape["clean"]:
        keep = np.isfinite(t) & np.isfinite(rv)
        keep &= np.isfinite(err_q.value) if shape["kind"] == "1d" else np.isfinite(err_q.value).all(axis=0)
    t_in, rv_in, err_in = t.copy(), rv.copy(), np.array(err_q.value, copy=True)
    try:
        as_time = (nt % 2 == 0) if shape.get("tin") is None else shape["tin"] == "time"
        d = RVData(Time(t, format="mjd", scale=shape.get("tscale", "tcb")) if as_time else t, rv * vunit, err_q, t_ref=t_ref, clean=shape["clean"])
    except Exception as e:
        if not keep.any():
            return {"reproduced": False, "detail": "constructor raised on all-non-finite input (allowed)"}
        return {"reproduced": True, "detail": "RVData(...) raised %s: %s" % (type(e).__name__, str(e)[:200])}
    bad = []
    if as_time and shape.get("tscale", "tcb") != "tcb":
        # expectations are stated on TCB, the scale RVData stores
        okf = np.isfinite(t)
        t_tcb = t.copy()
        t_tcb[okf] = Time(t[okf], format="mjd", scale=shape["tscale"]).tcb.mjd
        t_in = t_in.copy()
        t_in[okf] = t_tcb[okf]
        t = t_tcb
    if not (np.array_equal(t, t_in, equal_nan=True) and np.array_equal(rv, rv_in, equal_nan=True) and np.array_equal(np.asarray(err_q.value), err_in, equal_nan=True)):
        bad.append("the constructor modified the caller's input arrays (t %s -> %s)" % (t_in.tolist(), t.tolist()))
        t, rv = t_in.copy(), rv_in.copy()
        err_q = err_in * err_q.unit
    if not keep.any():
        ok = len(d) == 0
        return {"reproduced": not ok, "detail": "no finite observation: RVData holds %d rows" % len(d)}

    def rows(obj):
        tt = np.asarray(obj._t_bmjd, float)
        rr = obj.rv.to_value(vunit)
        ee = obj.rv_err.value
        return tt, rr, ee

    def expect_rows(tt, rr, ee, sel):
        order = np.argsort(tt[sel], kind="stable")
        idx = np.where(sel)[0][order] if sel.dtype == bool else np.asarray(sel)[order]
        return idx

    def same_obs(obj, tt, rr, ee, idx, what):
        to, ro, eo = rows(obj)
        if len(to) != len(idx):
            bad.append("%s: %d observations, expected %d" % (what, len(to), len(idx)))
            return
        # compare as multisets of rows (ties in time may be ordered either way)
        exp = sorted(zip(tt[idx].tolist(), rr[idx].tolist(), (ee[idx].tolist() if ee.ndim == 1 else [0] * len(idx))), key=lambda r: [x if x == x else 1e308 for x in r])
        got = sorted(zip(to.tolist(), ro.tolist(), (eo.tolist() if eo.ndim == 1 else [0] * len(to))), key=lambda r: [x if x == x else 1e308 for x in r])
        if not np.allclose(np.array(exp, float), np.array(got, float), rtol=1e-12, atol=0, equal_nan=True):
            bad.append("%s: rows %s, expected %s" % (what, got, exp))
        if np.any(np.diff(to[np.isfinite(to)]) < 0) and shape["clean"]:
            bad.append("%s: times not sorted %s" % (what, to.tolist()))
        if ee.ndim == 2 and len(set(rr[idx].tolist())) == len(idx):
            pos = {v: i for i, v in zip(idx, rr[idx].tolist())}
            for a, va in enumerate(ro.tolist()):
                for b, vb in enumerate(ro.tolist()):
                    if va in pos and vb in pos and not np.isclose(eo[a, b], ee[pos[va], pos[vb]], rtol=1e-12, atol=0, equal_nan=True):
                        bad.append("%s: covariance entry (%d,%d) does not belong to its observations" % (what, a, b))
        if obj.rv.unit != vunit:
            bad.append("%s: rv unit %s" % (what, obj.rv.unit))
    ev = err_q.value
    idx0 = expect_rows(t, rv, ev, keep)
    same_obs(d, t, rv, ev, idx0, "init")
    if not bad:
        if shape["tref"] == "default":
            if d.t_ref is None or not np.isclose(d.t_ref.tcb.mjd, np.min(t[keep]), rtol=0, atol=1e-9) or not np.isclose(d._t_ref_bmjd, np.min(t[keep]), rtol=0, atol=1e-9):
                bad.append("default t_ref %r is not the earliest kept time %r" % (d.t_ref, np.min(t[keep])))
        elif shape["tref"] == "explicit":
            if d.t_ref is None or not np.isclose(d.t_ref.tcb.mjd, t_ref.tcb.mjd, atol=1e-9) or not np.isclose(d._t_ref_bmjd, t_ref.tcb.mjd, atol=1e-9):
                bad.append("explicit t_ref not stored")
        else:
            if d.t_ref is not None or d._t_ref_bmjd != 0.0:
                bad.append("t_ref=False not honoured")
        td, rd, ed = rows(d)
        if shape["kind"] == "1d":
            try:
                if not np.allclose(d.ivar.to_value(1 / eunit ** 2) * ed ** 2, 1.0, rtol=1e-9, equal_nan=True):
                    bad.append("ivar is not 1/err^2")
                if not np.allclose(d.cov.to_value(eunit ** 2), np.diag(ed ** 2), rtol=1e-12, equal_nan=True):
                    bad.append("cov is not diag(err^2)")
            except Exception as e:
                bad.append("ivar/cov have the wrong unit or raise: %s" % str(e)[:120])
        else:
            try:
                iv = d.ivar.to_value(1 / eunit ** 2)
                if np.all(np.isfinite(ed)) and np.linalg.cond(ed) < 1e8 and not np.allclose(iv @ ed, np.eye(len(ed)), atol=1e-6):
                    bad.append("ivar is not the inverse covariance")
            except np.linalg.LinAlgError:
                pass
            except Exception as e:
                bad.append("ivar has the wrong unit or raises: %s" % str(e)[:120])
        c = d.copy()
        same_obs(c, td, rd, ed, np.arange(len(td)), "copy")
        if (d.t_ref is None) != (c.t_ref is None) or (d.t_ref is not None and not np.isclose(c.t_ref.tcb.mjd, d.t_ref.tcb.mjd, atol=1e-9)) or not np.isclose(c._t_ref_bmjd, d._t_ref_bmjd, atol=1e-9):
            bad.append("copy() changed the reference epoch: %r -> %r" % (d.t_ref, c.t_ref))
        n = len(td)
        sl = [slice(0, 1)] + ([slice(1, None), slice(None, None, 2), slice(None, None, -1), np.array([n - 1, 0])] if n >= 2 else [])
        for s in sl:
            try:
                same_obs(d[s], td, rd, ed, np.arange(n)[s], "subset %s" % (s,))
            except Exception as e:
                bad.append("subset %s raised %s: %s" % (s, type(e).__name__, str(e)[:120]))
        if n >= 3:
            # boolean-mask and index-array subsets (same rows as in the symbolic shapes)
            mask = np.array([True] + [False] * (n - 2) + [True])
            for what_, sel_ in (("mask", mask), ("index array", np.array([0, n - 1]))):
                try:
                    sub = d[sel_]
                    if shape["kind"] == "cov" and (sub.rv_err.ndim != 2 or sub.rv_err.shape != (2, 2) or not sub.rv_err.unit.is_equivalent(d.rv_err.unit)):
                        bad.append("%s subset of covariance data holds rv_err of shape %s, unit %s" % (what_, sub.rv_err.shape, sub.rv_err.unit))
                    else:
                        same_obs(sub, td, rd, ed, np.array([0, n - 1]), "subset by %s" % what_)
                except Exception as e:
                    bad.append("subset by %s raised %s: %s" % (what_, type(e).__name__, str(e)[:120]))
    return {"reproduced": bool(bad), "detail": "; ".join(bad)[:900] or "real RVData agrees with the property"}
