"""C17 -- sample-table operations preserve the physical orbit and its metadata.

Real code executed symbolically (current tree): thejoker/samples.py JokerSamples.__init__,
__getitem__, __setitem__, wrap_K, get_time_with_phase / get_t0, pack, unpack, copy, _apply / mean,
median_period.  Symbolic: every table cell (K of either sign, any angle), unit scales (P in a
symbolic time unit, omega in rad or deg), the reference epoch, the requested phase, the
argpartition permutation.  Concrete per shape: number of rows, operation, index expression.
`x % (2 pi)` is exact floor arithmetic on the float constants numpy uses.
"""
import math
from fractions import Fraction

from symx import core, stack, symnp, units
from symx.core import z3
from symx.framework import new_result, VCSink, fill_explorer, add_witness

PROPERTY = "C17"
LEVEL = "model_checking"
FUNCTIONS = [("thejoker/samples.py", "JokerSamples.wrap_K"), ("thejoker/samples.py", "JokerSamples.get_time_with_phase"),
             ("thejoker/samples.py", "JokerSamples.get_t0"), ("thejoker/samples.py", "JokerSamples.pack"),
             ("thejoker/samples.py", "JokerSamples.unpack"), ("thejoker/samples.py", "JokerSamples.__getitem__"),
             ("thejoker/samples.py", "JokerSamples.__setitem__"), ("thejoker/samples.py", "JokerSamples.__init__"),
             ("thejoker/samples.py", "JokerSamples.copy"), ("thejoker/samples.py", "JokerSamples._apply"),
             ("thejoker/samples.py", "JokerSamples.median_period")]
ASSUMPTIONS = [
    "astropy QTable/Row by contract (symx.tables): columns of Quantity + meta dict; slicing, masking, integer indexing and copy() carry a copy of meta",
    "curve invariance of (K, omega) -> (-K, omega + pi) is the trusted identity cos(x + pi) = -cos x; the check proves the code performs exactly that map (mod 2 pi, into [0, 2 pi)) on rows with K < 0 and nothing on the others",
    "np.pi is the float constant; x % m = x - m*floor(x/m) exactly; np.argpartition(a,k)[k]: index of a k-th order statistic (modelled by any sorting permutation)",
    "bounds: <= 3 rows; units: P in a symbolic time unit or days, omega/M0 in rad or deg, velocities km/s or m/s",
]


def bounds(tier):
    return {"rows": [1, 3 if tier == "quick" else 5], "ops": ["wrap_K", "get_time_with_phase", "get_t0", "pack/unpack", "index int/neg int/slice/mask/array", "copy", "mean", "median_period"]}


def shapes(tier):
    out = []
    for n in ((1, 2, 3) if tier == "quick" else (1, 2, 3, 4, 5)):
        for om in ("rad", "deg"):
            out.append({"op": "wrap_K", "n": n, "omega_unit": om})
        for punit in ("day", "sym"):
            for ang in ("rad", "deg"):
                out.append({"op": "time_with_phase", "n": n, "P_unit": punit, "angle_unit": ang})
        for nl_only in (True, False):
            out.append({"op": "pack_unpack", "n": n, "nonlinear_only": nl_only})
        out.append({"op": "index", "n": n})
        out.append({"op": "reduce", "n": n})
    # a library whose first column was stored at single precision (the other columns are doubles)
    out.append({"op": "pack_unpack", "n": 2, "nonlinear_only": True, "P_dtype": "float32"})
    out.append({"op": "pack_unpack", "n": 1, "nonlinear_only": False, "P_dtype": "float32"})
    # reductions of a table stored in non-default units (the result keeps the table's units)
    out.append({"op": "reduce", "n": 2, "P_unit": "sym", "omega_unit": "deg", "angle_unit": "deg"})
    # call history on one object: times asked for, then M0 / P re-assigned, then asked again
    out.append({"op": "time_with_phase", "n": 2, "P_unit": "day", "angle_unit": "rad", "history": "setitem"})
    out.append({"op": "time_with_phase", "n": 1, "P_unit": "sym", "angle_unit": "deg", "history": "setitem"})
    return out


COLS = ["P", "e", "omega", "M0", "s", "K", "v0", "v1"]


def _mk_samples(st, shape, n, omega_unit="rad", P_unit="day", angle_unit=None, with_tref=True):
    JS = st.samples.JokerSamples
    kms = units.km / units.s
    if P_unit == "sym":
        pu = units.sym_unit("P", units.day)
    else:
        pu = units.day
    au = {"rad": units.rad, "deg": units.deg}
    un = {"P": pu, "e": units.one, "omega": au[omega_unit], "M0": au[angle_unit or "rad"], "s": units.m / units.s, "K": kms,
          "v0": kms, "v1": kms / units.day}
    tref = units.Time(core.real("t_ref")) if with_tref else None
    s = JS(poly_trend=2, n_offsets=0, t_ref=tref)
    cells = {}
    for c in COLS:
        cells[c] = [core.real("%s_%d" % (c, i)) for i in range(n)]
        s[c] = units.Quantity(symnp.SymArray(symnp._obj(cells[c]), symnp._F4 if (c == "P" and shape.get("P_dtype") == "float32") else symnp._F8), un[c])
    for i in range(n):
        core.assume(cells["P"][i] > 0)
    return s, cells, un, tref


def _desc(cells, extra=None):
    def d(m):
        out = {c: [str(core.model_value(m, x)) for x in v] for c, v in cells.items()}
        if extra:
            for k, v in extra.items():
                out[k] = str(core.model_value(m, v)) if core.is_sym(v) else v
        return out
    return d


def _meta_ok(obj, tref, poly=2, noff=0):
    """t_ref / poly_trend / n_offsets survive"""
    tr = obj.t_ref
    if tref is None:
        ok = tr is None
        cl = z3.BoolVal(bool(ok))
    else:
        cl = core.lift(tr._v == tref._v) if isinstance(tr, units.Time) else z3.BoolVal(False)
    return z3.And(cl, z3.BoolVal(obj.poly_trend == poly and obj.n_offsets == noff))


def _col_cells(obj, c):
    q = obj.tbl[c]
    v = q.value
    return (list(v.a.flat) if isinstance(v, symnp.SymArray) else [v]), q.unit


def run_shape(shape, tier):
    res = new_result(shape)
    sink = VCSink(res, PROPERTY)
    st = stack.Stack(load=("prior_helpers", "likelihood_helpers", "samples"))
    n = shape["n"]
    op = shape["op"]
    L = core.lift
    PI = Fraction(repr(math.pi))
    TWOPI = Fraction(repr(2 * math.pi))

    def harness():
        if op == "wrap_K":
            s, cells, un, tref = _mk_samples(st, shape, n, omega_unit=shape["omega_unit"])
            out = s.wrap_K()
            return s, cells, un, tref, out
        if op == "time_with_phase":
            s, cells, un, tref = _mk_samples(st, shape, n, P_unit=shape["P_unit"], angle_unit=shape["angle_unit"])
            ph = core.real("phase")
            phq = units.Quantity(ph, {"rad": units.rad, "deg": units.deg}[shape["angle_unit"]])
            if shape.get("history"):
                s.get_t0()
                s.get_time_with_phase(units.Quantity(core.real("phase_before"), units.rad))
                for c in ("M0", "P"):
                    cells[c] = [core.real("%s_new_%d" % (c, i)) for i in range(n)]
                    s[c] = units.Quantity(symnp.SymArray(symnp._obj(cells[c]), symnp._F8), un[c])
                for i in range(n):
                    core.assume(cells["P"][i] > 0)
            T = s.get_time_with_phase(phq)
            T0 = s.get_t0()
            # error protocol
            errs = []
            try:
                s.get_time_with_phase(phq, t_ref=units.Time(core.real("other")))
                errs.append("no error when t_ref passed although the object has one")
            except ValueError:
                pass
            s2, _, _, _ = _mk_samples(st, shape, 1, with_tref=False)
            try:
                s2.get_t0()
                errs.append("no error without any reference time")
            except ValueError:
                pass
            return s, cells, un, tref, (T, T0, ph, errs)
        if op == "pack_unpack":
            s, cells, un, tref = _mk_samples(st, shape, n)
            tgt = {"P": units.year, "K": units.m / units.s, "omega": units.deg}
            packed, ou = s.pack(units=dict(tgt), nonlinear_only=shape["nonlinear_only"])
            back = st.samples.JokerSamples.unpack(packed, ou, t_ref=s.t_ref, poly_trend=s.poly_trend, n_offsets=s.n_offsets)
            packed2, ou2 = s.pack(nonlinear_only=shape["nonlinear_only"])
            return s, cells, un, tref, (packed, ou, back, packed2, ou2)
        if op == "index":
            s, cells, un, tref = _mk_samples(st, shape, n)
            outs = [("int0", s[0], [0]), ("int-1", s[-1], [n - 1]), ("slice", s[0:n:2], list(range(0, n, 2))), ("copy", s.copy(), list(range(n)))]
            if n >= 2:
                outs.append(("slice1:", s[1:], list(range(1, n))))
                mask = symnp.SymArray(symnp._obj([True] + [False] * (n - 2) + [True]), symnp._B1)
                outs.append(("mask", s[mask], [0, n - 1]))
                outs.append(("array", s[symnp.SymArray(symnp._obj([n - 1, 0]), symnp._I8)], [n - 1, 0]))
            col = s["P"]
            return s, cells, un, tref, (outs, col)
        if op == "reduce":
            s, cells, un, tref = _mk_samples(st, shape, n, omega_unit=shape.get("omega_unit", "rad"), P_unit=shape.get("P_unit", "day"), angle_unit=shape.get("angle_unit"))
            return s, cells, un, tref, (s.mean(), s.median_period())
        raise ValueError(op)

    ex = core.Explorer(max_paths=3000, solver_timeout_ms=60000)
    twin = False
    for path in ex.paths(harness):
        core.Ctx.cur = path.ctx
        try:
            r, _, _ = path.check(core.SB(z3.BoolVal(False)))
            twin = twin or r == "sat"
            if path.raised is not None:
                sink.check(path, op + ".no_exception", core.SB(z3.BoolVal(False)), site=op, describe=lambda m: {"raised": repr(path.raised)[:300]})
                continue
            s, cells, un, tref, out = path.result
            desc = _desc(cells)
            if op == "wrap_K":
                Kc, Ku = _col_cells(s, "K")
                Oc, Ou = _col_cells(s, "omega")
                f = Ou.to(units.rad)   # omega unit -> rad
                cl = [z3.BoolVal(out is s), Ku.same_as(un["K"]), Ou.same_as(un["omega"])]
                for i in range(n):
                    k0, o0 = L(cells["K"][i]), L(cells["omega"][i])
                    k1, o1 = L(Kc[i]), L(Oc[i])
                    kk = z3.Int("wrapk_%d" % i)
                    o0r, o1r = o0 * L(f), o1 * L(f)
                    neg = z3.And(k1 == -k0, o1r >= 0, o1r < L(TWOPI), z3.Exists([kk], o1r == o0r + L(PI) - z3.ToReal(kk) * L(TWOPI)))
                    cl.append(z3.If(k0 < 0, neg, z3.And(k1 == k0, o1 == o0)))
                    for c in COLS:
                        if c not in ("K", "omega"):
                            cc, cu = _col_cells(s, c)
                            cl.append(z3.And(L(cc[i]) == L(cells[c][i])))
                # quantifier-free form: floor
                cl2 = []
                for i in range(n):
                    k0, o0 = L(cells["K"][i]), L(cells["omega"][i])
                    k1, o1 = L(Kc[i]), L(Oc[i])
                    x = (o0 * L(f) + L(PI))
                    wrapped = x - L(TWOPI) * z3.ToReal(z3.ToInt(x / L(TWOPI)))
                    cl2.append(z3.If(k0 < 0, z3.And(k1 == -k0, o1 * L(f) == wrapped), z3.And(k1 == k0, o1 == o0)))
                    for c in COLS:
                        if c not in ("K", "omega"):
                            cc, cu = _col_cells(s, c)
                            cl2.append(L(cc[i]) == L(cells[c][i]))
                cl2 += [z3.BoolVal(out is s), Ku.same_as(un["K"]), Ou.same_as(un["omega"]), _meta_ok(s, tref)]
                sink.check(path, "wrap_K", core.SB(z3.And(cl2)), site="wrap_K", describe=desc)
            elif op == "time_with_phase":
                T, T0, ph, errs = out
                sink.check(path, "time_with_phase.errors", core.SB(z3.BoolVal(not errs)), site="get_time_with_phase", describe=lambda m: {"errors": errs})
                au = {"rad": units.rad, "deg": units.deg}[shape["angle_unit"]]
                fa = au.to(units.rad)
                fp = un["P"].to(units.day)
                for tag, TT, phase in (("time_with_phase", T, ph), ("get_t0", T0, 0)):
                    tv = TT.tcb._v if isinstance(TT, units.Time) else None       # compared on one time scale (the epoch is given in UTC)
                    tc = list(tv.a.flat) if isinstance(tv, symnp.SymArray) else ([tv] if tv is not None else None)
                    if tc is None or len(tc) != n:
                        sink.check(path, tag, core.SB(z3.BoolVal(False)), site="get_time_with_phase", describe=desc)
                        continue
                    cl = []
                    for i in range(n):
                        # mean anomaly at T: 2 pi (T - t_ref)/P - M0 == phase   <=>  2 pi (T - t_ref) == P (M0 + phase)
                        Pd = cells["P"][i] * fp
                        lhs = (tc[i] - tref.tcb._v) * (2 * math.pi)
                        rhs = Pd * ((cells["M0"][i] + phase) * fa)
                        cl.append(L(lhs) == L(rhs))
                    sink.check(path, tag, core.SB(z3.And(cl)), site="get_time_with_phase", describe=_desc(cells, {"phase": ph}))
            elif op == "pack_unpack":
                packed, ou, back, packed2, ou2 = out
                names = list(ou.keys())
                exp_names = ["P", "e", "omega", "M0", "s"] if shape["nonlinear_only"] else COLS
                cl = [z3.BoolVal(names == exp_names and isinstance(packed, symnp.SymArray) and packed.a.shape == (n, len(exp_names)))]
                if names == exp_names and packed.a.shape == (n, len(exp_names)):
                    for j, c in enumerate(names):
                        f_in = un[c]
                        f = f_in.to(ou[c])
                        for i in range(n):
                            cl.append(L(packed.a[i, j]) == L(cells[c][i] * f))     # converted to the requested unit
                        bc, bu = _col_cells(back, c)
                        cl.append(bu.same_as(ou[c]))
                        for i in range(n):
                            cl.append(L(bc[i] * bu.to(f_in)) == L(cells[c][i]))   # physically the same value
                    cl.append(z3.BoolVal(back.tbl.colnames == names))
                    cl.append(_meta_ok(back, tref))
                    # without explicit units: nonlinear columns in internal units, others as stored
                    n2 = list(ou2.keys())
                    cl.append(z3.BoolVal(n2 == exp_names))
                pref = []
                if shape.get("P_dtype"):
                    # candidate inputs that a single-precision store cannot hold exactly
                    for k, c in enumerate(COLS):
                        pref += [L(x) == z3.RealVal("%d/%d" % (k + i + 1, 3 * (k + i) + 7)) for i, x in enumerate(cells[c])]
                sink.check(path, "pack_unpack", core.SB(z3.And(cl)), site="pack/unpack", describe=desc, prefer=pref)
            elif op == "index":
                outs, col = out
                cl = [z3.BoolVal(col is s.tbl["P"])]
                sink.check(path, "index.str", core.SB(z3.And(cl)), site="__getitem__", describe=desc)
                for tag, o, rows in outs:
                    ok = hasattr(o, "tbl") and o.tbl.colnames == COLS and len(o) == len(rows)
                    cl = [z3.BoolVal(bool(ok))]
                    if ok:
                        for c in COLS:
                            cc, cu = _col_cells(o, c)
                            cl.append(cu.same_as(un[c]))
                            ok2 = len(cc) == len(rows)
                            cl.append(z3.BoolVal(ok2))
                            if ok2:
                                for a, i in enumerate(rows):
                                    cl.append(L(cc[a]) == L(cells[c][i]))
                        cl.append(_meta_ok(o, tref))
                    sink.check(path, "index." + tag, core.SB(z3.And(cl)), site="__getitem__" if tag != "copy" else "copy", describe=_desc(cells, {"index": tag}))
            elif op == "reduce":
                mean, med = out
                ok = hasattr(mean, "tbl") and mean.tbl.colnames == COLS and len(mean) == 1
                cl = [z3.BoolVal(bool(ok))]
                if ok:
                    for c in COLS:
                        cc, cu = _col_cells(mean, c)
                        cl.append(cu.same_as(un[c]))
                        cl.append(L(cc[0]) * n == L(core.sym_sum(cells[c])))
                    cl.append(_meta_ok(mean, tref))
                sink.check(path, "mean", core.SB(z3.And(cl)), site="_apply", describe=desc)
                ok = hasattr(med, "tbl") and med.tbl.colnames == COLS and len(med) == 1
                cl = [z3.BoolVal(bool(ok))]
                if ok:
                    member = []
                    Ps = cells["P"]
                    for i in range(n):
                        same = [L(_col_cells(med, c)[0][0]) == L(cells[c][i]) for c in COLS]
                        below = z3.Sum([z3.If(L(Ps[j]) < L(Ps[i]), 1, 0) for j in range(n)])
                        beloweq = z3.Sum([z3.If(L(Ps[j]) <= L(Ps[i]), 1, 0) for j in range(n)])
                        member.append(z3.And(same + [below <= n // 2, beloweq >= n // 2 + 1]))
                    cl.append(z3.Or(member))
                    for c in COLS:
                        cl.append(_col_cells(med, c)[1].same_as(un[c]))
                    cl.append(_meta_ok(med, tref))
                sink.check(path, "median_period", core.SB(z3.And(cl)), site="median_period", describe=desc)
            add_witness(res, path, desc, site=op, limit=1)
        finally:
            core.Ctx.cur = None
    res["twin_ok"] = twin
    fill_explorer(res, ex)
    return res


# ---------------------------------------------------------------------------------------------

def replay(cand):
    import numpy as np
    import astropy.units as u
    from astropy.time import Time
    from thejoker.samples import JokerSamples
    m = cand.get("model") or {}
    shape = cand["shape"]
    if "P" not in m:
        return {"reproduced": False, "detail": "no concrete input: %s" % str(m)[:200]}
    f = lambda x: float(Fraction(x))
    n = shape["n"]
    op = shape["op"]
    au = {"rad": u.rad, "deg": u.deg}
    un = {"P": u.day, "e": u.one, "omega": au[shape.get("omega_unit", "rad")], "M0": au[shape.get("angle_unit") or "rad"], "s": u.m / u.s,
          "K": u.km / u.s, "v0": u.km / u.s, "v1": u.km / u.s / u.day}
    if shape.get("P_unit") == "sym":
        un["P"] = u.def_unit("psym", 3.7 * u.hour)
    tref = Time(57000.0 + f(m.get("t_ref", "0")) if "t_ref" in m else 57000.0, format="mjd", scale="utc")     # a non-TCB epoch, as in the model
    s = JokerSamples(poly_trend=2, n_offsets=0, t_ref=tref)
    raw = {}
    for c in COLS:
        raw[c] = np.array([f(x) for x in m[c]], dtype=float)
        if c == "P":
            raw[c] = np.abs(raw[c]) + (raw[c] == 0)
            if shape.get("P_dtype") == "float32":
                raw[c] = raw[c].astype(np.float32)
        s[c] = raw[c] * un[c]
    bad = []

    def meta_ok(o, what):
        if o.t_ref is None or abs(o.t_ref.tcb.mjd - tref.tcb.mjd) > 1e-9 or o.poly_trend != 2 or o.n_offsets != 0:
            bad.append("%s lost metadata (t_ref=%r poly_trend=%r n_offsets=%r)" % (what, o.t_ref, o.poly_trend, o.n_offsets))
    try:
        if op == "wrap_K":
            o = s.wrap_K()
            K1 = o["K"].to_value(un["K"])
            om1 = o["omega"].to_value(u.rad)
            om0 = (raw["omega"] * un["omega"]).to_value(u.rad)
            for i in range(n):
                if raw["K"][i] < 0:
                    d = (om1[i] - om0[i] - np.pi) / (2 * np.pi)
                    if not (np.isclose(K1[i], -raw["K"][i]) and abs(d - round(d)) < 1e-9 and -1e-12 <= om1[i] < 2 * np.pi + 1e-9):
                        bad.append("row %d: K=%r omega=%r rad -> K=%r omega=%r rad is not (|K|, omega+pi mod 2pi)" % (i, raw["K"][i], om0[i], K1[i], om1[i]))
                elif not (K1[i] == raw["K"][i] and np.isclose(om1[i], om0[i], rtol=1e-14, atol=0)):
                    bad.append("row %d with K>=0 was modified" % i)
            if o["omega"].unit != un["omega"]:
                bad.append("omega unit changed")
            meta_ok(o, "wrap_K")
        elif op == "time_with_phase":
            ph = f(m.get("phase", "0")) * au[shape["angle_unit"]]
            if shape.get("history"):
                # the shape's call history: the model's rows are the re-assigned ones; other values were there when first asked
                for c, off in (("M0", 1.0), ("P", 2.5)):
                    s[c] = (raw[c] + off) * un[c]
                s.get_t0()
                s.get_time_with_phase(0.3 * u.rad)
                for c in ("M0", "P"):
                    s[c] = raw[c] * un[c]
            for what, T, phase in (("get_time_with_phase", s.get_time_with_phase(ph), ph), ("get_t0", s.get_t0(), 0 * u.rad)):
                T = np.atleast_1d(T.tcb.mjd)
                Pd = (raw["P"] * un["P"]).to_value(u.day)
                M0 = (raw["M0"] * un["M0"]).to_value(u.rad)
                want = tref.tcb.mjd + Pd * (M0 + phase.to_value(u.rad)) / (2 * np.pi)
                if len(T) != n or not np.allclose(T, want, rtol=0, atol=1e-6 * max(1.0, np.max(np.abs(Pd)))):
                    bad.append("%s: %s, expected %s" % (what, T.tolist(), want.tolist()))
        elif op == "pack_unpack":
            tgt = {"P": u.year, "K": u.m / u.s, "omega": u.deg}
            packed, ou = s.pack(units=dict(tgt), nonlinear_only=shape["nonlinear_only"])
            back = JokerSamples.unpack(packed, ou, t_ref=s.t_ref, poly_trend=2, n_offsets=0)
            names = ["P", "e", "omega", "M0", "s"] if shape["nonlinear_only"] else COLS
            if list(ou.keys()) != names or back.tbl.colnames != names:
                bad.append("names %s / %s, expected %s" % (list(ou.keys()), back.tbl.colnames, names))
            else:
                for j, c in enumerate(names):
                    # a column that was stored at single precision is converted at single precision by numpy itself
                    rtol = 2e-6 if (c == "P" and shape.get("P_dtype") == "float32") else 1e-12
                    if not np.allclose(packed[:, j], (raw[c] * un[c]).to_value(ou[c]), rtol=rtol):
                        bad.append("packed column %s not in requested unit" % c)
                    if not np.allclose(back[c].to_value(un[c]), raw[c], rtol=rtol):
                        bad.append("pack->unpack changed %s" % c)
            meta_ok(back, "unpack")
        elif op == "index":
            cases = [("int0", lambda: s[0], [0]), ("int-1", lambda: s[-1], [n - 1]), ("slice", lambda: s[0:n:2], list(range(0, n, 2))), ("copy", lambda: s.copy(), list(range(n)))]
            if n >= 2:
                cases += [("slice1:", lambda: s[1:], list(range(1, n))), ("mask", lambda: s[np.array([True] + [False] * (n - 2) + [True])], [0, n - 1]),
                          ("array", lambda: s[np.array([n - 1, 0])], [n - 1, 0])]
            for tag, fn, rows in cases:
                o = fn()
                if len(o) != len(rows):
                    bad.append("%s: %d rows, expected %d" % (tag, len(o), len(rows)))
                    continue
                for c in COLS:
                    if not np.allclose(np.atleast_1d(o[c].to_value(un[c])), raw[c][rows], rtol=1e-14, atol=0) or o[c].unit != un[c]:
                        bad.append("%s: column %s wrong" % (tag, c))
                meta_ok(o, tag)
        elif op == "reduce":
            mean = s.mean()
            for c in COLS:
                if not np.allclose(np.atleast_1d(mean[c].to_value(un[c])), raw[c].mean(), rtol=1e-10, atol=1e-12):
                    bad.append("mean of %s wrong" % c)
                if mean[c].unit != un[c]:
                    bad.append("mean() returns %s in %s, the table stores it in %s" % (c, mean[c].unit, un[c]))
            meta_ok(mean, "mean")
            med = s.median_period()
            if len(med) != 1:
                bad.append("median_period returned %d rows instead of one member row (P=%s)" % (len(med), raw["P"].tolist()))
            Pm = float(np.atleast_1d(med["P"].to_value(un["P"]))[0])
            srt = np.sort(raw["P"])
            if not np.isclose(Pm, srt[n // 2], rtol=1e-14):
                bad.append("median_period P=%r, order statistic %r" % (Pm, srt[n // 2]))
            hit = [i for i in range(n) if all(np.isclose(float(np.atleast_1d(med[c].to_value(un[c]))[0]), raw[c][i], rtol=1e-14, atol=0) for c in COLS)]
            if not hit:
                bad.append("median_period row is not a member row")
            meta_ok(med, "median_period")
    except Exception as e:
        return {"reproduced": True, "detail": "%s raised %s: %s" % (op, type(e).__name__, str(e)[:200])}
    return {"reproduced": bool(bad), "detail": "; ".join(bad[:4])[:900] or "real build agrees with the property"}
