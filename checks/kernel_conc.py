"""Concrete validation of the .pyx transliteration: the transliterated kernel (numpy + scipy LAPACK +
twobody) against the compiled extension on a small corpus of real problems.  Also the staleness
detector between fast_likelihood.pyx and the compiled .so (Cython is not available in the sandbox, so
.pyx -> .c cannot be regenerated)."""
import warnings


def corpus(seed=0):
    import numpy as np
    import astropy.units as u
    import pymc as pm
    import thejoker as tj
    import thejoker.units as xu
    from astropy.time import Time
    rng = np.random.default_rng(100 + seed)

    def mk(n, off=0.0, unit=u.km / u.s):
        t = Time(59000 + np.sort(rng.uniform(0, 300, n)), format="mjd", scale="tcb")
        return tj.RVData(t, ((rng.normal(0, 10, n) + off) * u.km / u.s).to(unit), (rng.uniform(0.5, 2, n) * u.km / u.s).to(unit))
    cases = []
    # 1: default prior, poly_trend 1, no jitter
    prior = tj.JokerPrior.default(P_min=2 * u.day, P_max=256 * u.day, sigma_K0=30 * u.km / u.s, sigma_v=100 * u.km / u.s)
    cases.append(("default", mk(5), prior))
    # 2: poly_trend 2, one offset, fixed jitter
    with pm.Model():
        dv = xu.with_unit(pm.Normal("dv0_1", 1.0, 5.0), u.km / u.s)
        prior = tj.JokerPrior.default(P_min=2 * u.day, P_max=256 * u.day, sigma_v=[100 * u.km / u.s, 1 * u.km / u.s / u.day],
                                      sigma_K0=30 * u.km / u.s, v0_offsets=[dv], poly_trend=2, s=2 * u.km / u.s)
    cases.append(("trend2+offset+jitter", [mk(5), mk(3, 5.0)], prior))
    # 3: custom Normal K prior, data in m/s
    with pm.Model():
        K = xu.with_unit(pm.Normal("K", 0.0, 20.0), u.km / u.s)
        prior = tj.JokerPrior.default(P_min=2 * u.day, P_max=256 * u.day, sigma_v=50 * u.km / u.s, pars={"K": K})
    cases.append(("customK,m/s", mk(4, unit=u.m / u.s), prior))
    return cases


def run(seed=0):
    import numpy as np
    import thejoker as tj
    from thejoker.data_helpers import validate_prepare_data
    from symx import pyxfront
    warnings.simplefilter("ignore")
    g = pyxfront.load_concrete()
    PyHelper = g["CJokerHelper"]
    out = {"runs": 0, "max_ll_diff": 0.0, "max_aA_diff": 0.0, "problems": []}
    for name, data, prior in corpus(seed):
        joker = tj.TheJoker(prior, rng=np.random.default_rng(2))
        s = prior.sample(size=6, rng=np.random.default_rng(1 + seed))
        all_data, ids, trend_M = validate_prepare_data(data, prior.poly_trend, prior.n_offsets)
        real = joker._make_joker_helper(data)
        mine = PyHelper(all_data, prior, np.ascontiguousarray(trend_M))
        chunk, _ = s.pack(units=real.internal_units, names=real.packed_order)
        a = np.array(real.batch_marginal_ln_likelihood(chunk))
        b = np.array(mine.batch_marginal_ln_likelihood(chunk))
        d = float(np.nanmax(np.abs(a - b) / np.maximum(1.0, np.abs(a))))
        same_nan = np.array_equal(np.isnan(a), np.isnan(b))

        class Rec:
            def multivariate_normal(self, mean, cov, size):
                self.args = (np.array(mean), np.array(cov))
                return np.zeros((size, len(mean)))
        r1, r2 = Rec(), Rec()
        s1, _ = real.batch_get_posterior_samples(chunk[:2], 2, r1)
        s2, _ = mine.batch_get_posterior_samples(chunk[:2], 2, r2)
        d2 = float(max(np.nanmax(np.abs(r1.args[0] - r2.args[0]) / np.maximum(1, np.abs(r1.args[0]))),
                       np.nanmax(np.abs(r1.args[1] - r2.args[1]) / np.maximum(1, np.abs(r1.args[1]))),
                       np.nanmax(np.abs(np.asarray(s1) - np.asarray(s2)))))
        out["runs"] += 2
        out["max_ll_diff"] = max(out["max_ll_diff"], d)
        out["max_aA_diff"] = max(out["max_aA_diff"], d2)
        if not (d < 1e-8 and d2 < 1e-8 and same_nan):
            out["problems"].append("%s: ll rel diff %.3g, (a,A) diff %.3g" % (name, d, d2))
    return out


if __name__ == "__main__":
    print(run())


import contextlib


@contextlib.contextmanager
def use_pyx_interp():
    """run the public API on the .pyx AS WRITTEN: thejoker.thejoker.CJokerHelper is replaced by the transliterated
    kernel executed concretely (numpy + scipy LAPACK + twobody).  Used by replays: a counterexample counts if it
    reproduces on an executable derived from the current tree -- the compiled extension or the source as written."""
    import numpy as np
    import thejoker.thejoker as tjm
    from symx import pyxfront
    g = pyxfront.load_concrete()
    Py = g["CJokerHelper"]

    def factory(data, prior, trend_M):
        return Py(data, prior, np.ascontiguousarray(trend_M))
    old = tjm.CJokerHelper
    tjm.CJokerHelper = factory
    try:
        yield
    finally:
        tjm.CJokerHelper = old


def replay_both(fn):
    """decorator for replay functions: first on the compiled extension, then on the .pyx as written"""
    def wrapped(cand, *a, **k):
        rr = fn(cand, *a, **k)
        if rr.get("reproduced") or rr.get("error"):
            return rr
        try:
            with use_pyx_interp():
                r2 = fn(cand, *a, **k)
        except Exception as e:
            return rr
        if r2.get("reproduced"):
            r2["detail"] = "[reproduces on fast_likelihood.pyx AS WRITTEN (executed through the transliteration); the compiled extension does not show it, i.e. it is stale with respect to the source] " + r2.get("detail", "")
            return r2
        return rr
    wrapped.__name__ = getattr(fn, "__name__", "replay")
    return wrapped
