"""C02 -- the rejection step keeps sample i iff exp(ll_i - max ll) > u_i, rows unaltered, in
evaluation order, truncated to the first accepted / first evaluated.   (C06 reuses this harness
for the ln_prior / ln_likelihood columns.)

Symbolic: every library cell, the likelihood as an uninterpreted function LL of the row (so every
profile, ties included), every uniform draw (u = exp(v), v < 0), max_posterior_samples (unbounded
integer >= 1 or None), the permutation returned by rng.choice(..., replace=False) (any injective map).
Concrete per shape (the stated bounds): library size N, n_prior_samples, n_linear_samples, n_batches,
pool size, randomize_prior_order, the entry point (in-memory helper, file helper with a file name or a
JokerSamples object through the temp-file decorator, TheJoker.rejection_sample).
"""
import itertools
import json
import math
import os

from symx import core, env, symnp, units
from symx.core import z3, SN
from symx.framework import new_result, VCSink, fill_explorer, add_witness
from checks import groupa
from checks.groupa import NL

PROPERTY = "C02"
LEVEL = "model_checking"
FUNCTIONS = [
    ("thejoker/likelihood_helpers.py", "rejection_sample_inmem"),
    ("thejoker/likelihood_helpers.py", "marginal_ln_likelihood_inmem"),
    ("thejoker/likelihood_helpers.py", "make_full_samples_inmem"),
    ("thejoker/multiproc_helpers.py", "rejection_sample_helper"),
    ("thejoker/multiproc_helpers.py", "marginal_ln_likelihood_helper"),
    ("thejoker/multiproc_helpers.py", "marginal_ln_likelihood_worker"),
    ("thejoker/multiproc_helpers.py", "make_full_samples"),
    ("thejoker/multiproc_helpers.py", "make_full_samples_worker"),
    ("thejoker/multiproc_helpers.py", "run_worker"),
    ("thejoker/utils.py", "batch_tasks"),
    ("thejoker/utils.py", "read_batch"),
    ("thejoker/utils.py", "read_batch_slice"),
    ("thejoker/utils.py", "read_batch_idx"),
    ("thejoker/utils.py", "tempfile_decorator"),
    ("thejoker/samples.py", "JokerSamples.unpack"),
    ("thejoker/samples.py", "JokerSamples.pack"),
    ("thejoker/samples.py", "JokerSamples.write"),
    ("thejoker/thejoker.py", "TheJoker.rejection_sample"),
]
ASSUMPTIONS = [
    "kernel stub: ll = LL(P,e,omega,M0,s) uninterpreted and finite (the -inf clause of the property is outside this check); posterior draws copy the nonlinear row (real copy loop checked in C03)",
    "uniform draws u in (0,1): u = EXP(v), v < 0; EXP strictly monotone is the only fact used (u = 0 has probability 0, outside the claim)",
    "rng.choice(n, size, replace=False): any injective map into range(n)",
    "pytables/h5py/tempfile/os by contract (symx.env); pool.map applies the worker to every task once and returns results in task order (workers run in reverse order in the model)",
    "the k-th evaluated sample is compared with the k-th uniform drawn from the sampler's generator after the optional shuffle (a different but equally valid assignment would be reported as inconclusive after the replay oracle, which searches all assignments, fails to reproduce)",
    "in_memory=True ignores n_prior_samples / randomize_prior_order (documented: only used with a file name) - not asserted there",
    "floating point modelled as reals; library columns stored in the kernel's internal units (unit conversion is C07's subject)",
]


def bounds(tier):
    return {"N": [1, 4 if tier == "quick" else 6], "N_in_memory": [1, 4 if tier == "quick" else 10], "n_linear_samples": [1, 2], "max_posterior_samples": "None or any integer >= 1 (symbolic)",
            "n_prior_samples": "None, 1..N, N+1", "n_batches": "None, 1, 2, N+1", "pool.size": [0, 3],
            "entry": ["rejection_sample_inmem", "rejection_sample_helper(file name)", "rejection_sample_helper(JokerSamples via temp file)",
                      "TheJoker.rejection_sample(in_memory True/False)"]}


def shapes(tier):
    out = []
    Ns = [1, 2, 3, 4] if tier == "quick" else [1, 2, 3, 4, 5]
    for N in Ns + ([6, 7, 8, 9, 10] if tier == "thorough" else []):
        for nlin in (1, 2):
            for kmax in ("none", "sym"):
                if N >= 4 and nlin == 2 and kmax == "none":
                    continue
                if N >= 6 and (nlin == 2 or (N >= 9 and kmax == "sym")):
                    continue
                out.append({"mode": "inmem", "N": N, "n_lin": nlin, "kmax": kmax})
    for N in Ns + ([6] if tier == "thorough" else []):
        combos = []
        nbs = [None, 1, 2, N + 1] if tier == "thorough" or N <= 3 else [None, N + 1]
        for nb in nbs:
            for rnd in (False, True):
                for nprior in ([None, max(1, N - 1)] if N > 1 else [None]):
                    combos.append((nb, rnd, nprior))
        for i, (nb, rnd, nprior) in enumerate(combos):
            nlin = 1 + (i % 2)
            kmax = "sym" if (i // 2) % 2 == 0 else "none"
            src = "object" if i % 3 == 0 else "filename"
            if N >= 4 and rnd and tier == "quick" and (nprior is None):
                continue   # N=4 with a symbolic permutation: thorough only (path count)
            out.append({"mode": "file", "N": N, "n_lin": nlin, "kmax": kmax, "n_batches": nb, "randomize": rnd,
                        "n_prior": nprior, "src": src, "pool": 3 if nb is None else 1})
    # -inf likelihood values next to at least one finite value (rows identified by position: no shuffle)
    for N, ninf in ((2, [0]), (3, [1]), (3, [0, 2]), (4, [0, 3])):
        out.append({"mode": "inmem", "N": N, "n_lin": 1, "kmax": "sym", "neginf": ninf})
        out.append({"mode": "file", "N": N, "n_lin": 1, "kmax": "none", "n_batches": 2, "randomize": False, "n_prior": None,
                    "src": "filename" if N % 2 else "object", "pool": 1, "neginf": ninf})
    # a square batch (as many samples as packed columns)
    if tier == "quick":
        out.append({"mode": "inmem", "N": 5, "n_lin": 1, "kmax": "none"})
        out.append({"mode": "api", "N": 5, "n_lin": 1, "kmax": "none", "in_memory": True, "src": "object", "randomize": False, "n_batches": None, "pool": 1})
    # a tiny random subset of a large library (size relations such as 100 * n_prior_samples <= n_total)
    out.append({"mode": "file", "N": 200 if tier == "quick" else 300, "n_lin": 1, "kmax": "none", "n_batches": None, "randomize": True, "n_prior": 2,
                "src": "filename", "pool": 1})
    # file-path options given together with in_memory=True (they must not change which rows are evaluated / kept), and the
    # same options on the public file path
    for N in ([3] if tier == "quick" else [3, 4]):
        for src in ("object", "filename"):
            out.append({"mode": "api", "N": N, "n_lin": 1, "kmax": "none", "in_memory": True, "src": src, "randomize": True, "n_batches": None,
                        "pool": 1, "n_prior": N - 1})
            out.append({"mode": "api", "N": N, "n_lin": 1, "kmax": "sym", "in_memory": False, "src": src, "randomize": src == "object", "n_batches": None,
                        "pool": 1, "n_prior": N - 1})
            out.append({"mode": "api", "N": N, "n_lin": 1, "kmax": "none", "in_memory": False, "src": src, "randomize": False, "n_batches": None,
                        "pool": 0, "n_prior": N - 1})
    # call histories: an earlier call on another library under the same file name / in the same JokerSamples object
    for N in ([2] if tier == "quick" else [2, 3]):
        out.append({"mode": "file", "N": N, "n_lin": 1, "kmax": "none", "n_batches": 2, "randomize": False, "n_prior": None, "src": "filename",
                    "pool": 1, "history": "file_rewritten"})
        out.append({"mode": "file", "N": N, "n_lin": 1, "kmax": "none", "n_batches": None, "randomize": N == 2, "n_prior": None, "src": "object",
                    "pool": 1, "history": "object_reassigned"})
        out.append({"mode": "api", "N": N, "n_lin": 1, "kmax": "none", "in_memory": True, "src": "object", "randomize": False, "n_batches": None,
                    "pool": 1, "history": "object_reassigned"})
        out.append({"mode": "api", "N": N, "n_lin": 1, "kmax": "none", "in_memory": False, "src": "filename", "randomize": False, "n_batches": 1,
                    "pool": 1, "history": "file_rewritten"})
    for N in ([2, 3] if tier == "quick" else [2, 3, 4]):
        out.append({"mode": "file", "N": N, "n_lin": 1, "kmax": "none", "n_batches": None, "randomize": False,
                    "n_prior": N + 1, "src": "filename", "pool": 1})
        for inmem in (True, False):
            for src in ("object", "filename"):
                out.append({"mode": "api", "N": N, "n_lin": 1 + (N % 2), "kmax": "sym", "in_memory": inmem, "src": src,
                            "randomize": (not inmem) and src == "filename", "n_batches": 2, "pool": 2})
    return out


# ---------------------------------------------------------------------------------------------

def run_harness(S, shape, logprobs=False, all_logprobs=False, fault_at=None):
    """executes the real code for one shape on symbolic inputs; returns everything the specs need"""
    S.reset(fault_at)
    w = S.w
    N, nlin = shape["N"], shape["n_lin"]
    lib, lnp = S.library(N, with_lnp=True)
    groupa.NEGINF_P.clear()
    for i in shape.get("neginf", []):
        groupa.NEGINF_P.add("lib_%d_P" % i)
    kmax = None
    if shape["kmax"] == "sym":
        kmax = core.integer("kmax")
        core.assume(kmax >= 1)
    rng = env.SymRng(w)
    mode = shape["mode"]
    info = {"lib": lib, "lnp": lnp, "kmax": kmax, "N": N, "n_lin": nlin, "shape": shape}
    hist = shape.get("history")
    if hist:
        return _run_history(S, shape, info, logprobs, all_logprobs)
    if mode == "inmem":
        h = S.helper()
        batch = S.as_packed(lib)
        lp = symnp.SymArray(symnp._obj(list(lnp)), symnp._F8) if logprobs else None
        out = S.lh.rejection_sample_inmem(h, batch, rng, ln_prior=lp, max_posterior_samples=kmax,
                                          n_linear_samples=nlin, return_all_logprobs=all_logprobs)
        info.update(n_eval=N, randomized=False)
    elif mode == "file":
        h = S.helper()
        pool = env.Pool(w, size=shape["pool"], order="reversed")
        if shape["src"] == "filename":
            src = S.as_file(lib, lnp)
        else:
            src = S.as_samples(lib, lnp)
        out = S.mp.rejection_sample_helper(h, src, pool=pool, rng=rng, n_prior_samples=shape["n_prior"],
                                           max_posterior_samples=kmax, n_linear_samples=nlin,
                                           return_logprobs=logprobs, n_batches=shape["n_batches"],
                                           randomize_prior_order=shape["randomize"], return_all_logprobs=all_logprobs)
        info.update(n_eval=shape["n_prior"] if shape["n_prior"] is not None else N, randomized=shape["randomize"])
    elif mode == "api":
        TJ = S.st.thejoker.TheJoker
        pool = env.Pool(w, size=shape["pool"], order="reversed")
        joker = TJ(S.JokerPrior(S), pool=pool, rng=rng)
        if shape["src"] == "filename":
            src = S.as_file(lib, lnp) if not shape["in_memory"] else S.as_packed(lib)
        else:
            src = S.as_samples(lib, lnp)
        lg = logprobs and not (shape["in_memory"] and shape["src"] == "filename")
        import types as _t
        data = _t.SimpleNamespace(t_ref=units.Time(core.real("t_ref")))
        out = joker.rejection_sample(data, src, max_posterior_samples=kmax, n_linear_samples=nlin, n_prior_samples=shape.get("n_prior"),
                                     return_logprobs=lg, return_all_logprobs=all_logprobs, n_batches=shape["n_batches"],
                                     randomize_prior_order=shape["randomize"], in_memory=shape["in_memory"])
        info["logprobs_effective"] = lg
        # in_memory=True evaluates the whole library in its own order (n_prior_samples / randomize_prior_order are file-path options)
        info.update(n_eval=N if (shape["in_memory"] or shape.get("n_prior") is None) else shape["n_prior"], randomized=shape["randomize"] and not shape["in_memory"])
    else:
        raise ValueError(mode)
    all_ll = None
    if all_logprobs:
        out, all_ll = out
    info["obs"] = groupa.observe_samples(out)
    info["all_ll"] = all_ll
    info["world_log"] = list(w.log)
    info["files"] = dict(w.files)
    return info


def _run_history(S, shape, info, logprobs, all_logprobs):
    """call history (bounded to one earlier call): the same sampler / helper first runs on ANOTHER library of the
    same size that lives under the same file name ('file_rewritten') or in the same JokerSamples object
    ('object_reassigned': every column re-assigned through __setitem__ afterwards); the property is then asserted
    on the second call.  State kept by the code between calls is thereby part of the symbolic run."""
    w = S.w
    N, nlin, kmax, hist, mode = info["N"], info["n_lin"], info["kmax"], shape["history"], shape["mode"]
    lib, lnp = info["lib"], info["lnp"]
    libA, lnpA = S.library(N, with_lnp=True, tag="pre")
    pool = env.Pool(w, size=shape.get("pool", 1), order="reversed")
    lu = S.lib_units()

    def reassign(sobj):
        for ci, c in enumerate(NL):
            sobj[c] = units.Quantity(symnp.SymArray(symnp._obj([r[ci] for r in lib]), symnp._F8), lu[c])
        sobj["ln_prior"] = units.Quantity(symnp.SymArray(symnp._obj(list(lnp)), symnp._F8), units.one)

    def between():
        w.streams.clear()
        del w.log[:]
        for h_ in S.helpers:
            del h_.ll_calls[:]
            del h_.post_calls[:]
        S.prior_sample_rngs = []
    if mode == "file":
        h = S.helper()
        src = S.as_file(libA, lnpA) if hist == "file_rewritten" else S.as_samples(libA, lnpA)

        def call(rng_):
            return S.mp.rejection_sample_helper(h, src, pool=pool, rng=rng_, n_prior_samples=shape["n_prior"],
                                                max_posterior_samples=kmax, n_linear_samples=nlin, return_logprobs=logprobs,
                                                n_batches=shape["n_batches"], randomize_prior_order=shape["randomize"],
                                                return_all_logprobs=all_logprobs)
        info.update(n_eval=shape["n_prior"] if shape["n_prior"] is not None else N, randomized=shape["randomize"])
    else:
        joker = S.st.thejoker.TheJoker(S.JokerPrior(S), pool=pool, rng=env.SymRng(w))
        src = S.as_file(libA, lnpA) if hist == "file_rewritten" else S.as_samples(libA, lnpA)
        import types as _t
        data = _t.SimpleNamespace(t_ref=units.Time(core.real("t_ref")))

        def call(rng_):
            joker.rng = rng_
            return joker.rejection_sample(data, src, max_posterior_samples=kmax, n_linear_samples=nlin, return_logprobs=logprobs,
                                          return_all_logprobs=all_logprobs, n_batches=shape["n_batches"], n_prior_samples=shape.get("n_prior"),
                                          randomize_prior_order=shape["randomize"], in_memory=shape["in_memory"])
        info["logprobs_effective"] = logprobs
        info.update(n_eval=N, randomized=shape["randomize"] and not shape["in_memory"])
    call(env.SymRng(w))                      # the earlier call (its result is some other check's subject)
    between()
    if hist == "file_rewritten":
        S.as_file(lib, lnp)                  # same name, same number of rows, other content
    else:
        reassign(src)
    out = call(env.SymRng(w))
    all_ll = None
    if all_logprobs:
        out, all_ll = out
    info["obs"] = groupa.observe_samples(out)
    info["all_ll"] = all_ll
    info["world_log"] = list(w.log)
    info["files"] = dict(w.files)
    return info


def eval_rows(S, info):
    """spec side: the evaluated library rows / ln_prior values in evaluation order, the uniforms"""
    w = S.w
    lib, lnp, n_eval = info["lib"], info["lnp"], info["n_eval"]
    problems = []
    if info["randomized"]:
        ch = groupa.stream_choices(w)
        if len(ch) != 1 or ch[0][1] != info["N"] or ch[0][2] != n_eval:
            problems.append("shuffle is not one rng.choice(n_total, size=n_evaluated, replace=False) on the sampler's generator: %r" % [(c[1], c[2]) for c in ch])
            idx = list(range(n_eval))
        else:
            idx = ch[0][3]
    else:
        idx = list(range(n_eval))
    rows, lps = [], []
    for j in range(n_eval):
        i = idx[j]
        if core.is_sym(i):
            rows.append([symnp._select(i, [lib[r][c] for r in range(len(lib))]) for c in range(5)])
            lps.append(symnp._select(i, list(lnp)))
        else:
            rows.append(list(lib[i]))
            lps.append(lnp[i])
    vs = groupa.stream_vs(w)
    if len(vs) < n_eval:
        problems.append("fewer uniforms (%d) drawn from the sampler's generator than evaluated samples (%d)" % (len(vs), n_eval))
        vs = vs + [core.fresh("real", "missing_u") for _ in range(n_eval - len(vs))]
    lls = [groupa.ll_of(r) for r in rows]
    return rows, lps, lls, vs[:n_eval], idx, problems


def kept_spec(lls, vs, kmax):
    acc = groupa.spec_accept(lls, vs)
    kept, ranks = [], []
    for j in range(len(acc)):
        before = z3.Sum([z3.If(acc[i], 1, 0) for i in range(j)]) if j else z3.IntVal(0)
        ranks.append(before)
        kept.append(z3.And(acc[j], before < kmax.e) if kmax is not None else acc[j])
    return acc, kept, ranks


def claims_rows(info, rows, kept, ranks):
    """returned nonlinear rows are exactly the kept evaluated rows, in order, each n_lin times"""
    obs = info["obs"]
    nlin = info["n_lin"]
    if obs.get("not_samples") or "rows" not in obs:
        return z3.BoolVal(False)
    n_out = obs["n"]
    if n_out % nlin:
        return z3.BoolVal(False)
    m = n_out // nlin
    cl = [z3.Sum([z3.If(k, 1, 0) for k in kept]) == m]
    for j in range(len(rows)):
        for g in range(m):
            same = []
            for t in range(nlin):
                orow = obs["rows"][g * nlin + t]
                same += [core.lift(orow[c] == rows[j][c]) for c in range(5)]
            cl.append(z3.Implies(z3.And(kept[j], ranks[j] == g), z3.And(same)))
    return z3.And(cl)


def describe_factory(S, info, rows, lls, vs, idx):
    def describe(m):
        mv = lambda x: core.model_value(m, x)
        d = {"lib": [[str(mv(c)) for c in r] for r in info["lib"]],
             "lnp": [str(mv(x)) for x in info["lnp"]],
             "ll_eval": ["-inf" if isinstance(l, symnp.NonFinite) else str(mv(l)) for l in lls],
             "v": [str(mv(v)) for v in vs],
             "idx": [int(mv(i)) if core.is_sym(i) else int(i) for i in idx],
             "kmax": int(mv(info["kmax"])) if info["kmax"] is not None else None,
             "ll_lib": ["-inf" if isinstance(groupa.ll_of(r), symnp.NonFinite) else str(mv(groupa.ll_of(r))) for r in info["lib"]]}
        return d
    return describe


def run_shape(shape, tier, focus="C02"):
    res = new_result(shape)
    sink = VCSink(res, focus)
    S = groupa.Setup(with_api=(shape["mode"] == "api"))
    logprobs = focus == "C06"
    all_lp = focus == "C06" and shape.get("n_lin", 1) == 1
    multi_lin_logprobs = logprobs and shape["n_lin"] > 1
    if multi_lin_logprobs:
        # the current code cannot attach one value per accepted sample to n_linear_samples rows per sample: astropy refuses the column
        # (ValueError) and no rows are returned -- accepted.  If rows ARE returned with the columns, every row must carry its own sample's values.
        all_lp = False

    def harness():
        return run_harness(S, shape, logprobs=logprobs, all_logprobs=all_lp)

    ex = core.Explorer(max_paths=40000, max_seconds=1500)
    twin = False
    for path in ex.paths(harness):
        core.Ctx.cur = path.ctx   # spec terms may create side symbols
        try:
            if path.raised is not None:
                if multi_lin_logprobs and isinstance(path.raised, ValueError):
                    sink.check(path, "multi_linear_logprobs_refused", core.SB(z3.BoolVal(True)), site=shape["mode"], describe=lambda m: {"raised": repr(path.raised)[:200]})
                    r, _, _ = path.check(core.SB(z3.BoolVal(False)))
                    twin = twin or r == "sat"
                    continue
                _raised(sink, path, shape, S)
                r, _, _ = path.check(core.SB(z3.BoolVal(False)))
                twin = twin or r == "sat"
                continue
            info = path.result
            rows, lps, lls, vs, idx, problems = eval_rows(S, info)
            desc = describe_factory(S, info, rows, lls, vs, idx)
            acc, kept, ranks = kept_spec(lls, vs, info["kmax"])
            # well-scaled counterexample models (the replay is in floating point: exp(-2447) would underflow)
            pref = []
            for l in lls:
                if not isinstance(l, symnp.NonFinite):
                    pref += [core.lift(l) >= -6, core.lift(l) <= 2]
            for v in vs:
                pref += [core.lift(v) >= -4, core.lift(v) <= z3.RealVal("-1/50")]
            for i, r_ in enumerate(info["lib"]):
                pref += [core.lift(r_[0]) == 2 + i] + [z3.And(core.lift(c) >= 0, core.lift(c) <= 5) for c in r_[1:]]
            # second tier: all uniforms equal, so that the counterexample does not hinge on WHICH uniform is compared with which
            # sample (the replay oracle accepts any one-to-one assignment); dropped when the violation needs distinct uniforms
            pref = [pref, [core.lift(v) == core.lift(vs[0]) for v in vs[1:]]]
            if focus == "C02":
                sink.check(path, "rng_protocol", core.SB(z3.BoolVal(not problems)), site=shape["mode"], describe=desc)
                sink.check(path, "rows", core.SB(claims_rows(info, rows, kept, ranks)), site=shape["mode"], describe=desc, prefer=pref)
                sink.check(path, "user_file_untouched", core.SB(z3.BoolVal(_user_file_ok(info))), site=shape["mode"], describe=desc)
            else:
                _c06_claims(sink, path, shape, info, rows, lps, lls, kept, ranks, desc, logprobs, all_lp, pref)
            if ex.n_paths % 3 == 1:
                add_witness(res, path, desc, site=shape["mode"])
            r, _, _ = path.check(core.SB(z3.BoolVal(False)))
            twin = twin or r == "sat"
        finally:
            core.Ctx.cur = None
    res["twin_ok"] = twin
    fill_explorer(res, ex)
    return res


def _user_file_ok(info):
    for e in info["world_log"]:
        if e[0] == "open" and e[2] == "user_lib.hdf5" and e[3] != "r":
            return False
        if e[0] in ("unlink", "write") and e[1] == "user_lib.hdf5":
            return False
    return True


def _raised(sink, path, shape, S):
    e = path.raised
    ok = False
    if shape["mode"] == "file" and shape.get("n_prior") is not None and shape["n_prior"] > shape["N"]:
        ok = isinstance(e, ValueError)
    sink.check(path, "no_exception", core.SB(z3.BoolVal(ok)), site=shape["mode"],
               describe=lambda m: {"raised": repr(e)[:300]})


def _c06_claims(sink, path, shape, info, rows, lps, lls, kept, ranks, desc, logprobs, all_lp, pref=()):
    obs = info["obs"]
    nlin = info["n_lin"]
    eff = logprobs and info.get("logprobs_effective", True)
    if eff:
        ok_cols = "ln_prior" in obs and "ln_likelihood" in obs
        scal = ok_cols and not isinstance(obs["ln_prior"], env.RecordRows) and not isinstance(obs["ln_likelihood"], env.RecordRows)
        sink.check(path, "scalar_columns", core.SB(z3.BoolVal(bool(scal))), site=shape["mode"] + ".ln_prior_column", describe=desc)
        if scal:
            m = obs["n"] // nlin
            cl = [z3.Sum([z3.If(k, 1, 0) for k in kept]) == m, z3.BoolVal(len(obs["ln_likelihood"]) == obs["n"] and len(obs["ln_prior"]) == obs["n"])]
            for j in range(len(rows)):
                for g in range(m):
                    if isinstance(lls[j], symnp.NonFinite):
                        continue       # a -inf sample is never kept
                    if len(obs["ln_likelihood"]) != obs["n"] or len(obs["ln_prior"]) != obs["n"]:
                        continue
                    # every one of the n_linear_samples rows of the g-th kept sample carries that sample's values
                    cl.append(z3.Implies(z3.And(kept[j], ranks[j] == g),
                                         z3.And([z3.And(core.lift(obs["ln_likelihood"][g * nlin + t_] == lls[j]), core.lift(obs["ln_prior"][g * nlin + t_] == lps[j]))
                                                 for t_ in range(nlin)])))
            sink.check(path, "attached", core.SB(z3.And(cl)), site=shape["mode"], describe=desc, prefer=pref)
    if all_lp:
        al = info["all_ll"]
        ok = isinstance(al, symnp.SymArray) and al.a.shape == (len(lls),)
        def _eq(a, b):
            if isinstance(a, symnp.NonFinite) or isinstance(b, symnp.NonFinite):
                return z3.BoolVal(isinstance(a, symnp.NonFinite) and isinstance(b, symnp.NonFinite) and a.kind == b.kind)
            return core.lift(a == b)
        cl = z3.And([_eq(al.a[j], lls[j]) for j in range(len(lls))]) if ok else z3.BoolVal(False)
        sink.check(path, "all_logprobs", core.SB(cl), site=shape["mode"], describe=desc, prefer=pref)


# ---------------------------------------------------------------------------------------------
# replay on the real build
# ---------------------------------------------------------------------------------------------

def _f(x):
    from fractions import Fraction
    return float(Fraction(x))


def replay(cand, focus="C02"):
    """Replays the solver's counterexample on the real build. Floating point is modelled as real
    arithmetic, so a counterexample that exploits the uninterpreted EXP may only manifest at extreme
    magnitudes: the same counterexample is therefore also replayed with every likelihood shifted by
    a constant (the property is invariant under such a shift). Only concrete failures of the real
    code against the rule are reported."""
    last = None
    for shift in (0.0, -800.0, 800.0, -1.0e5):
        rr = _replay_once(cand, focus, shift)
        if rr.get("reproduced"):
            if shift:
                rr["detail"] = "[all ll shifted by %g] " % shift + rr.get("detail", "")
            return rr
        last = last or rr
    return last


def _replay_once(cand, focus, shift):
    """Concrete run of the REAL functions (imported normally from /repo) with a plain-Python fake
    kernel realising the model's likelihood values, a Generator replaying the model's uniforms and
    permutation, and a real HDF5 file; oracle = the property's rule, written independently."""
    import tempfile
    import numpy as np
    import astropy.units as u
    from astropy.time import Time
    m = cand.get("model") or {}
    shape = cand["shape"]
    if "lib" not in m:
        return {"reproduced": False, "detail": "candidate without concrete input: %r" % (m,)}
    lib = np.array([[_f(c) for c in r] for r in m["lib"]], dtype=float)
    N = len(lib)
    if len({tuple(r) for r in np.round(lib, 12)}) < N:
        lib[:, 0] = lib[:, 0] + 1e-3 * np.arange(N)     # the likelihood is given per library row: keep the rows distinguishable
    # make rows distinguishable / valid where the model left them equal: only P must be unique for lookup
    ll_lib = [float("-inf") if x == "-inf" else _f(x) + shift for x in m["ll_lib"]]
    lnp = np.array([_f(x) for x in m["lnp"]])
    us = [math.exp(_f(v)) for v in m["v"]]
    idx = list(m["idx"])
    kmax = m["kmax"]
    nlin = shape["n_lin"]
    key = {}
    for r, l in zip(lib, ll_lib):
        key[tuple(np.round(r, 12))] = l

    import thejoker
    from thejoker.samples import JokerSamples
    from thejoker import likelihood_helpers as lh, multiproc_helpers as mph

    class FakeHelper:
        packed_order = ["P", "e", "omega", "M0", "s"]
        internal_units = {"P": u.day, "e": u.one, "omega": u.rad, "M0": u.rad, "s": u.km / u.s, "K": u.km / u.s, "v0": u.km / u.s}
        data = type("D", (), {"t_ref": Time(55000.0, format="mjd", scale="tcb")})()
        prior = type("P", (), {"poly_trend": 1, "n_offsets": 0})()
        evaluated = []

        def batch_marginal_ln_likelihood(self, chunk):
            chunk = np.asarray(chunk)
            out = []
            for r in chunk:
                FakeHelper.evaluated.append(tuple(r))
                out.append(key[tuple(np.round(r, 12))])
            return np.array(out, dtype=float)

        def batch_get_posterior_samples(self, chunk, n_lin, rng):
            chunk = np.asarray(chunk)
            raw = np.zeros((len(chunk) * n_lin, 7))
            for i, r in enumerate(chunk):
                lin = rng.multivariate_normal(np.zeros(2), np.eye(2), size=n_lin)
                for j in range(n_lin):
                    raw[i * n_lin + j, :5] = r
                    raw[i * n_lin + j, 5:] = lin[j]
            return raw, np.zeros(len(chunk) * n_lin)

    class ReplayRng(np.random.Generator):
        def __init__(self):
            super().__init__(np.random.PCG64(12345))
            self.u_served = []
            self.choice_calls = 0

        def uniform(self, low=0.0, high=1.0, size=None):
            n = int(size) if size is not None else 1
            start = len(self.u_served)
            vals = [(us[start + i] if start + i < len(us) else 0.5) for i in range(n)]
            self.u_served.extend(vals)
            return np.array(vals) if size is not None else vals[0]

        def choice(self, a, size=None, replace=True, **kw):
            self.choice_calls += 1
            return np.array(idx[:int(size)], dtype=int)

        def integers(self, low, high=None, size=None, **kw):
            # draws with replacement: serve a repeated row number, which such a draw may produce
            self.integers_calls = getattr(self, "integers_calls", 0) + 1
            k = 1 if size is None else int(size)
            vals = np.array([idx[0] if idx else 0] * k, dtype=int)
            return vals if size is not None else int(vals[0])

        def permutation(self, x):
            n = x if isinstance(x, (int, np.integer)) else len(x)
            full = np.array((idx + [i for i in range(n) if i not in idx])[:n], dtype=int)
            return full if isinstance(x, (int, np.integer)) else np.asarray(x)[full]

    FakeHelper.evaluated = []
    rng = ReplayRng()
    helper = FakeHelper()
    tmpd = tempfile.mkdtemp(prefix="verif_c02_")
    try:
        hist = shape.get("history")
        colu = list(zip(["P", "e", "omega", "M0", "s"], [u.day, u.one, u.rad, u.rad, u.km / u.s]))

        def fill(obj, L_, lp_):
            for ci, (c, un) in enumerate(colu):
                obj[c] = L_[:, ci] * un
            obj["ln_prior"] = lp_
        prior = JokerSamples(poly_trend=1, n_offsets=0)
        fn = os.path.join(tmpd, "lib.hdf5")
        libA = lib + np.array([100.0, 0.0, 0.0, 0.0, 0.0])
        lnpA = lnp - 1000.0
        if hist:
            for r in libA:
                key[tuple(np.round(r, 12))] = 0.0
            fill(prior, libA, lnpA)
        else:
            fill(prior, lib, lnp)
        prior.write(fn, overwrite=True)
        logprobs = focus == "C06"
        all_lp = focus == "C06" and nlin == 1
        mode = shape["mode"]
        import schwimmbad
        import thejoker.thejoker as tjm
        from thejoker import TheJoker
        joker = TheJoker.__new__(TheJoker)
        joker.pool, joker.prior = schwimmbad.SerialPool(), object.__new__(thejoker.JokerPrior)
        lg = logprobs
        if mode == "api":
            lg = logprobs and not (shape["in_memory"] and shape["src"] == "filename")

        def do_call(rng_):
            if mode == "inmem":
                packed, _ = prior.pack(units=helper.internal_units, names=helper.packed_order)
                return lh.rejection_sample_inmem(helper, packed, rng_, ln_prior=(lnp if logprobs else None), max_posterior_samples=kmax,
                                                 n_linear_samples=nlin, return_all_logprobs=all_lp)
            if mode == "file":
                src = fn if shape["src"] == "filename" else prior
                return mph.rejection_sample_helper(helper, src, pool=schwimmbad.SerialPool(), rng=rng_, n_prior_samples=shape["n_prior"],
                                                   max_posterior_samples=kmax, n_linear_samples=nlin, return_logprobs=logprobs,
                                                   n_batches=shape["n_batches"], randomize_prior_order=shape["randomize"],
                                                   return_all_logprobs=all_lp)
            orig = tjm.TheJoker._make_joker_helper
            tjm.TheJoker._make_joker_helper = lambda self, data: helper
            try:
                joker.rng = rng_
                if shape["src"] == "filename":
                    src = fn if not shape["in_memory"] else prior.pack(units=helper.internal_units, names=helper.packed_order)[0]
                else:
                    src = prior
                return joker.rejection_sample(None, src, max_posterior_samples=kmax, n_linear_samples=nlin, return_logprobs=lg,
                                              return_all_logprobs=all_lp, n_batches=shape["n_batches"], n_prior_samples=shape.get("n_prior"),
                                              randomize_prior_order=shape["randomize"], in_memory=shape["in_memory"])
            finally:
                tjm.TheJoker._make_joker_helper = orig
        if mode == "inmem":
            n_eval, randomized = N, False
        elif mode == "file":
            n_eval = shape["n_prior"] if shape["n_prior"] is not None else N
            randomized = shape["randomize"]
        else:
            n_eval = N if (shape["in_memory"] or shape.get("n_prior") is None) else shape["n_prior"]
            randomized = shape["randomize"] and not shape["in_memory"]
            logprobs = lg
        try:
            if hist:
                # the shape's call history: an earlier call on another library under the same name / in the same object
                do_call(np.random.default_rng(3))
                FakeHelper.evaluated = []
                if hist == "file_rewritten":
                    fresh = JokerSamples(poly_trend=1, n_offsets=0)
                    fill(fresh, lib, lnp)
                    fresh.write(fn, overwrite=True)
                else:
                    fill(prior, lib, lnp)
            before = open(fn, "rb").read()
            out = do_call(rng)
        except Exception as e:
            if mode == "file" and shape.get("n_prior") is not None and shape["n_prior"] > N and isinstance(e, ValueError):
                return {"reproduced": False, "detail": "raised the documented ValueError"}
            if logprobs and nlin > 1 and isinstance(e, ValueError):
                return {"reproduced": False, "detail": "n_linear_samples > 1 with return_logprobs refused (no rows returned)"}
            return {"reproduced": True, "detail": "real call raised %s: %s" % (type(e).__name__, str(e)[:300])}
        all_ll = None
        if all_lp:
            out, all_ll = out
        after = open(fn, "rb").read()
        bad = []
        if before != after:
            bad.append("user file changed")
        ev_rows = [tuple(np.round(r, 12)) for r in FakeHelper.evaluated]
        if randomized and len(set(ev_rows)) < len(ev_rows):
            bad.append("the random subset contains the same library row more than once (%d evaluations, %d distinct rows)%s" % (
                len(ev_rows), len(set(ev_rows)), "; rows drawn with rng.integers" if getattr(rng, "integers_calls", 0) else ""))
        if not isinstance(out, JokerSamples):
            return {"reproduced": True, "detail": "returned %r instead of JokerSamples" % type(out)}
        order = idx[:n_eval] if randomized else list(range(n_eval))
        ll_eval = [ll_lib[i] for i in order]
        mx = max(ll_eval)
        got_rows = np.stack([out[c].value for c in ["P", "e", "omega", "M0", "s"]], axis=1)
        useq = rng.u_served

        def expected(assign):
            acc = [j for j in range(n_eval) if (math.exp(ll_eval[j] - mx) if ll_eval[j] != float("-inf") else 0.0) > assign[j]]
            if kmax is not None:
                acc = acc[:kmax]
            return acc
        # the property allows any one-to-one assignment of the generator's uniforms to samples
        explained = None
        cands = [tuple(range(n_eval))]
        if len(useq) >= n_eval and n_eval <= 6:
            cands += list(itertools.permutations(range(len(useq)), n_eval))[:5000]
        for perm in cands:
            if max(perm, default=-1) >= len(useq):
                continue
            acc = expected([useq[p] for p in perm])
            exp_rows = np.repeat(lib[[order[j] for j in acc]], nlin, axis=0) if acc else np.zeros((0, 5))
            if exp_rows.shape == got_rows.shape and np.allclose(exp_rows, got_rows, rtol=1e-12, atol=0):
                explained = (perm, acc)
                break
        if explained is None:
            acc = expected([useq[j] if j < len(useq) else 0.5 for j in range(n_eval)])
            bad.append("returned rows %s are not the accepted evaluated rows %s (ll=%s, u=%s, order=%s, kmax=%s)" % (
                got_rows[:, 0].tolist(), lib[[order[j] for j in acc], 0].tolist() if acc else [], ll_eval, useq[:n_eval], order, kmax))
        elif focus == "C06":
            perm, acc = explained
            if logprobs:
                for name, want in (("ln_likelihood", list(np.repeat([ll_eval[j] for j in acc], nlin))), ("ln_prior", list(np.repeat([lnp[order[j]] for j in acc], nlin)))):
                    if name not in out.tbl.colnames:
                        bad.append("%s column missing" % name)
                        continue
                    col = out[name]
                    val = np.asarray(getattr(col, "value", col))
                    if val.dtype.kind != "f" or val.ndim != 1:
                        bad.append("%s is not a plain float column: dtype=%s shape=%s" % (name, val.dtype, val.shape))
                    elif len(val) != len(want) or not np.allclose(val, want, rtol=1e-12, atol=0):
                        bad.append("%s=%s but the rows' own values are %s" % (name, val.tolist(), want))
            if all_lp:
                if all_ll is None or len(all_ll) != n_eval or not np.allclose(np.asarray(all_ll, dtype=float), ll_eval, rtol=1e-12, atol=0, equal_nan=True):
                    bad.append("all-logprobs array %s != likelihoods in evaluation order %s" % (None if all_ll is None else np.asarray(all_ll).tolist(), ll_eval))
        return {"reproduced": bool(bad), "detail": "; ".join(bad)[:900] or "real build agrees with the rule"}
    finally:
        import shutil
        shutil.rmtree(tmpd, ignore_errors=True)
