"""C18 -- only priors and data that satisfy the sampler's assumptions are accepted.

Real code executed symbolically (current tree): prior.JokerPrior.__init__ (presence / unit /
Normal-only validation loops, par_names), prior_helpers.validate_poly_trend / validate_n_offsets /
get_*_equiv_units, data_helpers.validate_prepare_data (source checks), TheJoker.__init__ (argument
checks).  Validity predicates are symbolic: for the parameter under test "is present", "carries a
unit", "has an owner", "owner.op is a RandomVariable" are symbolic booleans the explorer forks on; its
unit and its distribution's print name are symbolic choices from small concrete menus (canonical /
other equivalent / wrong-dimension / angle-vs-dimensionless units; Normal, FixedCompanionMass,
LogNormal, HalfNormal, Uniform, StudentT).  Claim per path: the constructor returns normally iff every
predicate the property lists holds, and accepted priors list parameters in the order nonlinear, linear,
offsets.
"""
import types

from symx import core, stack, env, symnp, units, loader
from symx.core import z3
from symx.framework import new_result, VCSink, fill_explorer

PROPERTY = "C18"
LEVEL = "model_checking"
FUNCTIONS = [("thejoker/prior.py", "JokerPrior.__init__"), ("thejoker/prior.py", "JokerPrior.par_names"), ("thejoker/prior_helpers.py", "validate_poly_trend"),
             ("thejoker/prior_helpers.py", "validate_n_offsets"), ("thejoker/prior_helpers.py", "get_linear_equiv_units"),
             ("thejoker/prior_helpers.py", "get_nonlinear_equiv_units"), ("thejoker/prior_helpers.py", "get_v0_offsets_equiv_units"),
             ("thejoker/data_helpers.py", "validate_prepare_data"), ("thejoker/thejoker.py", "TheJoker.__init__")]
ASSUMPTIONS = [
    "pymc / pytensor objects are stand-ins exposing what the validators inspect: name, unit attribute, owner.op (instance of RandomVariable or not), op._print_name",
    "astropy units by contract (symx.units): equivalence = equal dimension vectors",
    "quick: one parameter at a time has symbolic validity (all others valid); thorough adds pairs of parameters; larger combinations are outside the bound",
    "bounds: poly_trend <= 3, n_offsets <= 2, <= 3 data sources",
]
UNIT_ATTR = "__tensor_unit__"
KINDS = ["Normal", "FixedCompanionMass", "LogNormal", "HalfNormal", "Uniform", "StudentT"]


def bounds(tier):
    return {"poly_trend": [1, 3], "n_offsets": [0, 2], "parameter_under_test": "each of P,e,omega,M0,s,K,v0..,dv0_k", "sources": [1, 3]}


def shapes(tier):
    out = []
    for npoly, noff in ((1, 0), (2, 1), (3, 2)):
        names = ["P", "e", "omega", "M0", "s", "K"] + ["v%d" % j for j in range(npoly)] + ["dv0_%d" % k for k in range(1, noff + 1)]
        for nm in names:
            if tier == "quick" and npoly == 3 and nm in ("e", "omega", "s", "v1"):
                continue
            out.append({"what": "prior", "poly": npoly, "noff": noff, "param": nm})
    # ten and more offsets (names whose numeric and textual orders differ): accepted priors keep the given order
    out.append({"what": "prior", "poly": 1, "noff": 11, "param": "dv0_10"})
    if tier == "thorough":
        # two parameters with symbolic validity at once
        for a, b in (("K", "e"), ("P", "dv0_1"), ("v0", "K"), ("omega", "v1")):
            out.append({"what": "prior", "poly": 2, "noff": 1, "param": a, "param2": b})
    for case in ("count_mismatch", "non_rvdata", "covariance", "single_with_offsets", "ok_list", "ok_dict"):
        out.append({"what": "data", "case": case})
    out.append({"what": "joker_init"})
    # the forms in which the parameters may be handed over (None = take them from the model; an explicitly empty
    # collection is NOT "take them from the model"; list / dict / single variable)
    out.append({"what": "pars_forms"})
    # data handed to the sampler's methods, edited in place between calls
    out.append({"what": "sampler_data"})
    return out


class RandomVariable:
    pass


class OtherOp:
    pass


class Par:
    """stand-in for a pymc variable whose validity is symbolic"""
    def __init__(self, name, flags):
        object.__setattr__(self, "_name", name)
        object.__setattr__(self, "_flags", flags)

    @property
    def name(self):
        return self._name

    def __getattr__(self, attr):
        fl = object.__getattribute__(self, "_flags")
        if attr == UNIT_ATTR:
            if fl["has_unit"]():
                return fl["unit"]()
            raise AttributeError(attr)
        if attr == "owner":
            if fl["has_owner"]():
                if fl["is_rv"]():
                    op = RandomVariable()
                    op._print_name = (fl["kind"](), "x")
                    return types.SimpleNamespace(op=op, inputs=[])
                # a deterministic function of ONE Normal random variable (exp, abs, ...): not a Normal prior
                inner_op = RandomVariable()
                inner_op._print_name = ("Normal", "x")
                inner = types.SimpleNamespace(owner=types.SimpleNamespace(op=inner_op, inputs=[]))
                op = OtherOp()
                op._print_name = (fl["kind"](), "x")
                return types.SimpleNamespace(op=op, inputs=[inner])
            raise AttributeError(attr)
        raise AttributeError(attr)


def _canonical(st, name):
    u = st.u
    if name == "P":
        return u.day
    if name == "e":
        return u.one
    if name in ("omega", "M0"):
        return u.rad
    if name in ("s", "K") or name.startswith("dv0"):
        return u.km / u.s
    j = int(name[1:])
    return u.km / u.s / u.day ** j


def _unit_menu(st, name):
    """(unit, is_valid) choices for the parameter under test"""
    u = st.u
    canon = _canonical(st, name)
    menu = [(canon, True)]
    if name == "P":
        menu += [(u.year, True), (u.km / u.s, False), (u.one, False)]
    elif name == "e":
        menu += [(u.rad, False), (u.deg, False), (u.day, False)]
    elif name in ("omega", "M0"):
        menu += [(u.deg, True), (u.one, False), (u.day, False)]
    else:
        j = int(name[1:]) if name[0] == "v" else 0
        menu += [(u.m / u.s / u.day ** j, True), (u.km / u.s / u.day ** (j + 1), False), (u.one, False), (u.rad, False)]
    return menu


def _run_prior(shape, res, sink):
    w = env.World()
    pm = types.ModuleType("pymc")

    class Model:
        named_vars = {}
    pm.Model = Model
    pm.modelcontext = lambda m: m if m is not None else Model()
    pt = types.ModuleType("pytensor.tensor")
    pt.TensorVariable = type("TensorVariable", (), {})
    pt.random = types.SimpleNamespace(op=types.SimpleNamespace(RandomVariable=RandomVariable))
    st = stack.Stack(world=w, load=("prior_helpers",), extra_shims={"pymc": pm, "pytensor.tensor": pt,
                                                                     "thejoker.units": types.SimpleNamespace(UNIT_ATTR_NAME=UNIT_ATTR)})
    st.shims["pytensor"] = types.SimpleNamespace(__version__="3.3.2", tensor=pt)
    st.load("prior")
    JP = st.prior.JokerPrior
    npoly, noff = shape["poly"], shape["noff"]
    targets = [shape["param"]] + ([shape["param2"]] if shape.get("param2") else [])
    nonlinear = ["P", "e", "omega", "M0", "s"]
    linear = ["K"] + ["v%d" % j for j in range(npoly)]
    offs = ["dv0_%d" % k for k in range(1, noff + 1)]
    allnames = nonlinear + linear + offs
    menus = {t: _unit_menu(st, t) for t in targets}

    def harness():
        F = {}
        for t in targets:
            fl = {"present": core.boolean("present_" + t), "has_unit": core.boolean("has_unit_" + t), "has_owner": core.boolean("has_owner_" + t),
                  "is_rv": core.boolean("is_rv_" + t), "unit_i": core.integer("unit_choice_" + t), "kind_i": core.integer("kind_choice_" + t), "chosen": {}}
            core.assume(fl["unit_i"] >= 0)
            core.assume(fl["unit_i"] < len(menus[t]))
            core.assume(fl["kind_i"] >= 0)
            core.assume(fl["kind_i"] < len(KINDS))
            F[t] = fl

        def mk(name):
            if name not in targets:
                kind = "FixedCompanionMass" if name == "K" else "Normal"
                un = _canonical(st, name)
                return Par(name, {"has_unit": lambda: True, "unit": lambda un=un: un, "has_owner": lambda: True, "is_rv": lambda: True, "kind": lambda kind=kind: kind})
            fl = F[name]
            menu = menus[name]

            def unit():
                if "unit" not in fl["chosen"]:
                    fl["chosen"]["unit"] = core.fork_int(fl["unit_i"], 0, len(menu) - 1)
                return menu[fl["chosen"]["unit"]][0]

            def kind():
                if "kind" not in fl["chosen"]:
                    fl["chosen"]["kind"] = core.fork_int(fl["kind_i"], 0, len(KINDS) - 1)
                return KINDS[fl["chosen"]["kind"]]
            return Par(name, {"has_unit": lambda: bool(fl["has_unit"]), "unit": unit, "has_owner": lambda: bool(fl["has_owner"]), "is_rv": lambda: bool(fl["is_rv"]), "kind": kind})
        pars = {}
        for n in nonlinear + linear:
            if n in targets and not bool(F[n]["present"]):
                continue
            pars[n] = mk(n)
        v0_offsets = [mk(n) for n in offs]      # offsets are passed as a list (always present)
        try:
            prior = JP(pars=pars, poly_trend=npoly, v0_offsets=v0_offsets, model=Model())
            return F, prior, None
        except (ValueError, TypeError) as e:
            return F, None, e

    ex = core.Explorer(max_paths=20000)
    twin = False
    for path in ex.paths(harness):
        core.Ctx.cur = path.ctx
        try:
            r, _, _ = path.check(core.SB(z3.BoolVal(False)))
            twin = twin or r == "sat"
            if path.raised is not None:
                sink.check(path, "prior.unexpected_exception", core.SB(z3.BoolVal(False)), site="JokerPrior.__init__", describe=lambda m: {"raised": repr(path.raised)[:300], "param": targets})
                continue
            F, prior, err = path.result
            L = core.lift
            valid_all = []
            for t in targets:
                fl, menu = F[t], menus[t]
                is_linear = t in linear or t in offs
                valid_unit = z3.Or([fl["unit_i"].e == i for i, (_, ok) in enumerate(menu) if ok])
                valid_kind = z3.Or([fl["kind_i"].e == KINDS.index(k) for k in ("Normal", "FixedCompanionMass")])
                present = L(fl["present"]) if t not in offs else z3.BoolVal(True)
                v = z3.And(present, L(fl["has_unit"]), valid_unit)
                if is_linear:
                    v = z3.And(v, L(fl["has_owner"]), L(fl["is_rv"]), valid_kind)
                valid_all.append(v)
            valid = z3.And(valid_all)
            accepted = prior is not None
            t0 = targets[0]
            lin0 = t0 in linear or t0 in offs

            def desc(m):
                fl, menu = F[t0], menus[t0]
                d = {"param": t0, "present": bool(core.model_value(m, fl["present"])), "has_unit": bool(core.model_value(m, fl["has_unit"])),
                     "has_owner": bool(core.model_value(m, fl["has_owner"])), "is_rv": bool(core.model_value(m, fl["is_rv"])),
                     "unit": menu[int(core.model_value(m, fl["unit_i"]))][0].name, "kind": KINDS[int(core.model_value(m, fl["kind_i"]))],
                     "accepted": accepted, "error": repr(err)[:120], "also_symbolic": targets[1:]}
                return d
            site = "JokerPrior.__init__." + ("linear" if lin0 else "nonlinear")
            if accepted:
                sink.check(path, "prior.accepted_only_if_valid", core.SB(valid), site=site, describe=desc)
                order = prior.par_names == allnames and [getattr(o, "name", None) for o in getattr(prior, "v0_offsets", [])] == offs
                sink.check(path, "prior.par_names_order", core.SB(z3.BoolVal(bool(order))), site="JokerPrior.par_names", describe=desc, structural_claim=True)
            else:
                sink.check(path, "prior.rejected_only_if_invalid", core.SB(z3.Not(valid)), site=site, describe=desc)
        finally:
            core.Ctx.cur = None
    res["twin_ok"] = twin
    return ex


def _run_pars_forms(shape, res, sink):
    w = env.World()
    pm = types.ModuleType("pymc")

    class Model:
        def __init__(self, named=None):
            self.named_vars = dict(named or {})
    pm.Model = Model
    pm.modelcontext = lambda m: m if m is not None else Model()
    pt = types.ModuleType("pytensor.tensor")

    class TensorVariable(Par):
        pass
    pt.TensorVariable = TensorVariable
    pt.random = types.SimpleNamespace(op=types.SimpleNamespace(RandomVariable=RandomVariable))
    st = stack.Stack(world=w, load=("prior_helpers",), extra_shims={"pymc": pm, "pytensor.tensor": pt,
                                                                     "thejoker.units": types.SimpleNamespace(UNIT_ATTR_NAME=UNIT_ATTR)})
    st.shims["pytensor"] = types.SimpleNamespace(__version__="3.3.2", tensor=pt)
    st.load("prior")
    JP = st.prior.JokerPrior
    names = ["P", "e", "omega", "M0", "s", "K", "v0"]

    def good(name):
        kind = "FixedCompanionMass" if name == "K" else "Normal"
        un = _canonical(st, name)
        return TensorVariable(name, {"has_unit": lambda: True, "unit": lambda un=un: un, "has_owner": lambda: True, "is_rv": lambda: True, "kind": lambda kind=kind: kind})

    def harness():
        full = {n: good(n) for n in names}
        cases = [("pars=None, model holds all variables", lambda: JP(pars=None, model=Model(full)), None),
                 ("pars=dict of all", lambda: JP(pars=dict(full), model=Model()), None),
                 ("pars=list of all", lambda: JP(pars=list(full.values()), model=Model()), None),
                 ("pars={} although the model holds variables of the right names", lambda: JP(pars={}, model=Model(full)), ValueError),
                 ("pars=[] although the model holds variables of the right names", lambda: JP(pars=[], model=Model(full)), ValueError),
                 ("pars=() and an empty model", lambda: JP(pars=(), model=Model()), ValueError),
                 ("pars=None and an empty model", lambda: JP(pars=None, model=Model()), ValueError),
                 ("pars=a single variable", lambda: JP(pars=full["P"], model=Model()), ValueError),
                 ("pars=dict without K", lambda: JP(pars={k: v for k, v in full.items() if k != "K"}, model=Model(full)), ValueError)]
        return [(lbl, _try(fn), exp) for lbl, fn, exp in cases]
    ex = core.Explorer(max_paths=50)
    twin = False
    for path in ex.paths(harness):
        core.Ctx.cur = path.ctx
        try:
            r, _, _ = path.check(core.SB(z3.BoolVal(False)))
            twin = twin or r == "sat"
            if path.raised is not None:
                if isinstance(path.raised, core.UnsupportedByShim):
                    raise path.raised
                sink.check(path, "pars_forms.harness", core.SB(z3.BoolVal(False)), site="JokerPrior.__init__", describe=lambda m: {"raised": repr(path.raised)[:300]})
                continue
            for lbl, (ok, exc), exp in path.result:
                good_ = (exp is None and ok) or (exp is not None and not ok and isinstance(exc, exp))
                sink.check(path, "pars_forms", core.SB(z3.BoolVal(bool(good_))), site="JokerPrior.__init__.pars", describe=lambda m, lbl=lbl, exc=exc: {"case": lbl, "raised": repr(exc)[:150]},
                           structural_claim=True)
        finally:
            core.Ctx.cur = None
    res["twin_ok"] = twin
    return ex


def _run_data(shape, res, sink):
    st = stack.Stack(load=("prior_helpers", "likelihood_helpers"))
    st.load("data_helpers")
    st.load("data")
    RVData = st.data.RVData
    vpd = st.data_helpers.validate_prepare_data
    case = shape["case"]
    kms = units.km / units.s

    def mk(n, tag, cov=False):
        t = symnp.SymArray(symnp._obj([core.real("t%s_%d" % (tag, i)) for i in range(n)]), symnp._F8)
        rv = units.Quantity(symnp.SymArray(symnp._obj([core.real("rv%s_%d" % (tag, i)) for i in range(n)]), symnp._F8), kms)
        if cov:
            e = units.Quantity(symnp.SymArray(symnp._obj([[core.real("c%s_%d_%d" % (tag, i, j)) for j in range(n)] for i in range(n)]), symnp._F8), kms ** 2)
        else:
            e = units.Quantity(symnp.SymArray(symnp._obj([1.0] * n), symnp._F8), kms)
        return RVData(t, rv, e)

    def harness():
        if case == "count_mismatch":
            return [("list of 2 with n_offsets=0", lambda: vpd([mk(1, "a"), mk(1, "b")], 1, 0), ValueError),
                    ("list of 2 with n_offsets=2", lambda: vpd([mk(1, "a"), mk(1, "b")], 1, 2), ValueError),
                    ("list of 3 with n_offsets=1", lambda: vpd([mk(1, "a"), mk(1, "b"), mk(1, "c")], 2, 1), ValueError),
                    # labels of different lengths, one a prefix of another; integer and mixed-width labels
                    ("dict {hires, harps, harpsn} with n_offsets=1", lambda: vpd({"hires": mk(1, "a"), "harps": mk(1, "b"), "harpsn": mk(2, "c")}, 1, 1), ValueError),
                    ("dict {a, ab} with n_offsets=0", lambda: vpd({"a": mk(1, "a"), "ab": mk(1, "b")}, 1, 0), ValueError),
                    ("dict {1, 10, 100} with n_offsets=1", lambda: vpd({1: mk(1, "a"), 10: mk(1, "b"), 100: mk(1, "c")}, 1, 1), ValueError)]
        if case == "non_rvdata":
            return [("a tuple of arrays as a source", lambda: vpd([mk(1, "a"), (1.0, 2.0, 3.0)], 1, 1), TypeError),
                    ("a non-iterable", lambda: vpd(42, 1, 0), TypeError)]
        if case == "covariance":
            return [("covariance source in a list", lambda: vpd([mk(1, "a"), mk(2, "b", cov=True)], 1, 1), NotImplementedError)]
        if case == "single_with_offsets":
            return [("single RVData with n_offsets=1", lambda: vpd(mk(2, "a"), 1, 1), ValueError)]
        if case == "ok_list":
            return [("list of 2 with n_offsets=1", lambda: vpd([mk(1, "a"), mk(2, "b")], 2, 1), None)]
        return [("dict of 3 with n_offsets=2", lambda: vpd({"x": mk(1, "a"), "y": mk(1, "b"), "z": mk(1, "c")}, 1, 2), None),
                ("dict {hires, harps, harpsn} with n_offsets=2", lambda: vpd({"hires": mk(1, "a"), "harps": mk(1, "b"), "harpsn": mk(2, "c")}, 1, 2), None),
                ("single RVData with n_offsets=0", lambda: vpd(mk(2, "a"), 1, 0), None)]
    ex = core.Explorer(max_paths=200)
    twin = False
    for path in ex.paths(lambda: [(lbl, _try(fn), exp) for lbl, fn, exp in harness()]):
        core.Ctx.cur = path.ctx
        try:
            r, _, _ = path.check(core.SB(z3.BoolVal(False)))
            twin = twin or r == "sat"
            if path.raised is not None:
                if isinstance(path.raised, core.UnsupportedByShim):
                    raise path.raised
                sink.check(path, "data.harness", core.SB(z3.BoolVal(False)), site="validate_prepare_data", describe=lambda m: {"raised": repr(path.raised)[:200]})
                continue
            for lbl, (ok, exc), exp in path.result:
                good = (exp is None and ok) or (exp is not None and not ok and isinstance(exc, exp))
                sink.check(path, "data.%s" % case, core.SB(z3.BoolVal(bool(good))), site="validate_prepare_data", describe=lambda m, lbl=lbl, exc=exc: {"case": lbl, "raised": repr(exc)[:150]},
                           structural_claim=True)
        finally:
            core.Ctx.cur = None
    res["twin_ok"] = twin
    return ex


def _run_sampler_data(shape, res, sink):
    """through the sampler's public methods with the REAL validate_prepare_data: count mismatches and unsupported sources
    must raise on every call -- also when a list / dict that was valid on an earlier call has been edited in place since"""
    from checks import groupa
    S = groupa.Setup(with_api=True)
    st = S.st
    st.load("data_helpers")
    st.load("data")
    st.thejoker.validate_prepare_data = st.data_helpers.validate_prepare_data      # undo the harness stub for this family
    RVData = st.data.RVData
    kms = units.km / units.s

    def mk(n, tag, base, cov=False):
        t = symnp.SymArray(symnp._obj([core.real("t%s_%d" % (tag, i)) for i in range(n)]), symnp._F8)
        for i in range(n):
            core.assume(t.a[i] > base + i)
            core.assume(t.a[i] < base + i + 1)
        rv = units.Quantity(symnp.SymArray(symnp._obj([core.real("rv%s_%d" % (tag, i)) for i in range(n)]), symnp._F8), kms)
        e = units.Quantity(symnp.SymArray(symnp._obj([[1.0 if i == j else 0.0 for j in range(n)] for i in range(n)] if cov else [1.0] * n), symnp._F8), kms ** 2 if cov else kms)
        return RVData(t, rv, e)

    def harness():
        S.reset()
        prior = S.JokerPrior(S)
        prior.n_offsets, prior.poly_trend = 1, 1
        joker = st.thejoker.TheJoker(prior, pool=env.Pool(S.w, size=1), rng=env.SymRng(S.w))
        lib, lnp = S.library(1, with_lnp=False)
        samples = S.as_packed(lib)
        out = []
        data = [mk(1, "a", 0), mk(1, "b", 10)]
        out.append(("list of 2 sources, one offset prior", _try(lambda: joker.marginal_ln_likelihood(data, samples, in_memory=True)), None))
        data.append(mk(1, "c", 20))
        out.append(("the same list after a third source was appended", _try(lambda: joker.marginal_ln_likelihood(data, samples, in_memory=True)), ValueError))
        del data[2]
        out.append(("the same list with two sources again", _try(lambda: joker.marginal_ln_likelihood(data, samples, in_memory=True)), None))
        data[1] = mk(2, "d", 30, cov=True)
        out.append(("the same list with a covariance source put in", _try(lambda: joker.marginal_ln_likelihood(data, samples, in_memory=True)), NotImplementedError))
        data[1] = (1.0, 2.0, 3.0)
        out.append(("the same list with a non-RVData entry", _try(lambda: joker.rejection_sample(data, samples, in_memory=True)), TypeError))
        d2 = {"x": mk(1, "e", 40), "y": mk(1, "f", 50)}
        out.append(("dict of 2 sources", _try(lambda: joker.marginal_ln_likelihood(d2, samples, in_memory=True)), None))
        del d2["y"]
        out.append(("the same dict after one source was removed", _try(lambda: joker.marginal_ln_likelihood(d2, samples, in_memory=True)), ValueError))
        return out
    ex = core.Explorer(max_paths=50)
    twin = False
    for path in ex.paths(harness):
        core.Ctx.cur = path.ctx
        try:
            r, _, _ = path.check(core.SB(z3.BoolVal(False)))
            twin = twin or r == "sat"
            if path.raised is not None:
                if isinstance(path.raised, core.UnsupportedByShim):
                    raise path.raised
                sink.check(path, "sampler_data.harness", core.SB(z3.BoolVal(False)), site="TheJoker._make_joker_helper", describe=lambda m: {"raised": repr(path.raised)[:300]})
                continue
            for lbl, (ok, exc), exp in path.result:
                good = (exp is None and ok) or (exp is not None and not ok and isinstance(exc, exp))
                sink.check(path, "sampler_data", core.SB(z3.BoolVal(bool(good))), site="TheJoker._make_joker_helper", describe=lambda m, lbl=lbl, exc=exc: {"case": lbl, "raised": repr(exc)[:150]},
                           structural_claim=True)
        finally:
            core.Ctx.cur = None
    res["twin_ok"] = twin
    return ex


def _try(fn):
    try:
        fn()
        return True, None
    except (ValueError, TypeError, NotImplementedError) as e:
        return False, e


def _run_joker_init(shape, res, sink):
    from checks import groupa
    S = groupa.Setup(with_api=True)
    TJ = S.st.thejoker.TheJoker

    def harness():
        S.reset()
        good_prior = S.JokerPrior(S)
        rng = env.SymRng(S.w)
        pool = env.Pool(S.w, size=1)
        cases = [("valid", lambda: TJ(good_prior, pool=pool, rng=rng), None),
                 ("prior is a dict", lambda: TJ({"P": 1}, pool=pool, rng=rng), TypeError),
                 ("rng is an int seed", lambda: TJ(good_prior, pool=pool, rng=42), TypeError),
                 ("pool without map", lambda: TJ(good_prior, pool=object(), rng=rng), TypeError),
                 ("pool with map but no close", lambda: TJ(good_prior, pool=types.SimpleNamespace(map=map), rng=rng), TypeError)]
        return [(lbl, _try(fn), exp) for lbl, fn, exp in cases]
    ex = core.Explorer(max_paths=50)
    twin = False
    for path in ex.paths(harness):
        core.Ctx.cur = path.ctx
        try:
            r, _, _ = path.check(core.SB(z3.BoolVal(False)))
            twin = twin or r == "sat"
            if path.raised is not None:
                sink.check(path, "joker_init.harness", core.SB(z3.BoolVal(False)), site="TheJoker.__init__", describe=lambda m: {"raised": repr(path.raised)[:200]})
                continue
            for lbl, (ok, exc), exp in path.result:
                good = (exp is None and ok) or (exp is not None and not ok and isinstance(exc, exp))
                sink.check(path, "joker_init", core.SB(z3.BoolVal(bool(good))), site="TheJoker.__init__", describe=lambda m, lbl=lbl, exc=exc: {"case": lbl, "raised": repr(exc)[:150]},
                           structural_claim=True)
        finally:
            core.Ctx.cur = None
    res["twin_ok"] = twin
    return ex


def run_shape(shape, tier):
    res = new_result(shape)
    sink = VCSink(res, PROPERTY)
    ex = {"prior": _run_prior, "data": _run_data, "joker_init": _run_joker_init, "pars_forms": _run_pars_forms, "sampler_data": _run_sampler_data}[shape["what"]](shape, res, sink)
    fill_explorer(res, ex)
    if shape["what"] == "prior" and shape["param"] in ("K", "e", "dv0_1", "P"):
        res["witnesses"].append({"vc": "witness", "site": "prior", "shape": shape, "model": {"param": shape["param"], "scan": True}, "witness": True})
    return res


# ---------------------------------------------------------------------------------------------

def replay(cand):
    """real pymc objects: build the prior the model describes and see whether JokerPrior(...) accepts it"""
    import warnings
    warnings.simplefilter("ignore")
    import astropy.units as u
    import numpy as np
    import pymc as pm
    import thejoker as tj
    import thejoker.units as xu
    shape = cand["shape"]
    m = cand.get("model") or {}
    if shape["what"] != "prior":
        return _replay_other(shape, m)
    npoly, noff, target = shape["poly"], shape["noff"], shape["param"]
    UN = {"d": u.day, "yr": u.year, "km s-1": u.km / u.s, "": u.one, "rad": u.rad, "deg": u.deg}

    def parse(name):
        try:
            return u.Unit(name.replace("(", "").replace(")", "").replace("**", "^")) if name else u.one
        except Exception:
            return None

    def canonical(n):
        if n == "P":
            return u.day
        if n == "e":
            return u.one
        if n in ("omega", "M0"):
            return u.rad
        if n in ("s", "K") or n.startswith("dv0"):
            return u.km / u.s
        return u.km / u.s / u.day ** int(n[1:])
    import pytensor.tensor as _pt
    dist_of = {"exp_of_Normal": lambda nm: _pt.exp(pm.Normal(nm + "_in", 0.0, 1.0)),
               "Normal": lambda nm: pm.Normal(nm, 0.0, 5.0), "LogNormal": lambda nm: pm.LogNormal(nm, 0.0, 1.0), "HalfNormal": lambda nm: pm.HalfNormal(nm, 5.0),
               "Uniform": lambda nm: pm.Uniform(nm, -5.0, 5.0), "StudentT": lambda nm: pm.StudentT(nm, nu=3.0, mu=0.0, sigma=5.0)}
    scenarios = []
    if m.get("scan"):
        # witness: scan the whole menu on the real build
        unit_opts = {"P": [(u.day, True), (u.year, True), (u.km / u.s, False), (u.one, False)], "e": [(u.one, True), (u.rad, False), (u.deg, False)],
                     "K": [(u.km / u.s, True), (u.m / u.s, True), (u.one, False), (u.rad, False)], "dv0_1": [(u.km / u.s, True), (u.day, False)]}.get(target, [(canonical(target), True)])
        for un, okk in unit_opts:
            scenarios.append({"present": True, "has_unit": True, "unit": un, "kind": "FixedCompanionMass" if target == "K" else "Normal", "valid": okk})
        scenarios.append({"present": True, "has_unit": False, "unit": canonical(target), "kind": "Normal", "valid": False})
        if target in ("K", "dv0_1"):
            for kind in ("LogNormal", "HalfNormal", "Uniform", "StudentT"):
                scenarios.append({"present": True, "has_unit": True, "unit": canonical(target), "kind": kind, "valid": False})
        if target in ("P", "e", "K"):
            scenarios.append({"present": False, "has_unit": True, "unit": canonical(target), "kind": "Normal", "valid": False})
    else:
        un = parse(m.get("unit", ""))
        if un is None:
            return {"reproduced": False, "detail": "unit %r not realisable" % m.get("unit")}
        lin = target == "K" or target.startswith("v") or target.startswith("dv0")
        valid = m.get("present", True) and m.get("has_unit") and un.is_equivalent(canonical(target)) and (not lin or m.get("kind") in ("Normal", "FixedCompanionMass"))
        if lin and not m.get("has_owner", True):
            return {"reproduced": False, "detail": "variables without an owner are not realisable with pymc objects"}
        kind_ = m.get("kind", "Normal")
        if lin and not m.get("is_rv", True):
            kind_ = "exp_of_Normal"          # a deterministic transform of a Normal variable
            valid = False
        scenarios.append({"present": m.get("present", True), "has_unit": m.get("has_unit", True), "unit": un, "kind": kind_, "valid": bool(valid)})
    bad = []
    for sc in scenarios:
        try:
            with pm.Model() as model:
                given_offs = [xu.with_unit(pm.Normal("dv0_%d" % k, 0, 5), u.km / u.s) for k in range(1, noff + 1)]
                base = tj.JokerPrior.default(P_min=2 * u.day, P_max=100 * u.day, sigma_K0=30 * u.km / u.s, sigma_v=[10 * u.km / u.s, 1 * u.km / u.s / u.day, 0.1 * u.km / u.s / u.day ** 2][:npoly] if npoly > 1 else 10 * u.km / u.s,
                                             poly_trend=npoly, v0_offsets=list(given_offs))
            pars = dict(base.pars)
            offs = list(given_offs)          # the order in which the caller hands them over (dv0_1, dv0_2, ...)
            with pm.Model() as model2:
                kind = sc["kind"]
                if kind == "FixedCompanionMass" or (target in ("P", "e", "omega", "M0", "s") and kind == "Normal"):
                    var = None      # keep the default distribution, only the unit handling changes
                else:
                    var = dist_of[kind](target + "_x")
            if var is None:
                import pytensor.tensor as pt
                src = pars[target] if target in pars else offs[int(target.split("_")[1]) - 1]
                var = pt.as_tensor_variable(src) * 1.0 if False else src
                # re-wrap: copy of the variable without unit
                import copy
                var = copy.copy(src)
                if hasattr(var, xu.UNIT_ATTR_NAME):
                    delattr(var, xu.UNIT_ATTR_NAME)
            var.name = target
            if sc["has_unit"]:
                setattr(var, xu.UNIT_ATTR_NAME, sc["unit"])
            if target.startswith("dv0"):
                offs[int(target.split("_")[1]) - 1] = var
                pars.pop(target, None)
            elif sc["present"]:
                pars[target] = var
            else:
                pars.pop(target, None)
            for o in base.v0_offsets:
                pars.pop(o.name, None)
            try:
                pj = tj.JokerPrior(pars=pars, poly_trend=npoly, v0_offsets=offs, model=pm.Model())
                accepted = True
                want_off = [o.name for o in offs]
                want_names = ["P", "e", "omega", "M0", "s", "K"] + ["v%d" % j for j in range(npoly)] + want_off
                if [o.name for o in pj.v0_offsets] != want_off or list(pj.par_names) != want_names:
                    bad.append("accepted prior does not keep the order nonlinear, linear, offsets-as-given: par_names=%s" % list(pj.par_names))
            except (ValueError, TypeError):
                accepted = False
        except Exception as e:
            import traceback
            return {"reproduced": False, "error": traceback.format_exc()[-400:]}
        if accepted != sc["valid"]:
            bad.append("parameter %s (present=%s, unit=%s, prior=%s) was %s" % (target, sc["present"], sc["unit"] if sc["has_unit"] else None, sc["kind"], "ACCEPTED" if accepted else "REJECTED"))
    return {"reproduced": bool(bad), "detail": "; ".join(bad[:4])[:900] or "real JokerPrior accepts exactly the valid configurations"}


def _replay_other(shape, m):
    import astropy.units as u
    import numpy as np
    import thejoker as tj
    from thejoker.data_helpers import validate_prepare_data
    bad = []
    d = lambda n, off=0.0: tj.RVData(56000 + off + np.arange(n) * 3.0, np.arange(n) * 1.0 * u.km / u.s, np.ones(n) * u.km / u.s)
    dc = tj.RVData(56000 + np.arange(2) * 3.0, np.arange(2) * 1.0 * u.km / u.s, np.eye(2) * (u.km / u.s) ** 2)
    cases = [(lambda: validate_prepare_data([d(2), d(2, 1)], 1, 0), ValueError), (lambda: validate_prepare_data([d(2), d(2, 1)], 1, 2), ValueError),
             (lambda: validate_prepare_data([d(2), (1.0, 2.0)], 1, 1), TypeError), (lambda: validate_prepare_data(42, 1, 0), TypeError),
             (lambda: validate_prepare_data([d(2), dc], 1, 1), NotImplementedError), (lambda: validate_prepare_data(d(2), 1, 1), ValueError),
             (lambda: validate_prepare_data([d(2), d(2, 1)], 2, 1), None), (lambda: validate_prepare_data({"x": d(1), "y": d(1, 1), "z": d(1, 2)}, 1, 2), None),
             # source labels of different lengths (one a prefix of another) and integer labels of different widths
             (lambda: validate_prepare_data({"hires": d(1), "harps": d(1, 1), "harpsn": d(2, 2)}, 1, 1), ValueError),
             (lambda: validate_prepare_data({"a": d(1), "ab": d(1, 1)}, 1, 0), ValueError),
             (lambda: validate_prepare_data({1: d(1), 10: d(1, 1), 100: d(1, 2)}, 1, 1), ValueError),
             (lambda: validate_prepare_data({"hires": d(1), "harps": d(1, 1), "harpsn": d(2, 2)}, 1, 2), None)]
    if shape["what"] == "sampler_data":
        import pymc as pm
        import thejoker.units as xu
        with pm.Model():
            dv = xu.with_unit(pm.Normal("dv0_1", 0.0, 4.0), u.km / u.s)
            prior1 = tj.JokerPrior.default(P_min=2 * u.day, P_max=100 * u.day, sigma_K0=30 * u.km / u.s, sigma_v=10 * u.km / u.s, v0_offsets=[dv])
        jk = tj.TheJoker(prior1, rng=np.random.default_rng(1))
        smp = prior1.sample(size=4, rng=np.random.default_rng(2))
        lst = [d(2), d(2, 20)]
        dd2 = {"x": d(2), "y": d(2, 20)}
        cases = [(lambda: jk.marginal_ln_likelihood(lst, smp, in_memory=True), None),
                 (lambda: (lst.append(d(2, 40)), jk.marginal_ln_likelihood(lst, smp, in_memory=True)), ValueError),
                 (lambda: (lst.pop(), jk.marginal_ln_likelihood(lst, smp, in_memory=True)), None),
                 (lambda: (lst.__setitem__(1, dc), jk.marginal_ln_likelihood(lst, smp, in_memory=True)), NotImplementedError),
                 (lambda: (lst.__setitem__(1, (1.0, 2.0)), jk.rejection_sample(lst, smp, in_memory=True)), TypeError),
                 (lambda: jk.marginal_ln_likelihood(dd2, smp, in_memory=True), None),
                 (lambda: (dd2.pop("y"), jk.marginal_ln_likelihood(dd2, smp, in_memory=True)), ValueError)]
    if shape["what"] == "pars_forms":
        import pymc as pm
        import thejoker.units as xu

        def model_with_all():
            with pm.Model() as mdl:
                base = tj.JokerPrior.default(P_min=2 * u.day, P_max=100 * u.day, sigma_K0=30 * u.km / u.s, sigma_v=10 * u.km / u.s)
            return mdl, base
        mdl, base = model_with_all()
        full = dict(base.pars)
        cases = [(lambda: tj.JokerPrior(pars=dict(full), model=mdl), None), (lambda: tj.JokerPrior(pars=list(full.values()), model=mdl), None),
                 (lambda: tj.JokerPrior(pars={}, model=mdl), ValueError), (lambda: tj.JokerPrior(pars=[], model=mdl), ValueError),
                 (lambda: tj.JokerPrior(pars=(), model=pm.Model()), ValueError), (lambda: tj.JokerPrior(pars=None, model=pm.Model()), ValueError),
                 (lambda: tj.JokerPrior(pars=full["P"], model=pm.Model()), ValueError),
                 (lambda: tj.JokerPrior(pars={k: v for k, v in full.items() if k != "K"}, model=mdl), ValueError)]
    if shape["what"] == "joker_init":
        prior = tj.JokerPrior.default(P_min=2 * u.day, P_max=100 * u.day, sigma_K0=30 * u.km / u.s, sigma_v=10 * u.km / u.s)
        import types as _t
        cases = [(lambda: tj.TheJoker(prior, rng=np.random.default_rng(1)), None), (lambda: tj.TheJoker({"P": 1}), TypeError), (lambda: tj.TheJoker(prior, rng=42), TypeError),
                 (lambda: tj.TheJoker(prior, pool=object()), TypeError), (lambda: tj.TheJoker(prior, pool=_t.SimpleNamespace(map=map)), TypeError)]
    for i, (fn, exp) in enumerate(cases):
        try:
            fn()
            got = None
        except Exception as e:
            got = e
        if (exp is None) != (got is None) or (exp is not None and not isinstance(got, exp)):
            bad.append("case %d: expected %s, got %r" % (i, exp.__name__ if exp else "acceptance", got))
    return {"reproduced": bool(bad), "detail": "; ".join(bad[:4]) or "real build accepts / rejects as the property states"}
