"""C03 -- linear parameters are drawn from the exact conditional posterior.

Encoded (current tree): fast_likelihood.pyx likelihood_worker(1) and batch_get_posterior_samples
(transliterated), likelihood_helpers.make_full_samples_inmem, samples.JokerSamples.unpack (real Python).
Cut points: W1 the symmetric system handed to dsysv = Lambda^-1 + M^T W M; W2 its right-hand side =
Lambda^-1 mu + M^T W y; W3 rng.multivariate_normal receives exactly that solution as mean and the
inverse of the same matrix as covariance, size = n_linear_samples; W4 the K variance follows the same
capped rule as the marginal likelihood; W5 every output row is the unchanged nonlinear row followed by
its own draw in design-matrix order; W6 unpack attaches the kernel's internal units in that order.
Recorded findings (jitter never read; no max_K cap in the posterior pass) are KNOWN-FINDINGs with masks.
"""
import math
from fractions import Fraction

from symx import core, symnp, units, env
from symx.core import z3
from symx.framework import new_result, VCSink, fill_explorer, add_witness
from checks import kernel, c01
from checks.kernel import L

PROPERTY = "C03"
LEVEL = "model_checking"
FUNCTIONS = [("thejoker/likelihood_helpers.py", "make_full_samples_inmem"), ("thejoker/samples.py", "JokerSamples.unpack"),
             ("thejoker/utils.py", "_pytensor_get_mean_std")]
PYX_FUNCTIONS = ['CJokerHelper.__init__', 'CJokerHelper.make_AAinv', 'CJokerHelper.make_bBBinv', 'CJokerHelper.likelihood_worker', 'CJokerHelper.batch_get_posterior_samples', 'get_ivar']
ASSUMPTIONS = c01.ASSUMPTIONS[:4] + [
    "dsysv('U', ...) by contract: solution x of sym(S).x = rhs where sym completes the triangle LAPACK reads (row-major lower); np.linalg.inv by contract X.Y = I; "
    "'n independent draws from N(a, A)' rests on numpy's Generator.multivariate_normal (trusted)",
    "bounds: n_epochs <= 3, poly_trend <= 2, n_offsets <= 1, chunk rows <= 2, n_linear_samples <= 2",
]


def bounds(tier):
    return {"n_epochs": [1, 3], "poly_trend": [1, 2 if tier == "quick" else 3], "n_offsets": [0, 1], "chunk_rows": [1, 2], "n_linear_samples": [1, 2]}


def shapes(tier):
    out = []
    base = [(1, 1, 0), (2, 1, 0), (2, 2, 0), (3, 2, 1)]
    if tier == "thorough":
        base += [(3, 2, 0), (3, 3, 0), (4, 2, 1), (3, 1, 2)]
    for nt, npoly, noff in base:
        for K in ("default", "normal"):
            if K == "normal" and noff:
                continue     # custom K + offsets: recorded finding of C01 (constructor), not repeated here
            out.append({"nt": nt, "poly": npoly, "noff": noff, "K": K, "units": "plain", "P_unit": "day", "tref": "default", "rows": 1 + (nt % 2), "n_lin": 1 + (npoly % 2)})
    out.append({"nt": 2, "poly": 2, "noff": 1, "K": "default", "units": "sym", "P_unit": "day", "tref": "default", "rows": 1, "n_lin": 1, "slots_only": True})
    # a cubic trend (three trend columns that must be three different powers)
    out.append({"nt": 2, "poly": 3, "noff": 0, "K": "default", "units": "plain", "P_unit": "day", "tref": "default", "rows": 1, "n_lin": 1})
    # non-default reference epochs of a single source
    out.append({"nt": 2, "poly": 2, "noff": 0, "K": "default", "units": "plain", "P_unit": "day", "tref": "false", "rows": 1, "n_lin": 1})
    out.append({"nt": 2, "poly": 2, "noff": 0, "K": "default", "units": "plain", "P_unit": "day", "tref": "explicit", "rows": 1, "n_lin": 1})
    return out


def run_shape(shape, tier):
    res = new_result(shape)
    sink = VCSink(res, PROPERTY)
    S = kernel.KSetup()
    lh = S.st.load("samples") and S.st.likelihood_helpers
    # likelihood_helpers imports JokerSamples lazily from .samples: already shim-loaded above

    def harness():
        S.reset()
        pb = kernel.make_problem(S, shape)
        rows = kernel.chunk_rows(shape["rows"])
        chunk = symnp.SymArray(symnp._obj([list(r) for r in rows]), symnp._F8)
        h = S.Helper(pb["data"], pb["prior"], pb["trend_M"])
        rng = env.SymRng(S.w)
        raw, ll = h.batch_get_posterior_samples(chunk, shape["n_lin"], rng)
        raw_cells = [list(raw.a[i]) for i in range(raw.a.shape[0])] if isinstance(raw, symnp.SymArray) and raw.a.ndim == 2 else None
        # the real Python wrapper on top (second pass on the same helper: also exercises call history)
        rng2 = env.SymRng(S.w, key=("root", "wrapper"))
        samples = lh.make_full_samples_inmem(h, chunk, rng2, n_linear_samples=shape["n_lin"])
        return pb, rows, h, raw, raw_cells, samples

    ex = core.Explorer(max_paths=200, solver_timeout_ms=60000)
    twin = False
    for path in ex.paths(harness):
        core.Ctx.cur = path.ctx
        try:
            r, _, _ = path.check_isolated(core.SB(z3.BoolVal(False)))
            twin = twin or r == "sat"
            if path.raised is not None:
                sink.check(path, "kernel_runs", core.SB(z3.BoolVal(False)), site="batch_get_posterior_samples", describe=lambda m: {"raised": repr(path.raised)[:300], "generic": True})
                continue
            pb, rows, h, raw, raw_cells, samples = path.result
            _vcs(sink, path, S, shape, pb, rows, h, raw, raw_cells, samples, res)
        finally:
            core.Ctx.cur = None
    res["twin_ok"] = twin
    fill_explorer(res, ex)
    return res


def _vcs(sink, path, S, shape, pb, rows, h, raw, raw_cells, samples, res):
    nt, npoly, noff, nlin_s = shape["nt"], shape["poly"], shape["noff"], shape["n_lin"]
    nl = 1 + npoly + noff
    nrows = len(rows)
    rec = S.rec
    desc = c01.describe_factory(pb, rows, shape)
    pref = c01.prefer_nice(pb, rows)
    data = pb["data"]
    tref = pb.get("tref_spec", data._t_ref_bmjd)     # the prescribed epoch, not the one the code stored
    t_cells = kernel.cells1(data._t_bmjd, nt)
    y_cells = kernel.cells1(data.rv.value, nt)
    err_cells = kernel.cells1(data.rv_err.value, nt)
    tm = pb["trend_M"].a
    sys_calls = rec.of("dsysv")
    mvn = [d for d in S.w.streams.get(("root",), []) if d[0] == "mvn"]
    invs = path.ctx.notes.get("inv", [])
    ok = len(sys_calls) == 2 * nrows and len(mvn) == nrows and len(invs) == 2 * nrows and raw_cells is not None and len(raw_cells) == nrows * nlin_s
    sink.check(path, "W.call_sequence", core.SB(z3.BoolVal(bool(ok))), site="batch_get_posterior_samples", describe=desc)
    # the trend / offset columns the draws refer to: constant, survey indicators, powers of (t - prescribed epoch) (same claim as C01-V3)
    cl = []
    for n in range(nt):
        cl.append(L(tm[n, 0]) == 1)
        for k in range(1, noff + 1):
            cl.append(L(tm[n, k]) == (1 if kernel.survey_of(n, nt, noff) == k else 0))
        p_ = t_cells[n] - tref
        acc = p_
        for q in range(1, npoly):
            cl.append(L(tm[n, noff + q]) == L(acc))
            acc = acc * p_
    sink.check(path, "W3.trend_columns", core.SB(z3.And(cl)), site="design_matrix", describe=desc, prefer=pref, isolated=True)
    if not ok:
        return
    mu_code = kernel.cells1(h.mu, nl)
    lam_code = kernel.cells1(h.Lambda, nl)
    order = kernel.design_order(pb)
    # W4 (prior part): the mean / variance slots the posterior is built from are the declared prior in the data unit
    mus_l, lams_l = kernel.spec_prior_slots(pb, rows[-1])
    for j, nm in enumerate(order):
        sink.check(path, "W4.mu[%s]" % nm, core.SB(L(mu_code[j]) == L(mus_l[j])), site="CJokerHelper.__init__.mu", describe=desc, prefer=pref, isolated=True)
        if not (nm == "K" and shape["K"] == "default"):
            sink.check(path, "W4.Lambda[%s]" % nm, core.SB(L(lam_code[j]) == L(lams_l[j])), site="CJokerHelper.__init__.Lambda", describe=desc, prefer=pref, isolated=True)
    if shape.get("slots_only"):
        return
    for k in range(nrows):
        P, e, om, M0, s = rows[k]
        M = [[core.uf("RV", t_cells[n] - tref, P, e, om, M0) for n in range(nt)]] + [[tm[n, i - 1] for n in range(nt)] for i in range(1, nl)]
        mus_k, lams_k = kernel.spec_prior_slots(pb, rows[k])
        var = [err_cells[n] * err_cells[n] + s * s for n in range(nt)]
        w = [kernel.recip(v) for v in var]
        mask_j = L(s) == 0
        # W4: the K variance used in this pass
        Ssys = sys_calls[k][2]
        lam_used = [None] + list(lam_code[1:])
        if shape["K"] == "default":
            rule = pb["_last_K_rule"]            # the very terms the spec's capped rule is made of
            mask_cap = L(rule["uncapped"]) <= L(rule["cap"])
            lam0_spec = lams_k[0]
        else:
            mask_cap = z3.BoolVal(True)
            lam0_spec = lams_k[0]
        linv = [kernel.recip(lam0_spec)] + [kernel.recip(x) for x in lam_code[1:]]
        lam_all = [lam0_spec] + list(lam_code[1:])

        def masked(name, claim, site, free):
            full_mask = z3.And(mask_j, mask_cap)
            r = sink.check(path, name + "[s=0,uncapped]", core.SB(z3.Implies(full_mask, claim)), site=site, describe=desc, prefer=pref, isolated=True)
            if r != "unsat":
                return
            # the two recorded findings separately: jitter (cap mask kept) and cap (jitter mask kept)
            r = sink.check(path, name + "[uncapped]", core.SB(z3.Implies(mask_cap, claim)), site=site + "|jitter", describe=desc, prefer=pref, isolated=True,
                           timeout_ms=3000, guided_free=[str(L(s))])
            if shape["K"] == "default":
                cap_pref = [c for c in pref] + [z3.Not(mask_cap)]
                sink.check(path, name + "[s=0]", core.SB(z3.Implies(mask_j, claim)), site=site + "|no_cap", describe=desc, prefer=cap_pref, isolated=True,
                           timeout_ms=3000, guided_free=[str(L(P)), str(L(e))])
        # W1: system matrix
        cl = []
        for i in range(nl):
            for j in range(nl):
                spec = core.sym_sum([M[i][n] * w[n] * M[j][n] for n in range(nt)])
                if i == j:
                    spec = spec + linv[i]
                cl.append(L(Ssys[i][j]) == L(spec))
        masked("W1.system[%d]" % k, z3.And(cl), "likelihood_worker.dsysv_matrix", None)
        # W2: right-hand side
        rhs = sys_calls[k][3]
        cl = []
        for i in range(nl):
            spec = core.sym_sum([M[i][n] * w[n] * y_cells[n] for n in range(nt)]) + mu_code[i] * linv[i]
            cl.append(L(rhs[i]) == L(spec))
        masked("W2.rhs[%d]" % k, z3.And(cl), "likelihood_worker.rhs", None)
        # W3: what the generator was asked for
        d = mvn[k]
        mean, cov, n_draw, cells = d[1], d[2], d[3], d[4]
        sol = sys_calls[k][4]
        X, Y = invs[k]
        same_mean = isinstance(mean, symnp.SymArray) and len(mean.a) == nl and all(core.is_sym(a) and z3.eq(L(a), L(b)) for a, b in zip(mean.a, sol))
        same_cov = isinstance(cov, symnp.SymArray) and cov.a.shape == (nl, nl) and all(cov.a[i, j] is Y[i, j] for i in range(nl) for j in range(nl))
        sink.check(path, "W3.mvn_arguments[%d]" % k, core.SB(z3.BoolVal(bool(same_mean and same_cov and n_draw == nlin_s))), site="batch_get_posterior_samples.mvn", describe=desc)
        cl = []
        for i in range(nl):
            for j in range(nl):
                spec = core.sym_sum([M[i][n] * w[n] * M[j][n] for n in range(nt)])
                if i == j:
                    spec = spec + linv[i]
                cl.append(L(X.a[i, j]) == L(spec))
        masked("W3.cov_is_inverse_of_system[%d]" % k, z3.And(cl), "batch_get_posterior_samples.cov", None)
        # W5: rows
        cl = []
        for j in range(nlin_s):
            rowc = raw_cells[k * nlin_s + j]
            okw = len(rowc) == 5 + nl
            cl.append(z3.BoolVal(okw))
            if okw:
                cl += [L(rowc[c]) == L(rows[k][c]) for c in range(5)]
                cl += [z3.BoolVal(rowc[5 + q] is cells[j][q]) for q in range(nl)]
        sink.check(path, "W5.rows[%d]" % k, core.SB(z3.And(cl)), site="batch_get_posterior_samples.rows", describe=desc)
    # W6: the Python wrapper + unpack: names, units, values
    tbl = getattr(samples, "tbl", None)
    names = ["P", "e", "omega", "M0", "s"] + order
    du = pb["dunit"]
    want_units = {"P": units.day, "e": units.one, "omega": units.rad, "M0": units.rad, "s": du, "K": du, "v0": du}
    for nm in pb["off_names"]:
        want_units[nm] = du
    for j in range(1, npoly):
        want_units["v%d" % j] = du / units.day ** j
    okw = tbl is not None and tbl.colnames == names and len(tbl) == nrows * nlin_s
    cl = [z3.BoolVal(bool(okw))]
    if okw:
        mvn2 = [d for d in S.w.streams.get(("root", "wrapper"), []) if d[0] == "mvn"]
        cl.append(z3.BoolVal(len(mvn2) == nrows))
        if len(mvn2) == nrows:
            for k in range(nrows):
                for j in range(nlin_s):
                    r_ = k * nlin_s + j
                    for c, nm in enumerate(names):
                        cell = tbl[nm].value.a[r_]
                        cl.append(tbl[nm].unit.same_as(want_units[nm]))
                        if c < 5:
                            cl.append(L(cell) == L(rows[k][c]))
                        else:
                            cl.append(z3.BoolVal(cell is mvn2[k][4][j][c - 5]))
        tr = samples.t_ref
        cl.append(z3.BoolVal(tr is data.t_ref and samples.poly_trend == npoly and samples.n_offsets == noff))
    sink.check(path, "W6.unpack", core.SB(z3.And(cl)), site="make_full_samples_inmem", describe=desc)
    add_witness(res, path, desc, site="posterior", limit=1, isolated=True, prefer=c01.prefer_nice(pb, rows, jitter_zero=True) + ([mask_cap] if shape["K"] == "default" else []))


# ---------------------------------------------------------------------------------------------

from checks import kernel_conc as _kc


@_kc.replay_both
def replay(cand):
    """real compiled kernel with a recording Generator: (mean, cov) handed to multivariate_normal vs the dense
    conditional posterior N(a, A), A = (Lambda^-1 + M^T Cs^-1 M)^-1, a = A (Lambda^-1 mu + M^T Cs^-1 y)"""
    import numpy as np
    import astropy.units as u
    import thejoker as tj
    import thejoker.units as xu
    from thejoker.samples import JokerSamples
    from twobody.wrap import cy_rv_from_elements
    shape = cand["shape"]
    m = dict(cand.get("model") or {})
    if (cand.get("site") or "").endswith("|no_cap") and "rows" in m:
        # POW is uninterpreted in the encoding: realise "uncapped variance above the cap" with the real power law
        m["pri"] = dict(m["pri"], K=[m["pri"]["K"][0], None, "30", "365", "40"])
        m["rows"] = [["2", "1/10", r[2], r[3], "0"] for r in m["rows"]]
    try:
        rp = c01.build_real_problem(shape, m)
    except Exception:
        import traceback
        return {"reproduced": False, "error": "could not realise the model: %s" % traceback.format_exc()[-300:]}
    nt, npoly, noff = shape["nt"], shape["poly"], shape["noff"]
    rows = np.array(rp["rows"], dtype=float)
    s = JokerSamples(poly_trend=npoly, n_offsets=noff)
    s["P"], s["e"], s["omega"], s["M0"], s["s"] = rows[:, 0] * u.day, rows[:, 1] * u.one, rows[:, 2] * u.rad, rows[:, 3] * u.rad, rows[:, 4] * rp["dunit"]

    class Rec(np.random.Generator):
        def __init__(self):
            super().__init__(np.random.PCG64(3))
            self.calls = []

        def multivariate_normal(self, mean, cov, size=None, **kw):
            self.calls.append((np.array(mean), np.array(cov), size))
            return super().multivariate_normal(mean, cov, size=size, **kw)
    rng = Rec()
    joker = tj.TheJoker(rp["prior"], rng=rng)
    helper = joker._make_joker_helper(rp["data"])
    chunk, _ = s.pack(units=helper.internal_units, names=helper.packed_order)
    from thejoker.likelihood_helpers import make_full_samples_inmem
    try:
        out = make_full_samples_inmem(helper, chunk, rng, n_linear_samples=shape["n_lin"])
    except Exception as e:
        return {"reproduced": True, "detail": "make_full_samples_inmem raised %s: %s" % (type(e).__name__, str(e)[:200])}
    du = rp["dunit"]
    t, y, err = rp["t"], rp["y"], rp["err"]
    tref = 0.0 if rp["tref"] is False else (rp["tref"].tcb.mjd if rp["tref"] is not None else t.min())
    names = ["K", "v0"] + ["dv0_%d" % k for k in range(1, noff + 1)] + ["v%d" % j for j in range(1, npoly)]
    bad = []
    if len(rng.calls) != len(rows):
        bad.append("%d multivariate_normal calls for %d nonlinear samples" % (len(rng.calls), len(rows)))
    big = 1.0
    for k, (P, e, om, M0, sj) in enumerate(rows):
        if k >= len(rng.calls):
            break
        M = np.zeros((nt, len(names)))
        M[:, 0] = cy_rv_from_elements(np.ascontiguousarray(t), P, 1.0, e, om, M0, tref, 1e-12, 256)
        M[:, 1] = 1.0
        for q in range(1, noff + 1):
            M[:, 1 + q] = np.array([kernel.survey_of(i, nt, noff) == q for i in range(nt)], dtype=float)
        for j in range(1, npoly):
            M[:, 1 + noff + j] = (t - tref) ** j
        mu, var = [], []
        for nm in names:
            par = rp["prior"].pars[nm]
            unit = getattr(par, xu.UNIT_ATTR_NAME)
            j = int(nm[1:]) if nm[0] == "v" else 0
            tgt = du / u.day ** j
            pr = par.owner.op.dist_params(par.owner)
            mu.append((float(pr[0].eval()) * unit).to_value(tgt))
            if nm == "K" and shape["K"] == "default":
                var.append(min(par._sigma_K0.to_value(du) ** 2 * (P / par._P0.to_value(u.day)) ** (-2 / 3.) / (1 - e ** 2), par._max_K.to_value(du) ** 2))
            else:
                var.append((float(pr[1].eval()) * unit).to_value(tgt) ** 2)
        mu, var = np.array(mu), np.array(var)
        big = max(big, float(np.max(var * np.max(np.abs(M), axis=0) ** 2)))
        W = np.diag(1.0 / (err ** 2 + sj ** 2))
        Ainv = np.diag(1 / var) + M.T @ W @ M
        A = np.linalg.inv(Ainv)
        a = A @ (mu / var + M.T @ W @ y)
        mean, cov, size = rng.calls[k]
        if size != shape["n_lin"]:
            bad.append("size=%r" % (size,))
        if not np.allclose(mean, a, rtol=2e-4, atol=1e-6 * max(1, np.max(np.abs(a)))):
            bad.append("row %d: mean handed to the generator %s, exact conditional mean %s" % (k, mean.tolist(), a.tolist()))
        if not np.allclose(cov, A, rtol=2e-4, atol=1e-9 * max(1, np.max(np.abs(A)))):
            bad.append("row %d: covariance handed to the generator differs from (Lambda^-1 + M^T Cs^-1 M)^-1 (diag %s vs %s)" % (k, np.diag(cov).tolist(), np.diag(A).tolist()))
    if big / float(np.min(err) ** 2) > 1e9:
        return {"reproduced": False, "detail": "ill-conditioned input, float round-off dominates; outside the claim"}
    # output layout
    want_cols = ["P", "e", "omega", "M0", "s"] + names
    if out.tbl.colnames != want_cols:
        bad.append("columns %s, expected %s" % (out.tbl.colnames, want_cols))
    else:
        n_lin = shape["n_lin"]
        for k in range(len(rows)):
            for j in range(n_lin):
                r_ = k * n_lin + j
                got = [float(out[c][r_].to_value(un)) for c, un in zip(["P", "e", "omega", "M0"], [u.day, u.one, u.rad, u.rad])] + [float(out["s"][r_].to_value(du))]
                if not np.allclose(got, rows[k], rtol=1e-12, atol=0):
                    bad.append("output row %d does not carry the nonlinear parameters of sample %d" % (r_, k))
        for nm in names:
            j = int(nm[1:]) if nm[0] == "v" else 0
            if not out[nm].unit.is_equivalent(du / u.day ** j) or out[nm].unit != du / u.day ** j:
                bad.append("unit of %s is %s" % (nm, out[nm].unit))
    return {"reproduced": bool(bad), "detail": "; ".join(bad[:3])[:900] or "real build agrees with the conditional posterior"}
