"""C12 -- sample files round-trip exactly and batch reads return the rows asked for.

Partly reachable by this technique.  Encoded on real code of the current tree:
  compare   samples_helpers._custom_tbl_dtype_compare on symbolic header lists (column count, and per column a
            symbolic choice of name / datatype / unit incl. "absent" vs "" vs a real unit): accepted <=> same number
            of columns with equal names, datatypes and units (a missing unit and the dimensionless "" coincide);
  append    the append branch of samples_helpers.write_table_hdf5 against an h5py model that logs every mutating
            call: an incompatible append raises and NO mutating call was issued before the refusal; a compatible one
            leaves the old rows followed by the new ones;
  dispatch  JokerSamples.write (extension / append flags) and utils.read_batch (tuple, slice, int, index array,
            invalid) dispatch;
  reads     read_batch_slice / read_batch_idx / read_random_batch against the pytables stub: cell (r, c) is column
            columns[c] of the requested row r times unit_in/unit_out; the random subset has no repeats and is drawn
            from the rng argument.
NOT reachable: byte-level fidelity of HDF5 / FITS / YAML serialisation (h5py, pytables, astropy.io are C / I/O code
with no encodable semantics).  That half of the property is only exercised by real write -> read round trips that are
run as conformance traces on every run (they validate the stubs), not decided by the solver.
"""
import types

from symx import core, stack, env, symnp, units
from symx.core import z3
from symx.framework import new_result, VCSink, fill_explorer
from checks import groupa

PROPERTY = "C12"
LEVEL = "model_checking"
FUNCTIONS = [("thejoker/samples_helpers.py", "_custom_tbl_dtype_compare"), ("thejoker/samples_helpers.py", "write_table_hdf5"),
             ("thejoker/samples.py", "JokerSamples.write"), ("thejoker/utils.py", "read_batch"), ("thejoker/utils.py", "read_batch_slice"),
             ("thejoker/utils.py", "read_batch_idx"), ("thejoker/utils.py", "read_random_batch"), ("thejoker/utils.py", "table_header_to_units")]
ASSUMPTIONS = [
    "h5py / pytables / astropy header (de)serialisation by contract: a table header is the list of {name, datatype, unit?} per column plus the meta dict; datasets are row lists; create/resize/assign/delete are the mutating calls",
    "byte-level HDF5/FITS/YAML fidelity is NOT decided here (not encodable); real round trips are run as conformance traces only",
    "bounds: <= 2 columns per header, 5 column descriptors, <= 3 rows; read shapes N <= 4",
]
MENU = [{"name": "a", "datatype": "float64", "unit": "km / s"}, {"name": "a", "datatype": "float64"}, {"name": "a", "datatype": "float64", "unit": ""},
        {"name": "b", "datatype": "float64", "unit": "km / s"}, {"name": "a", "datatype": "int64", "unit": "km / s"}, {"name": "a", "datatype": "float64", "unit": "d"},
        {"name": "a", "datatype": "float32", "unit": "km / s"}]


def bounds(tier):
    return {"columns_per_header": [0, 2 if tier == "quick" else 3], "column_descriptors": len(MENU), "rows": [1, 3], "read_N": [1, 4]}


def shapes(tier):
    out = []
    for n1 in (0, 1, 2):
        for n2 in (0, 1, 2):
            out.append({"what": "compare", "n1": n1, "n2": n2})
    if tier == "thorough":
        for n1, n2 in ((3, 0), (0, 3), (3, 1), (1, 3)):
            out.append({"what": "compare", "n1": n1, "n2": n2})
    for n0 in (1, 2):
        for n1 in (1, 2):
            out.append({"what": "append", "n0": n0, "n1": n1})
    if tier == "thorough":
        out.append({"what": "append", "n0": 3, "n1": 1})
        out.append({"what": "append", "n0": 1, "n1": 3})
    out.append({"what": "dispatch"})
    for N in (1, 2, 3, 4):
        out.append({"what": "reads", "N": N})
    # every contiguous-range request: open ends (None), empty ranges (stop <= start, stop = 0), steps
    for N in (2, 3):
        for step in (None, 1, 2):
            out.append({"what": "slices", "N": N, "step": step})
    # history: the same file name held another table in other units, which was read before
    out.append({"what": "reads", "N": 2, "history": "file_rewritten"})
    return out


def _same_col(a, b):
    ua, ub = a.get("unit", ""), b.get("unit", "")
    return a["name"] == b["name"] and a["datatype"] == b["datatype"] and ua == ub


def _pick(n, tag):
    cols, idx = [], []
    for i in range(n):
        k = core.integer("%s_col%d" % (tag, i))
        core.assume(k >= 0)
        core.assume(k < len(MENU))
        v = core.fork_int(k, 0, len(MENU) - 1)
        idx.append(v)
        cols.append(dict(MENU[v]))
    return cols, idx


def _run_compare(shape, res, sink):
    st = stack.Stack(load=())
    sh = _helpers_shims(st, None)
    mod = st.load("samples_helpers") if False else __import__("symx.loader", fromlist=["load"]).load("thejoker/samples_helpers.py", sh, "thejoker.samples_helpers")
    cmp_ = mod._custom_tbl_dtype_compare

    def harness():
        d1, i1 = _pick(shape["n1"], "h1")
        d2, i2 = _pick(shape["n2"], "h2")
        return d1, d2, cmp_(d1, d2)
    ex = core.Explorer(max_paths=5000)
    twin = False
    for path in ex.paths(harness):
        r, _, _ = path.check(core.SB(z3.BoolVal(False)))
        twin = twin or r == "sat"
        if path.raised is not None:
            sink.check(path, "compare.no_exception", core.SB(z3.BoolVal(False)), site="_custom_tbl_dtype_compare", describe=lambda m: {"raised": repr(path.raised)[:200]})
            continue
        d1, d2, got = path.result
        want = len(d1) == len(d2) and all(_same_col(a, b) for a, b in zip(d1, d2))
        sink.check(path, "compare.accepts_iff_same_columns", core.SB(z3.BoolVal(bool(got) == want)), site="_custom_tbl_dtype_compare",
                   describe=lambda m, d1=d1, d2=d2, got=got: {"d1": d1, "d2": d2, "returned": bool(got)}, structural_claim=True)
    res["twin_ok"] = twin
    return ex


# ---- h5py model for the append branch ------------------------------------------------------

class HLine:
    def __init__(self, header):
        self.header = header

    def decode(self, enc):
        return self

    def encode(self, enc):
        return self


class HDataset:
    def __init__(self, model, name, rows=None, header=None):
        self.model, self.name = model, name
        self.rows = list(rows or [])
        self.header = header

    def __len__(self):
        return len(self.rows)

    def __iter__(self):
        if self.header is not None:
            yield HLine(self.header)

    def resize(self, shape):
        self.model.log.append(("resize", self.name, shape))
        n = int(shape[0])
        self.rows = self.rows[:n] + [None] * (n - len(self.rows))

    def __setitem__(self, k, v):
        self.model.log.append(("assign", self.name))
        if isinstance(k, slice) and k.stop is None and k.step is None:
            start = int(k.start)
            vals = list(v)
            self.rows[start:start + len(vals)] = vals
        else:
            raise core.UnsupportedByShim("dataset assignment %r" % (k,))

    @property
    def attrs(self):
        return {}


class HGroup:
    def __init__(self, model):
        self.model = model
        self.items = {}

    def keys(self):
        return list(self.items.keys())

    def __contains__(self, k):
        return k in self.items

    def __getitem__(self, k):
        return self.items[k]

    def __delitem__(self, k):
        self.model.log.append(("delete", k))
        del self.items[k]

    def create_dataset(self, name, data=None, **kw):
        self.model.log.append(("create", name))
        if isinstance(data, list) and data and isinstance(data[0], HLine):
            ds = HDataset(self.model, name, header=data[0].header)
        else:
            ds = HDataset(self.model, name, rows=list(data) if data is not None else [])
        self.items[name] = ds
        return ds

    def create_group(self, name):
        self.model.log.append(("create_group", name))
        g = HGroup(self.model)
        self.items[name] = g
        return g

    def close(self):
        pass


class HFile(HGroup):
    pass


class HModel:
    def __init__(self):
        self.files = {}
        self.log = []


class Tbl:
    """what write_table_hdf5 needs from an astropy table"""
    def __init__(self, cols, meta, rows):
        self.cols, self.meta, self.rows = cols, dict(meta), list(rows)

    @property
    def colnames(self):
        return [c["name"] for c in self.cols]

    def itercols(self):
        for c in self.cols:
            yield types.SimpleNamespace(info=types.SimpleNamespace(dtype=types.SimpleNamespace(kind="f"), unit=c.get("unit"), format=None, description=None, meta=None))

    def as_array(self):
        return list(self.rows)

    def __len__(self):
        return len(self.rows)

    def copy(self, copy_data=True):
        return Tbl(self.cols, self.meta, self.rows)


class MergeConflictError(Exception):
    pass


def _helpers_shims(st, hm):
    sh = dict(st.shims)
    h5 = types.ModuleType("h5py")
    h5.File = HFile
    h5.Group = HGroup
    if hm is not None:
        def File(path, mode="r"):
            hm.log.append(("open", path, mode))
            if mode == "w":
                hm.log.append(("truncate", path))
                hm.files[path] = HFile(hm)
            if path not in hm.files:
                hm.files[path] = HFile(hm)
            return hm.files[path]
        h5.File = File
        h5.File = type("FileFactory", (), {"__call__": staticmethod(File)})()
        # isinstance(output, (h5py.File, h5py.Group)) must keep working: expose classes and a callable
        class _F(HFile):
            def __new__(cls, path, mode="r"):
                return File(path, mode)
        h5.File = _F
    sh["h5py"] = h5
    hdf5 = types.ModuleType("astropy.io.misc.hdf5")
    hdf5.meta_path = env.meta_path
    hdf5._encode_mixins = lambda t: t
    sh["astropy.io.misc.hdf5"] = hdf5
    tmeta = types.ModuleType("astropy.table.meta")
    tmeta.get_header_from_yaml = lambda lines: next(iter(lines)).header
    tmeta.get_yaml_from_table = lambda t: [HLine({"datatype": [dict(c) for c in t.cols], "meta": dict(t.meta)})]
    sh["astropy.table.meta"] = tmeta
    atab = types.ModuleType("astropy.table")
    atab.meta = tmeta
    sh["astropy.table"] = atab
    md = types.ModuleType("astropy.utils.metadata")

    def merge(left, right, metadata_conflicts="warn"):
        for k in set(left) & set(right):
            if left[k] != right[k] and metadata_conflicts == "error":
                raise MergeConflictError(k)
        out = dict(left)
        out.update(right)
        return out
    md.merge = merge
    md.MergeConflictError = MergeConflictError
    au = types.ModuleType("astropy.utils")
    au.metadata = md
    sh["astropy.utils"] = au
    sh["astropy.utils.metadata"] = md
    ex_ = types.ModuleType("astropy.utils.exceptions")
    ex_.AstropyUserWarning = type("AstropyUserWarning", (Warning,), {})
    sh["astropy.utils.exceptions"] = ex_
    if hm is not None:
        import os as _os

        class _P:
            def __getattr__(self, n):
                return getattr(_os.path, n)

            @staticmethod
            def exists(p):
                return p in hm.files
        osm = types.ModuleType("os")
        osm.path = _P()

        def remove(p):
            hm.log.append(("remove", p))
            del hm.files[p]
        osm.remove = remove
        osm.unlink = remove

        def replace(src, dst):
            hm.log.append(("replace", src, dst))
            hm.files[dst] = hm.files.pop(src)
        osm.replace = replace
        osm.rename = replace
        sh["os"] = osm
    return sh


def _run_append(shape, res, sink):
    from symx import loader
    st = stack.Stack(load=())
    hm = HModel()
    sh = _helpers_shims(st, hm)
    mod = loader.load("thejoker/samples_helpers.py", sh, "thejoker.samples_helpers")
    write = mod.write_table_hdf5

    def harness():
        hm.files.clear()
        del hm.log[:]
        d0, _ = _pick(shape["n0"], "old")
        d1, _ = _pick(shape["n1"], "new")
        meta_same = core.boolean("meta_same")
        m0 = {"poly_trend": 1, "n_offsets": 0}
        m1 = dict(m0) if bool(meta_same) else {"poly_trend": 2, "n_offsets": 0}
        f = HFile(hm)
        old_rows = [("old", i) for i in range(2)]
        f.items["samples"] = HDataset(hm, "samples", rows=old_rows)
        f.items[env.meta_path("samples")] = HDataset(hm, env.meta_path("samples"), header={"datatype": [dict(c) for c in d0], "meta": dict(m0)})
        hm.files["f.hdf5"] = f
        new_rows = [("new", i) for i in range(3)]
        t = Tbl(d1, m1, new_rows)
        err = None
        try:
            write(t, "f.hdf5", path="samples", compression=False, append=True, overwrite=False, serialize_meta=True, metadata_conflicts="error", maxshape=(None,))
        except (ValueError, MergeConflictError, OSError) as e:
            err = e
        muts = [e for e in hm.log if e[0] in ("create", "resize", "assign", "delete", "remove", "truncate", "create_group")]
        return d0, d1, bool(meta_same), err, muts, list(hm.files["f.hdf5"].items["samples"].rows) if "f.hdf5" in hm.files and "samples" in hm.files["f.hdf5"].items else None, old_rows, new_rows
    ex = core.Explorer(max_paths=5000)
    twin = False
    for path in ex.paths(harness):
        r, _, _ = path.check(core.SB(z3.BoolVal(False)))
        twin = twin or r == "sat"
        if path.raised is not None:
            if isinstance(path.raised, core.UnsupportedByShim):
                raise path.raised
            sink.check(path, "append.unexpected_exception", core.SB(z3.BoolVal(False)), site="write_table_hdf5", describe=lambda m: {"raised": repr(path.raised)[:200]})
            continue
        d0, d1, meta_same, err, muts, rows, old_rows, new_rows = path.result
        compat = len(d0) == len(d1) and all(_same_col(a, b) for a, b in zip(d0, d1)) and meta_same
        desc = lambda m, d0=d0, d1=d1, err=err, muts=muts: {"old_header": d0, "new_header": d1, "meta_same": meta_same, "raised": repr(err)[:120], "mutations": [list(map(str, x)) for x in muts][:5]}
        if compat:
            ok = err is None and rows == old_rows + new_rows
            sink.check(path, "append.concatenates", core.SB(z3.BoolVal(bool(ok))), site="write_table_hdf5.append", describe=desc, structural_claim=True)
        else:
            ok = err is not None and not muts and rows == old_rows
            sink.check(path, "append.refused_without_altering_the_file", core.SB(z3.BoolVal(bool(ok))), site="write_table_hdf5.refuse", describe=desc, structural_claim=True)
    res["twin_ok"] = twin
    return ex


def _run_dispatch(shape, res, sink):
    S = groupa.Setup()
    calls = []
    st = S.st

    def fake_write(table, output, **kw):
        calls.append((output, kw))
    st.samples.write_table_hdf5 = fake_write

    def harness():
        S.reset()
        del calls[:]
        lib, lnp = S.library(2)
        s = S.as_samples(lib, lnp)
        out = []

        def t(fn, *a, **k):
            try:
                return ("ok", fn(*a, **k))
            except Exception as e:
                return (type(e).__name__, None)
        out.append(("write.txt", t(s.write, "x.txt")[0]))
        out.append(("write.fits+append", t(s.write, "x.fits", append=True)[0]))
        out.append(("write.hdf5", t(s.write, "x.hdf5", overwrite=True)[0], list(calls)))
        out.append(("write.h5+append", t(s.write, "y.h5", append=True)[0], list(calls)))
        fn = S.as_file(lib, lnp)
        u_ = S.st.utils
        rng = env.SymRng(S.w)
        cols = ["P", "e"]
        out.append(("read.tuple", t(u_.read_batch, fn, cols, (0, 2))))
        out.append(("read.slice", t(u_.read_batch, fn, cols, slice(1, 2))))
        out.append(("read.int", t(u_.read_batch, fn, cols, 1, rng=rng)))
        out.append(("read.idx", t(u_.read_batch, fn, cols, symnp.SymArray(symnp._obj([1, 0]), symnp._I8))))
        out.append(("read.invalid", t(u_.read_batch, fn, cols, "all")[0]))
        return lib, out
    ex = core.Explorer(max_paths=200)
    twin = False
    for path in ex.paths(harness):
        core.Ctx.cur = path.ctx
        try:
            r, _, _ = path.check(core.SB(z3.BoolVal(False)))
            twin = twin or r == "sat"
            if path.raised is not None:
                if isinstance(path.raised, core.UnsupportedByShim):
                    raise path.raised
                sink.check(path, "dispatch.harness", core.SB(z3.BoolVal(False)), site="dispatch", describe=lambda m: {"raised": repr(path.raised)[:200]})
                continue
            lib, out = path.result
            d = dict((o[0], o[1:]) for o in out)
            L = core.lift
            ok = d["write.txt"][0] == "NotImplementedError" and d["write.fits+append"][0] == "NotImplementedError" and d["write.hdf5"][0] == "ok" and d["write.h5+append"][0] == "ok"
            if ok:
                c1 = d["write.hdf5"][1][-1]
                c2 = d["write.h5+append"][1][-1]
                ok = (c1[0] == "x.hdf5" and c1[1].get("path") == "samples" and c1[1].get("overwrite") is True and c1[1].get("append") is False and c1[1].get("serialize_meta") is True
                      and c2[0] == "y.h5" and c2[1].get("append") is True and c2[1].get("maxshape") == (None,))
            sink.check(path, "dispatch.write", core.SB(z3.BoolVal(bool(ok))), site="JokerSamples.write", describe=lambda m: {"observed": {k: str(v)[:80] for k, v in d.items() if k.startswith("write")}},
                       structural_claim=True)

            def cells(r):
                return r[0][1].a if r[0][0] == "ok" and isinstance(r[0][1], symnp.SymArray) else None
            cl = []
            a = cells(d["read.tuple"])
            cl.append(z3.BoolVal(a is not None and a.shape == (2, 2)))
            if a is not None and a.shape == (2, 2):
                cl += [L(a[i, j]) == L(lib[i][j]) for i in range(2) for j in range(2)]
            a = cells(d["read.slice"])
            cl.append(z3.BoolVal(a is not None and a.shape == (1, 2)))
            if a is not None and a.shape == (1, 2):
                cl += [L(a[0, j]) == L(lib[1][j]) for j in range(2)]
            a = cells(d["read.idx"])
            cl.append(z3.BoolVal(a is not None and a.shape == (2, 2)))
            if a is not None and a.shape == (2, 2):
                cl += [L(a[0, j]) == L(lib[1][j]) for j in range(2)] + [L(a[1, j]) == L(lib[0][j]) for j in range(2)]
            a = cells(d["read.int"])
            cl.append(z3.BoolVal(a is not None and a.shape == (1, 2)))
            if a is not None and a.shape == (1, 2):
                cl.append(z3.Or([z3.And([L(a[0, j]) == L(lib[i][j]) for j in range(2)]) for i in range(2)]))
            cl.append(z3.BoolVal(d["read.invalid"][0] == "ValueError"))
            sink.check(path, "dispatch.read_batch", core.SB(z3.And(cl)), site="read_batch", describe=lambda m: {"observed": {k: str(v)[:80] for k, v in d.items() if k.startswith("read")}})
        finally:
            core.Ctx.cur = None
    res["twin_ok"] = twin
    return ex


def _run_slices(shape, res, sink):
    """read_batch with a slice / (start, stop) tuple: the rows of the table that Python's slice semantics select (start, stop
    in None, 0..N -- the solver drives both; step per shape), converted to the requested units; empty selections are empty"""
    from checks import c07
    S = c07.FullSymUnits(with_api=False)
    N, step = shape["N"], shape["step"]

    def harness():
        S.reset()
        S.make_units()
        lib, lnp = S.library(N, with_lnp=True)
        fn = S.as_file(lib, lnp)
        cs, ce = core.integer("start_code"), core.integer("stop_code")      # -1 stands for None
        for c in (cs, ce):
            core.assume(c >= -1)
            core.assume(c <= N)
        a = core.fork_int(cs, -1, N)
        b = core.fork_int(ce, -1, N)
        a = None if a == -1 else a
        b = None if b == -1 else b
        cols = ["P", "ln_prior"]
        tgt = {"P": units.day}
        out = {"slice": S.st.utils.read_batch(fn, cols, slice(a, b, step), units=tgt)}
        if a is not None and b is not None and step is None:
            out["tuple"] = S.st.utils.read_batch(fn, cols, (a, b), units=tgt)
        return lib, lnp, a, b, out
    ex = core.Explorer(max_paths=500)
    twin = False
    for path in ex.paths(harness):
        core.Ctx.cur = path.ctx
        try:
            r, _, _ = path.check_isolated(core.SB(z3.BoolVal(False)))
            twin = twin or r == "sat"
            if path.raised is not None:
                sink.check(path, "slices.no_exception", core.SB(z3.BoolVal(False)), site="read_batch", describe=lambda m: {"raised": repr(path.raised)[:200]})
                continue
            lib, lnp, a, b, out = path.result
            L = core.lift
            rows = list(range(N))[slice(a, b, step)]
            fP = S._pu.to(units.day)
            desc = lambda m: {"N": N, "slice": [a, b, step], "expected_rows": rows}
            for form, got in out.items():
                ok = isinstance(got, symnp.SymArray) and got.a.shape == (len(rows), 2)
                cl = [z3.BoolVal(bool(ok))]
                if ok:
                    for r_, i in enumerate(rows):
                        cl += [L(got.a[r_, 0]) == L(lib[i][0] * fP), L(got.a[r_, 1]) == L(lnp[i])]
                sink.check(path, "slices.%s" % form, core.SB(z3.And(cl)), site="read_batch_slice", describe=desc, isolated=True)
        finally:
            core.Ctx.cur = None
    res["twin_ok"] = twin
    return ex


def _run_reads(shape, res, sink):
    from checks import c07
    S = c07.FullSymUnits(with_api=False)
    N = shape["N"]

    def harness():
        S.reset()
        u_ = S.st.utils
        cols = ["s", "P", "ln_prior"]
        tgt = {"P": units.day, "s": units.km / units.s}
        if shape.get("history"):
            S._pu, S._su = units.sym_unit("preP", units.day), units.sym_unit("pres", units.km / units.s)
            S._ou, S._mu = units.sym_unit("preO", units.rad), units.sym_unit("preM", units.rad)
            S._eu = units.sym_unit("preE", units.one)
            libA, lnpA = S.library(N, with_lnp=True, tag="pre")
            fnA = S.as_file(libA, lnpA)
            u_.read_batch_slice(fnA, cols, slice(0, N), units=tgt)
            u_.read_batch_idx(fnA, cols, symnp.SymArray(symnp._obj(list(range(N))), symnp._I8), units=tgt)
            u_.read_random_batch(fnA, cols, 1, units=tgt, rng=env.SymRng(S.w))
            S.w.streams.clear()
        S.make_units()
        lib, lnp = S.library(N, with_lnp=True)
        fn = S.as_file(lib, lnp)
        rng = env.SymRng(S.w)
        start = core.integer("start")
        stop = core.integer("stop")
        core.assume(start >= 0)
        core.assume(stop <= N)
        core.assume(start < stop)
        a = core.fork_int(start, 0, N)
        b = core.fork_int(stop, 0, N)
        sl = u_.read_batch_slice(fn, cols, slice(a, b), units=tgt)
        idx = rng.choice(N, size=N, replace=False)
        ix = u_.read_batch_idx(fn, cols, idx, units=tgt)
        k = max(1, N - 1)
        rnd = u_.read_random_batch(fn, cols, k, units=tgt, rng=rng)
        S._rnd_full = u_.read_random_batch(fn, cols, N, units=tgt, rng=rng)       # as many as the file holds
        nounits = u_.read_batch_slice(fn, ["P"], slice(0, N))
        # two columns stored in DIFFERENT units and requested in the SAME unit (and one without a requested unit in between)
        same_tgt = {"omega": units.rad, "M0": units.rad}
        st1 = u_.read_batch_slice(fn, ["omega", "e", "M0"], slice(0, N), units=same_tgt)
        st2 = u_.read_batch_idx(fn, ["M0", "omega"], symnp.SymArray(symnp._obj(list(range(N))[::-1]), symnp._I8), units=same_tgt)
        S._same_target = (st1, st2)
        return lib, lnp, (a, b), sl, idx, ix, k, rnd, nounits
    ex = core.Explorer(max_paths=500)
    twin = False
    for path in ex.paths(harness):
        core.Ctx.cur = path.ctx
        try:
            r, _, _ = path.check_isolated(core.SB(z3.BoolVal(False)))
            twin = twin or r == "sat"
            if path.raised is not None:
                sink.check(path, "reads.no_exception", core.SB(z3.BoolVal(False)), site="read_batch_*", describe=lambda m: {"raised": repr(path.raised)[:200]})
                continue
            lib, lnp, (a, b), sl, idx, ix, k, rnd, nounits = path.result
            L = core.lift
            fP, fs = S._pu.to(units.day), S._su.to(units.km / units.s)

            def want(i):
                return [lib[i][4] * fs, lib[i][0] * fP, lnp[i]]
            def desc(m):
                out = {"N": N, "slice": [a, b]}
                try:
                    out["idx"] = [int(core.model_value(m, c)) for c in idx.a]
                except Exception:
                    pass
                return out
            ok = isinstance(sl, symnp.SymArray) and sl.a.shape == (b - a, 3)
            cl = [z3.BoolVal(bool(ok))] + ([L(sl.a[r_, c]) == L(want(a + r_)[c]) for r_ in range(b - a) for c in range(3)] if ok else [])
            sink.check(path, "reads.slice", core.SB(z3.And(cl)), site="read_batch_slice", describe=desc, isolated=True)
            st1, st2 = S._same_target
            fO, fM, fE = S._ou.to(units.rad), S._mu.to(units.rad), 1
            ok = isinstance(st1, symnp.SymArray) and st1.a.shape == (N, 3) and isinstance(st2, symnp.SymArray) and st2.a.shape == (N, 2)
            cl = [z3.BoolVal(bool(ok))]
            if ok:
                for i in range(N):
                    cl += [L(st1.a[i, 0]) == L(lib[i][2] * fO), L(st1.a[i, 1]) == L(lib[i][1]), L(st1.a[i, 2]) == L(lib[i][3] * fM)]
                    cl += [L(st2.a[i, 0]) == L(lib[N - 1 - i][3] * fM), L(st2.a[i, 1]) == L(lib[N - 1 - i][2] * fO)]
            sink.check(path, "reads.same_target_unit_different_stored_units", core.SB(z3.And(cl)), site="read_batch_*", describe=desc, isolated=True)
            ok = isinstance(ix, symnp.SymArray) and ix.a.shape == (N, 3)
            cl = [z3.BoolVal(bool(ok))]
            if ok:
                for r_ in range(N):
                    for i in range(N):
                        cl.append(z3.Implies(L(idx.a[r_]) == i, z3.And([L(ix.a[r_, c]) == L(want(i)[c]) for c in range(3)])))
            sink.check(path, "reads.index_array_in_given_order", core.SB(z3.And(cl)), site="read_batch_idx", describe=desc, isolated=True)
            ok = isinstance(rnd, symnp.SymArray) and rnd.a.shape == (k, 3)
            ch = groupa.stream_choices(S.w)
            okrng = len(ch) == 3 and ch[1][1] == N and ch[1][2] == k and not ch[1][4]          # drawn from the rng argument, without replacement
            cl = [z3.BoolVal(bool(ok and okrng))]
            if ok and okrng:
                cidx = ch[1][3]
                for r_ in range(k):
                    for i in range(N):
                        cl.append(z3.Implies(L(cidx[r_]) == i, z3.And([L(rnd.a[r_, c]) == L(want(i)[c]) for c in range(3)])))
            sink.check(path, "reads.random_subset", core.SB(z3.And(cl)), site="read_random_batch", describe=desc, isolated=True)
            rf = S._rnd_full
            ok = isinstance(rf, symnp.SymArray) and rf.a.shape == (N, 3) and len(ch) == 3 and ch[2][1] == N and ch[2][2] == N
            cl = [z3.BoolVal(bool(ok))]
            if ok:
                cidx = ch[2][3]
                cl.append(z3.BoolVal(not ch[2][4]))                            # a subset: drawn without replacement (no row twice), also when it is the whole file
                for r_ in range(N):
                    for i in range(N):
                        cl.append(z3.Implies(L(cidx[r_]) == i, z3.And([L(rf.a[r_, c]) == L(want(i)[c]) for c in range(3)])))
            sink.check(path, "reads.random_subset_of_full_size", core.SB(z3.And(cl)), site="read_random_batch", describe=desc, isolated=True)
            ok = isinstance(nounits, symnp.SymArray) and nounits.a.shape == (N, 1)
            cl = [z3.BoolVal(bool(ok))] + ([L(nounits.a[i, 0]) == L(lib[i][0]) for i in range(N)] if ok else [])
            sink.check(path, "reads.no_units_requested", core.SB(z3.And(cl)), site="read_batch_slice", describe=desc, isolated=True)
        finally:
            core.Ctx.cur = None
    res["twin_ok"] = twin
    return ex


def run_shape(shape, tier):
    res = new_result(shape)
    sink = VCSink(res, PROPERTY)
    ex = {"compare": _run_compare, "append": _run_append, "dispatch": _run_dispatch, "reads": _run_reads, "slices": _run_slices}[shape["what"]](shape, res, sink)
    fill_explorer(res, ex)
    if shape["what"] in ("append", "reads") or (shape["what"] == "compare" and shape["n1"] == 1):
        res["witnesses"].append({"vc": "witness", "site": "roundtrip", "shape": shape, "model": {}, "witness": True})
    return res


# ---------------------------------------------------------------------------------------------

def replay(cand):
    """real files: write / overwrite / append / read round trips and batch reads (conformance traces; also the replay of
    symbolic counterexamples about the dtype comparison and the append branch)"""
    import hashlib
    import os
    import shutil
    import tempfile
    import warnings
    warnings.simplefilter("ignore")
    import numpy as np
    import astropy.units as u
    from astropy.time import Time
    from thejoker.samples import JokerSamples
    from thejoker.samples_helpers import _custom_tbl_dtype_compare
    from thejoker.utils import read_batch
    shape = cand["shape"]
    m = cand.get("model") or {}
    bad = []
    tmpd = tempfile.mkdtemp(prefix="verif_c12_")
    try:
        if "d1" in m:
            got = _custom_tbl_dtype_compare(m["d1"], m["d2"])
            want = len(m["d1"]) == len(m["d2"]) and all(_same_col(a, b) for a, b in zip(m["d1"], m["d2"]))
            if bool(got) != want:
                bad.append("_custom_tbl_dtype_compare(%s, %s) = %s" % (m["d1"], m["d2"], got))
        N = 7
        rnd = np.random.default_rng(3)
        s = JokerSamples(t_ref=Time(57000.25, format="mjd", scale="tcb"), poly_trend=2, n_offsets=0)
        s["P"] = rnd.uniform(2, 50, N) * u.day
        s["e"] = rnd.uniform(0, 0.9, N) * u.one
        s["omega"] = rnd.uniform(0, 6, N) * u.rad
        s["M0"] = rnd.uniform(0, 6, N) * u.rad
        s["s"] = rnd.uniform(0, 3, N) * u.m / u.s
        s["K"] = rnd.normal(0, 5, N) * u.km / u.s
        s["v0"] = rnd.normal(0, 5, N) * u.km / u.s
        s["v1"] = rnd.normal(0, 1, N) * u.km / u.s / u.day
        fn = os.path.join(tmpd, "a.hdf5")
        s.write(fn)
        r = JokerSamples.read(fn)
        if r.tbl.colnames != s.tbl.colnames or r.poly_trend != 2 or r.n_offsets != 0 or r.t_ref is None or abs(r.t_ref.tcb.mjd - 57000.25) > 1e-12:
            bad.append("round trip lost columns / metadata")
        for c in s.tbl.colnames:
            if r[c].unit != s[c].unit or not np.array_equal(r[c].value, s[c].value):
                bad.append("round trip changed column %s" % c)
        s.write(fn, append=True)
        r2 = JokerSamples.read(fn)
        if len(r2) != 2 * N or not np.array_equal(r2["P"].value, np.concatenate([s["P"].value, s["P"].value])):
            bad.append("append is not the concatenation")
        # incompatible appends must be refused without altering the file
        sha = hashlib.sha256(open(fn, "rb").read()).hexdigest()
        sub = JokerSamples(t_ref=s.t_ref, poly_trend=2, n_offsets=0)
        sub["P"] = s["P"]
        other_unit = s.copy()
        other_unit.tbl["K"] = s["K"].to(u.m / u.s)
        other_meta = JokerSamples(t_ref=Time(s.t_ref.tcb.mjd + 1.0, format="mjd", scale="tcb"), poly_trend=2, n_offsets=0)
        for c_ in s.tbl.colnames:
            other_meta[c_] = s[c_][:5]
        for what, obj in (("a column subset", sub), ("a column in another unit", other_unit), ("the same columns with conflicting metadata (other t_ref)", other_meta)):
            try:
                obj.write(fn, append=True)
                bad.append("appending %s was accepted" % what)
            except Exception:
                pass
            if hashlib.sha256(open(fn, "rb").read()).hexdigest() != sha:
                bad.append("the file changed although appending %s is incompatible" % what)
                sha = hashlib.sha256(open(fn, "rb").read()).hexdigest()
        s.write(fn, overwrite=True)
        if len(JokerSamples.read(fn)) != N:
            bad.append("overwrite did not replace the table")
        one = s[3]
        fn1 = os.path.join(tmpd, "one.hdf5")
        one.write(fn1)
        if len(JokerSamples.read(fn1)) != 1:
            bad.append("single-row table does not round trip")
        # batch reads (history: the file name just held the same table with P in days / K in km/s and was read; now other units)
        cols = ["s", "P"]
        tgt = {"P": u.year, "s": u.km / u.s}
        read_batch(fn, cols, (0, 3), units=tgt)
        read_batch(fn, cols, np.array([1, 0]), units=tgt)
        read_batch(fn, cols, 2, units=tgt, rng=np.random.default_rng(0))
        s2 = s.copy()
        s2.tbl["P"] = s["P"].to(u.hour)
        s2.tbl["s"] = s["s"].to(u.m / u.s)
        s2.write(fn, overwrite=True)
        full = np.stack([s["s"].to_value(u.km / u.s), s["P"].to_value(u.year)], axis=1)
        if not np.allclose(read_batch(fn, cols, (2, 5), units=tgt), full[2:5], rtol=1e-13):
            bad.append("read_batch(range) returns other rows / units")
        # two columns stored in different units, requested in the same unit
        s3 = s.copy()
        s3.tbl["omega"] = s["omega"].to(u.deg)
        fn3 = os.path.join(tmpd, "same_target.hdf5")
        s3.write(fn3, overwrite=True)
        want3 = np.stack([s["omega"].to_value(u.rad), s["M0"].to_value(u.rad)], axis=1)
        for sel in ((0, 4), np.array([3, 0, 2])):
            got3 = np.asarray(read_batch(fn3, ["omega", "M0"], sel, units={"omega": u.rad, "M0": u.rad}))
            exp3 = want3[sel[0]:sel[1]] if isinstance(sel, tuple) else want3[sel]
            if got3.shape != exp3.shape or not np.allclose(got3, exp3, rtol=1e-12, atol=1e-14):
                bad.append("omega stored in deg and M0 in rad, both requested in rad: read_batch returns %s, expected %s" % (got3[0].tolist(), exp3[0].tolist()))
        # every way of asking for a contiguous range: open ends, empty ranges, steps
        nfull = len(full)
        for a_ in (None, 0, 1, 3, nfull):
            for b_ in (None, 0, 2, nfull):
                for st_ in (None, 1, 2):
                    got_ = np.asarray(read_batch(fn, cols, slice(a_, b_, st_), units=tgt))
                    exp_ = full[slice(a_, b_, st_)]
                    if got_.shape[0] != exp_.shape[0] or (len(exp_) and not np.allclose(got_, exp_, rtol=1e-13)):
                        bad.append("read_batch(slice(%r, %r, %r)) returns %d rows, the range selects %d" % (a_, b_, st_, got_.shape[0], exp_.shape[0]))
                if a_ is not None and b_ is not None:
                    got_ = np.asarray(read_batch(fn, cols, (a_, b_), units=tgt))
                    if got_.shape[0] != len(full[a_:b_]):
                        bad.append("read_batch((%r, %r)) returns %d rows, the range selects %d" % (a_, b_, got_.shape[0], len(full[a_:b_])))
        idxs = [np.array([5, 0, 3]), np.array([0, 2, 1, 3]), np.array([3, 5, 4, 6])]
        if isinstance(m.get("idx"), list) and m["idx"] and all(0 <= int(i_) < nfull for i_ in m["idx"]):
            idxs.insert(0, np.array([int(i_) for i_ in m["idx"]]))
        for idx in idxs:
            if not np.allclose(read_batch(fn, cols, idx, units=tgt), full[idx], rtol=1e-13):
                bad.append("read_batch(index array %s) does not return the rows in the given order" % idx.tolist())
                break
        for sd in range(6):
            rbf = read_batch(fn, cols, nfull, units=tgt, rng=np.random.default_rng(sd))
            if len({tuple(np.round(x, 12)) for x in rbf}) != nfull:
                bad.append("read_batch(random subset of %d out of %d rows) repeats rows" % (nfull, nfull))
                break
        rb = read_batch(fn, cols, 5, units=tgt, rng=np.random.default_rng(1))
        rows = [tuple(np.round(x, 12)) for x in rb]
        allrows = [tuple(np.round(x, 12)) for x in full]
        if len(set(rows)) != 5 or any(x not in allrows for x in rows):
            bad.append("read_batch(random subset) repeats rows or invents rows")
        fits = os.path.join(tmpd, "a.fits")
        s.write(fits)
        rf = JokerSamples.read(fits)
        if not np.allclose(rf["P"].to_value(u.day), s["P"].value) or rf.t_ref is None:
            bad.append("FITS round trip lost values / t_ref")
    except Exception as e:
        import traceback
        if not bad:
            return {"reproduced": False, "error": traceback.format_exc()[-500:]}
    finally:
        shutil.rmtree(tmpd, ignore_errors=True)
    return {"reproduced": bool(bad), "detail": "; ".join(bad[:4])[:900] or "real files round-trip; batch reads return the requested rows"}
