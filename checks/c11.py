"""C11 -- the MCMC continuation targets the same model and posterior as the sampler.

Front-end F3 on the model the real TheJoker.setup_mcmc assembles (rebuilt on every run): the graphs
model['model_rv'], the observed Normal 'obs' (mean, sigma, observed values) and the 'ln_likelihood'
deterministic are evaluated symbolically over the parameter values (P, e, omega, M0, s, K, v0, offsets,
v1 ...; the exoplanet Kepler op as uninterpreted KSIN/KCOS of (mean anomaly, e)) and compared with the
sampler's model: K [cos w KCOS(M,e) - sin w KSIN(M,e) + e cos w] + M_trend . (v0, dv0.., v1..),
M = 2 pi x / P - M0, x = t - t_ref, everything in the data's units -- for priors declared in the
default units and in other equivalent units.  mcmc_init is compared with the chosen (median-period) row
expressed in the prior's units.
"""
import math
import warnings
from fractions import Fraction

import numpy as np

from symx import core, ptfront
from symx.core import z3
from symx.framework import new_result, VCSink, fill_explorer

PROPERTY = "C11"
LEVEL = "model_checking"
FUNCTIONS = [("thejoker/thejoker.py", "TheJoker.setup_mcmc"), ("thejoker/_keplerian_orbit.py", "KeplerianOrbit.get_radial_velocity"),
             ("thejoker/_keplerian_orbit.py", "KeplerianOrbit._get_true_anomaly"), ("thejoker/likelihood_helpers.py", "get_trend_design_matrix"),
             ("thejoker/samples.py", "JokerSamples.median_period")]
ASSUMPTIONS = [
    "the exoplanet Kepler op returns (sin f, cos f) of the true anomaly as functions of (mean anomaly, e): uninterpreted KSIN/KCOS; SIN/COS/SQRT/LOG uninterpreted",
    "data values are concrete per shape (they are constants inside the graphs); parameter values are symbolic",
    "the prior part of model.logp() beyond C09 (pymc's transforms and Jacobians) and NUTS itself are outside",
    "bounds: 3 epochs, poly_trend <= 2, <= 1 offset, sampled or constant jitter, priors in default or other equivalent units",
]
L = core.lift


def bounds(tier):
    return {"n_epochs": 3, "poly_trend": [1, 3], "n_offsets": [0, 1], "jitter": ["constant", "sampled"], "prior_units": ["default", "P in years / K in m/s"]}


def shapes(tier):
    out = []
    for npoly in (1, 2):
        for noff in (0, 1):
            for units_ in ("default", "other"):
                out.append({"poly": npoly, "noff": noff, "jitter": "sampled" if (npoly + noff) % 2 else "constant", "units": units_})
    out.append({"poly": 3, "noff": 1, "jitter": "sampled", "units": "other"})
    # a reference epoch that is not the first observation
    out.append({"poly": 2, "noff": 0, "jitter": "constant", "units": "default", "tref": "explicit"})
    # ... given on another time scale than TCB (UTC), and disabled
    out.append({"poly": 2, "noff": 0, "jitter": "constant", "units": "default", "tref": "explicit_utc"})
    out.append({"poly": 1, "noff": 0, "jitter": "sampled", "units": "other", "tref": "false"})
    # sources given as a dict whose keys are not in sorted order (the offset belongs to the source the sampler gives it to)
    out.append({"poly": 1, "noff": 1, "jitter": "constant", "units": "default", "data": "dict_unsorted"})
    # samples carrying ln_prior / ln_likelihood columns whose maximum is NOT at the median period (the initial point is still the
    # median-period sample), and samples carrying a reference epoch of their own (the model follows the DATA's epoch)
    out.append({"poly": 1, "noff": 0, "jitter": "constant", "units": "default", "samples": "with_logprobs"})
    out.append({"poly": 2, "noff": 0, "jitter": "constant", "units": "default", "samples": "own_tref"})
    # call history: setup_mcmc was already run in this model context with the same data and another choice of samples (the
    # second call returns early with the new initial point; with OTHER data the model would silently keep the first data
    # set -- C11 does not quantify over such histories, see DESIGN 7.4)
    out.append({"poly": 2, "noff": 0, "jitter": "sampled", "units": "default", "history": "other_samples_first"})
    out.append({"poly": 1, "noff": 1, "jitter": "constant", "units": "other", "history": "other_samples_first"})
    return out


def _build(shape):
    warnings.simplefilter("ignore")
    import astropy.units as u
    import pymc as pm
    import thejoker as tj
    import thejoker.units as xu
    from astropy.time import Time
    npoly, noff = shape["poly"], shape["noff"]
    other = shape["units"] == "other"
    rnd = np.random.default_rng(11 + npoly + 3 * noff)
    nt = 3
    t = Time(59000 + np.sort(rnd.uniform(0, 60, nt)), format="mjd", scale="tcb")
    rv = rnd.normal(0, 8, nt) * u.km / u.s
    err = rnd.uniform(0.5, 1.5, nt) * u.km / u.s
    if noff and shape.get("data") == "dict_unsorted":
        data = {"keck": tj.RVData(t[:2], rv[:2], err[:2]), "apogee": tj.RVData(t[2:], rv[2:], err[2:])}      # keys not in sorted order
    elif noff:
        data = [tj.RVData(t[:2], rv[:2], err[:2]), tj.RVData(t[2:], rv[2:], err[2:])]
    elif shape.get("tref") == "explicit":
        data = tj.RVData(t, rv, err, t_ref=Time(t.tcb.mjd.min() - 7.25, format="mjd", scale="tcb"))
    elif shape.get("tref") == "explicit_utc":
        data = tj.RVData(t, rv, err, t_ref=Time(t.tcb.mjd.min() - 7.25, format="mjd", scale="utc"))
    elif shape.get("tref") == "false":
        data = tj.RVData(t, rv, err, t_ref=False)
    else:
        data = tj.RVData(t, rv, err)
    vun = u.m / u.s if other else u.km / u.s
    Pun = u.year if other else u.day
    with pm.Model() as model:
        offs = [xu.with_unit(pm.Normal("dv0_1", 0.0, (5 * u.km / u.s).to_value(vun)), vun)] if noff else []
        kw = {}
        if shape["jitter"] == "sampled":
            kw["s"] = xu.with_unit(pm.Lognormal("s", 0.0, 0.5), vun)
        sv = [(30 * u.km / u.s).to(vun), (0.5 * u.km / u.s / u.day).to(vun / u.day), (0.01 * u.km / u.s / u.day ** 2).to(vun / u.day ** 2)][:npoly]
        prior = tj.JokerPrior.default(P_min=(3 * u.day).to(Pun), P_max=(200 * u.day).to(Pun), sigma_K0=(25 * u.km / u.s).to(vun), sigma_v=sv if npoly > 1 else sv[0],
                                      poly_trend=npoly, v0_offsets=offs, **kw)
        samples = prior.sample(size=5, generate_linear=True, rng=np.random.default_rng(4))
        if shape.get("samples") == "with_logprobs":
            order = np.argsort(samples["P"].to_value(u.day))
            lp = np.zeros(5)
            lp[order[0]] = 50.0                      # the best row by ln_prior + ln_likelihood is the SHORTEST period, not the median one
            samples["ln_prior"] = lp
            samples["ln_likelihood"] = -np.arange(5.0)
        elif shape.get("samples") == "own_tref":
            samples.tbl.meta["t_ref"] = Time(t.tcb.mjd.min() - 31.5, format="mjd", scale="tcb")
            assert samples.t_ref is not None
        joker = tj.TheJoker(prior, rng=np.random.default_rng(5))
        if shape.get("history") == "other_samples_first":
            joker.setup_mcmc(data, samples[3:4])
        init = joker.setup_mcmc(data, samples)
    return {"model": model, "prior": prior, "samples": samples, "init": init, "data": data, "vun": vun, "Pun": Pun}


def run_shape(shape, tier):
    res = new_result(shape)
    sink = VCSink(res, PROPERTY)

    def harness():
        import astropy.units as u
        import thejoker.units as xu
        from thejoker.data_helpers import validate_prepare_data
        from thejoker.likelihood_helpers import get_trend_design_matrix
        B = _build(shape)
        model, prior = B["model"], B["prior"]
        all_data, ids, _ = validate_prepare_data(B["data"], prior.poly_trend, prior.n_offsets)
        names = prior.par_names
        Z = {n: core.real("par_" + n) for n in names}
        core.assume(Z["P"] > 0)
        core.assume(Z["e"] >= 0)
        core.assume(Z["e"] < 1)
        env = {}
        for n in names:
            if n in model.named_vars:
                env[model.named_vars[n]] = np.asarray(Z[n], dtype=object)
            env[prior.pars[n]] = np.asarray(Z[n], dtype=object)
        ev = ptfront.Evaluator(env)
        rvg = ev(model["model_rv"])
        # spec: the sampler's model in the data unit, parameters given in the PRIOR's units
        dunit = all_data.rv.unit
        x = all_data._t_bmjd - all_data._t_ref_bmjd
        M = get_trend_design_matrix(all_data, ids, prior.poly_trend)
        order = ["v0"] + ["dv0_%d" % k for k in range(1, prior.n_offsets + 1)] + ["v%d" % j for j in range(1, prior.poly_trend)]

        def fac(n, target):
            return Fraction(repr(float(getattr(prior.pars[n], xu.UNIT_ATTR_NAME).to(target))))
        P_d = Z["P"] * fac("P", u.day)
        K_d = Z["K"] * fac("K", dunit)
        om = Z["omega"] * fac("omega", u.rad)
        M0 = Z["M0"] * fac("M0", u.rad)
        s_d = Z["s"] * fac("s", dunit)
        v_d = []
        for n in order:
            j = int(n[1:]) if n[0] == "v" else 0
            v_d.append(Z[n] * fac(n, dunit / u.day ** j))
        spec = []
        for i in range(len(x)):
            Mn = Fraction(repr(2 * math.pi)) * Fraction(repr(float(x[i]))) / P_d - M0      # exact rationals of the float constants
            kep = K_d * (core.uf("COS", om) * core.uf("KCOS", Mn, Z["e"]) - core.uf("SIN", om) * core.uf("KSIN", Mn, Z["e"]) + Z["e"] * core.uf("COS", om))
            tr = core.sym_sum([v_d[k] * Fraction(repr(float(M[i, k]))) for k in range(len(order))])
            spec.append(kep + tr)
        out = []

        def desc(m):
            return {n: str(core.model_value(m, Z[n])) for n in names}
        okshape = rvg.shape == (len(x),)
        cl = z3.And([L(rvg[i]) == L(spec[i]) for i in range(len(x))]) if okshape else z3.BoolVal(False)
        out.append(("model_rv", cl, "setup_mcmc.model_rv|" + shape["units"], desc))
        # obs ~ Normal(model_rv, sqrt(err^2 + s^2)) observed at y
        obs = model["obs"]
        mu_g, sig_g = [ev(p_) for p_ in obs.owner.op.dist_params(obs.owner)]
        yobs = np.asarray(model.rvs_to_values[obs].data if hasattr(model.rvs_to_values[obs], "data") else model.rvs_to_values[obs].eval())
        err = all_data.rv_err.to_value(dunit)
        okm = np.asarray(mu_g).shape == (len(x),) and np.asarray(sig_g).shape == (len(x),)
        cl = [z3.BoolVal(bool(okm)), z3.BoolVal(bool(np.allclose(yobs, all_data.rv.value)))]
        if okm:
            for i in range(len(x)):
                cl.append(L(mu_g[i]) == L(rvg[i]))
                var = Fraction(repr(float(err[i] ** 2))) + s_d * s_d        # err**2 is evaluated in float64 by numpy before it enters the graph
                sg = sig_g[i]
                cl.append(z3.And(L(sg) * L(sg) == L(var), L(sg) > 0))
        sq_ax = []
        for (nm, args, t_) in core.UF_LOG:
            if nm == "SQRT":
                sq_ax += [t_ * t_ == args[0], t_ > 0]
        out.append(("obs_normal", z3.And(cl), "setup_mcmc.obs|" + shape["units"], desc, sq_ax))
        # ln_likelihood deterministic = sum_n ln N(y_n | model_rv_n, err_n^2 + s^2): evaluated at the cut point model_rv
        # (fresh symbols m_n for the model velocities) so that the query is a small polynomial identity
        mcut = [core.real("model_rv_%d" % i) for i in range(len(x))]
        env2 = dict(env)
        env2[model["model_rv"]] = np.asarray(mcut, dtype=object)
        if model["model_rv"].owner is not None and model["model_rv"].owner.inputs:
            env2[model["model_rv"].owner.inputs[0]] = np.asarray(mcut, dtype=object)     # the Deterministic wraps the expression
        ev2 = ptfront.Evaluator(env2)
        llg = ev2(model["ln_likelihood"])
        spec_ll = 0
        for i in range(len(x)):
            var = Fraction(repr(float(err[i] ** 2))) + s_d * s_d
            sd = core.uf("SQRT", var)
            d = Fraction(repr(float(all_data.rv.value[i]))) - mcut[i]
            spec_ll = spec_ll + (-0.5) * (d / sd) * (d / sd) - core.uf("LOG", sd) - 0.5 * math.log(2 * math.pi)
        sq_ax2 = list(sq_ax) + core.numeric_uf_axioms()
        for (nm, args, t_) in core.UF_LOG:
            if nm == "SQRT":
                sq_ax2 += [t_ * t_ == args[0], t_ > 0]
        if np.asarray(llg).size == 1:
            dlt = L(np.asarray(llg).item()) - L(spec_ll)
            tol = z3.RealVal("1/1000000000")
            cl_ll = z3.And(dlt <= tol, -dlt <= tol)       # equal up to the last-ulp differences of float constants
        else:
            cl_ll = z3.BoolVal(False)
        depends_on_s = "par_s" in core._const_names(L(np.asarray(llg).item())) if np.asarray(llg).size == 1 else False
        out.append(("ln_likelihood", cl_ll, "setup_mcmc.ln_likelihood|" + shape["units"], desc, sq_ax2))
        if shape["jitter"] == "sampled":
            out.append(("ln_likelihood.uses_jitter", z3.BoolVal(bool(depends_on_s)), "setup_mcmc.ln_likelihood|" + shape["units"], desc, []))
        # mcmc_init: the median-period row in the prior's units
        s = B["samples"]
        Pvals = s["P"].to_value(u.day)
        k = int(np.argsort(Pvals)[len(Pvals) // 2])
        okinit = set(B["init"].keys()) >= set(names)
        if okinit:
            for n in names:
                want = s[n][k].to_value(getattr(prior.pars[n], xu.UNIT_ATTR_NAME))
                okinit = okinit and np.isclose(float(B["init"][n]), float(want), rtol=1e-12, atol=0)
        out.append(("mcmc_init", z3.BoolVal(bool(okinit)), "setup_mcmc.mcmc_init", desc))
        return out

    ex = core.Explorer(max_paths=20, solver_timeout_ms=60000)
    twin = False
    for path in ex.paths(harness):
        core.Ctx.cur = path.ctx
        try:
            r, _, _ = path.check_isolated(core.SB(z3.BoolVal(False)))
            twin = twin or r == "sat"
            if path.raised is not None:
                if isinstance(path.raised, core.UnsupportedByShim):
                    raise path.raised
                sink.check(path, "setup_mcmc.no_exception", core.SB(z3.BoolVal(False)), site="setup_mcmc", describe=lambda m: {"raised": repr(path.raised)[:300]})
                continue
            for item in path.result:
                name, claim, site, desc = item[:4]
                ax = item[4] if len(item) > 4 else []
                pref = [z3.And(L(core.real("par_P")) >= 2, L(core.real("par_P")) <= 40), L(core.real("par_e")) <= Fraction(1, 2), L(core.real("par_s")) >= 1, L(core.real("par_s")) <= 3]
                sink.check(path, name, core.SB(claim), site=site, describe=desc, isolated=True, axioms=ax, prefer=pref, structural_claim=True,
                           timeout_ms=20000 if name == "ln_likelihood" else 60000, guided_free=["par_s"] if name == "ln_likelihood" else None)
        finally:
            core.Ctx.cur = None
    res["twin_ok"] = twin
    fill_explorer(res, ex)
    res["witnesses"].append({"vc": "witness", "site": "numeric", "shape": shape, "model": {}, "witness": True})
    return res


def replay(cand):
    """numeric evaluation of the real model at a parameter point against the sampler's model computed with twobody"""
    warnings.simplefilter("ignore")
    import astropy.units as u
    import scipy.stats as st
    import thejoker.units as xu
    from thejoker.data_helpers import validate_prepare_data
    from thejoker.likelihood_helpers import get_trend_design_matrix
    from twobody.wrap import cy_rv_from_elements
    shape = cand["shape"]
    m = cand.get("model") or {}
    bad = []
    try:
        B = _build(shape)
        model, prior = B["model"], B["prior"]
        all_data, ids, _ = validate_prepare_data(B["data"], prior.poly_trend, prior.n_offsets)
        names = prior.par_names
        f = lambda x: float(Fraction(x))
        rnd = np.random.default_rng(2)
        point = {}
        for n in names:
            un = getattr(prior.pars[n], xu.UNIT_ATTR_NAME)
            phys = {"P": 17.3 * u.day, "e": 0.3 * u.one, "omega": 1.1 * u.rad, "M0": 2.2 * u.rad, "s": 1.7 * u.km / u.s, "K": 6.5 * u.km / u.s}.get(n)
            if phys is None:
                j = int(n[1:]) if n[0] == "v" else 0
                phys = (0.7 + 0.1 * len(point)) * u.km / u.s / u.day ** j
            point[n] = float(phys.to_value(un))
            if n in m and n not in ("e",):
                try:
                    val = f(m[n])
                    if n == "P":
                        val = abs(val) or point[n]
                    if n == "s":
                        val = abs(val)
                    point[n] = val
                except Exception:
                    pass
        givens = {}
        for n in names:
            var = model.named_vars.get(n, prior.pars[n])
            givens[var] = np.asarray(point[n], dtype=var.dtype)
        dunit = all_data.rv.unit
        x = all_data._t_bmjd - all_data._t_ref_bmjd

        def ph(n, target):
            return (point[n] * getattr(prior.pars[n], xu.UNIT_ATTR_NAME)).to_value(target)
        Pd, K, om, M0, s = ph("P", u.day), ph("K", dunit), ph("omega", u.rad), ph("M0", u.rad), ph("s", dunit)
        Mt = get_trend_design_matrix(all_data, ids, prior.poly_trend)
        order = ["v0"] + ["dv0_%d" % k for k in range(1, prior.n_offsets + 1)] + ["v%d" % j for j in range(1, prior.poly_trend)]
        v = np.array([ph(n, dunit / u.day ** (int(n[1:]) if n[0] == "v" else 0)) for n in order])
        want_rv = K * np.asarray(cy_rv_from_elements(np.ascontiguousarray(all_data._t_bmjd), Pd, 1.0, point["e"], om, M0, all_data._t_ref_bmjd, 1e-12, 256)) + Mt @ v
        got_rv = np.asarray(model["model_rv"].eval(givens, on_unused_input="ignore"))
        if not np.allclose(got_rv, want_rv, rtol=1e-6, atol=1e-6):
            bad.append("model_rv=%s, the sampler's model gives %s (data unit %s; prior units: %s)" % (got_rv.tolist(), want_rv.tolist(), dunit,
                                                                                                   {n: str(getattr(prior.pars[n], xu.UNIT_ATTR_NAME)) for n in ("P", "K")}))
        err = all_data.rv_err.to_value(dunit)
        want_ll = np.sum(st.norm(want_rv, np.sqrt(err ** 2 + s ** 2)).logpdf(all_data.rv.value))
        got_ll = float(model["ln_likelihood"].eval(givens, on_unused_input="ignore"))
        if not bad and not np.isclose(got_ll, want_ll, rtol=1e-6, atol=1e-6):
            bad.append("ln_likelihood deterministic=%r, Gaussian data term with variance err^2+s^2 = %r (s=%g)" % (got_ll, want_ll, s))
        obs = model["obs"]
        sig = np.asarray(obs.owner.op.dist_params(obs.owner)[1].eval(givens, on_unused_input="ignore"))
        if not np.allclose(sig, np.sqrt(err ** 2 + s ** 2), rtol=1e-6):
            bad.append("obs sigma=%s, expected sqrt(err^2+s^2)=%s" % (sig.tolist(), np.sqrt(err ** 2 + s ** 2).tolist()))
        smp = B["samples"]
        k = int(np.argsort(smp["P"].to_value(u.day))[len(smp) // 2])
        for n in names:
            want = float(smp[n][k].to_value(getattr(prior.pars[n], xu.UNIT_ATTR_NAME)))
            if not np.isclose(float(B["init"][n]), want, rtol=1e-12):
                bad.append("mcmc_init[%s]=%r, chosen row has %r" % (n, float(B["init"][n]), want))
    except Exception as e:
        import traceback
        return {"reproduced": False, "error": traceback.format_exc()[-500:]}
    return {"reproduced": bool(bad), "detail": "; ".join(bad[:3])[:900] or "real model agrees with the sampler's model"}
