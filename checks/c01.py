"""C01 -- the marginal ln-likelihood equals the analytic Gaussian marginal.

Encoded (current tree): fast_likelihood.pyx CJokerHelper.__init__, get_ivar, make_AAinv, make_bBBinv,
likelihood_worker, batch_marginal_ln_likelihood (transliterated statement by statement, symx.pyxfront);
data.RVData, likelihood_helpers.get_trend_design_matrix / get_constant_term_design_matrix,
utils._pytensor_get_mean_std (real Python under shims).
Decided compositionally at cut points (DESIGN 2.5): V1 jitter weights, V2 prior slots (mu, Lambda incl.
the capped K-variance rule and unit conversions), V3 Kepler call wiring + trend rows, V4 matrix handed to
the first dgetrf = Lambda^-1 + M^T W M, V5 matrix handed to the second dgetrf = W^-1 + M Lambda M^T and
log-determinant from its LU diagonal, V6-8 Binv = W - W M A M^T W, b = M mu, chi^2 and the returned value.
With the trusted lemmas (Woodbury, log det from LU) the chain is ln N(y | M mu, C + s^2 I + M Lambda M^T).
Recorded findings of the .pyx (jitter never read, P0 in the period prior's unit, K-prior slot with
offsets) are reported as KNOWN-FINDING; every VC is also proved under the findings' masks.
"""
import math
from fractions import Fraction

from symx import core, symnp, units
from symx.core import z3, SN
from symx.framework import new_result, VCSink, fill_explorer, add_witness
from checks import kernel
from checks.kernel import L

PROPERTY = "C01"
LEVEL = "model_checking"
FUNCTIONS = [("thejoker/likelihood_helpers.py", "get_trend_design_matrix"), ("thejoker/likelihood_helpers.py", "get_constant_term_design_matrix"),
             ("thejoker/utils.py", "_pytensor_get_mean_std"), ("thejoker/data.py", "RVData.ivar"),
             ("thejoker/likelihood_helpers.py", "marginal_ln_likelihood_inmem"), ("thejoker/thejoker.py", "TheJoker.marginal_ln_likelihood"),
             ("thejoker/samples.py", "JokerSamples.pack")]
PYX_FUNCTIONS = ["get_ivar", "CJokerHelper.__init__", "CJokerHelper.make_AAinv", "CJokerHelper.make_bBBinv", "CJokerHelper.likelihood_worker",
                 "CJokerHelper.batch_marginal_ln_likelihood"]
ASSUMPTIONS = [
    "fast_likelihood.pyx is transliterated to Python by rule (validated on every run against the compiled extension on a numeric corpus); C double arithmetic is modelled as real arithmetic (round-off and the convergence of the Kepler solver for e > 0.99 are outside the claim)",
    "contracts: c_rv_from_elements writes K*RV(t-t0,P,e,omega,M0) (RV uninterpreted); dgetrf/dgetri: fresh inverse with X.X^-1 = I, info = 0 (SPD input); LOG/POW uninterpreted",
    "trusted lemmas linking the cut points: Woodbury identity, ln det(2 pi B) = sum ln(2 pi |u_nn|) for an LU factor; Gaussian marginalisation",
    "prior distributions are stubs with symbolic mean/std and unit; pymc's evaluation of the parameters (float32) is outside",
    "bounds: n_epochs <= 3, poly_trend <= 2, n_offsets <= 1, chunk rows <= 2 (quick); n_epochs <= 5, poly_trend <= 3, n_offsets <= 2, chunk rows <= 3 (thorough)",
]


def bounds(tier):
    return {"n_epochs": [1, 3 if tier == "quick" else 5], "poly_trend": [1, 2 if tier == "quick" else 3], "n_offsets": [0, 1 if tier == "quick" else 2],
            "K_prior": ["default (FixedCompanionMass)", "custom Normal"], "chunk_rows": [1, 2 if tier == "quick" else 3], "units": ["km/s", "symbolic scales"], "P_unit": ["day", "year", "symbolic"]}


def shapes(tier):
    out = []
    base = [(1, 1, 0), (2, 1, 0), (2, 2, 0), (3, 2, 0), (2, 1, 1), (3, 2, 1)]
    if tier == "thorough":
        base += [(4, 2, 0), (3, 3, 0), (4, 3, 1), (3, 1, 2), (4, 2, 2)]
    for nt, npoly, noff in base:
        for K in ("default", "normal"):
            out.append({"nt": nt, "poly": npoly, "noff": noff, "K": K, "units": "plain", "P_unit": "day", "tref": "default" if (nt + npoly) % 2 else "explicit", "rows": 1})
    if tier == "thorough":
        out.append({"nt": 5, "poly": 2, "noff": 0, "K": "default", "units": "plain", "P_unit": "day", "tref": "explicit", "rows": 1})
        out.append({"nt": 5, "poly": 1, "noff": 1, "K": "default", "units": "plain", "P_unit": "day", "tref": "default", "rows": 1})
        out.append({"nt": 4, "poly": 2, "noff": 1, "K": "default", "units": "plain", "P_unit": "day", "tref": "default", "rows": 2})
        out.append({"nt": 3, "poly": 2, "noff": 1, "K": "default", "units": "plain", "P_unit": "day", "tref": "default", "rows": 3})
    out.append({"nt": 2, "poly": 1, "noff": 0, "K": "default", "units": "plain", "P_unit": "day", "tref": "default", "rows": 2})
    out.append({"nt": 2, "poly": 2, "noff": 1, "K": "default", "units": "plain", "P_unit": "day", "tref": "explicit", "rows": 2})
    # unit handling of the prior slots (V2 only needs the constructor + one row)
    for K in ("default", "normal"):
        out.append({"nt": 2 if K == "default" else 1, "poly": 2, "noff": 1 if K == "default" else 0, "K": K, "units": "sym", "P_unit": "day", "tref": "default", "rows": 1, "slots_only": True})
    out.append({"nt": 1, "poly": 1, "noff": 0, "K": "default", "units": "plain", "P_unit": "year", "tref": "default", "rows": 1, "slots_only": True})
    # reference epoch disabled (t_ref=False): times enter as absolute BMJD
    out.append({"nt": 2, "poly": 2, "noff": 0, "K": "normal", "units": "plain", "P_unit": "day", "tref": "false", "rows": 1})
    # call history: the prior object was used with another data set (other epochs, values, RV unit) before
    out.append({"nt": 2, "poly": 2, "noff": 0, "K": "normal", "units": "plain", "P_unit": "day", "tref": "default", "rows": 1, "history": "prior_reused"})
    out.append({"nt": 1, "poly": 1, "noff": 0, "K": "default", "units": "sym", "P_unit": "day", "tref": "default", "rows": 1, "slots_only": True, "history": "prior_reused"})
    # ... or ANOTHER prior with the same parameter names was used before in this process
    out.append({"nt": 1, "poly": 2, "noff": 0, "K": "default", "units": "plain", "P_unit": "day", "tref": "default", "rows": 1, "slots_only": True, "history": "other_prior_first"})
    out.append({"nt": 2, "poly": 1, "noff": 1, "K": "default", "units": "plain", "P_unit": "day", "tref": "default", "rows": 1, "slots_only": True, "history": "other_prior_first"})
    out.append({"nt": 1, "poly": 1, "noff": 0, "K": "default", "units": "plain", "P_unit": "sym", "tref": "default", "rows": 1, "slots_only": True})
    return out


def describe_factory(pb, rows, shape):
    def d(m):
        mv = lambda x: str(core.model_value(m, x))
        out = {"t": [mv(x) for x in pb["t"]], "y": [mv(x) for x in pb["y"]], "err": [mv(x) for x in pb["err"]],
               "rows": [[mv(c) for c in r] for r in rows], "pri": {}}
        for nm, ent in pb["pri"].items():
            out["pri"][nm] = [mv(x) if core.is_sym(x) else None for x in ent[:2]] + [mv(x) for x in ent[3:]]
        if pb["tref_in"] is not None:
            out["t_ref"] = mv(pb["tref_in"]._v)
        for nm in ("dunit",):
            sc = pb[nm].scale
            out[nm + "_scale"] = mv(sc) if core.is_sym(sc) else str(sc)
        sc = pb["P_unit"].scale
        out["P_unit_scale"] = mv(sc) if core.is_sym(sc) else str(sc)
        return out
    return d


def prefer_nice(pb, rows, jitter_zero=False):
    """margins for well-conditioned counterexample models (replay is numeric)"""
    c = []
    for r in rows:
        c += [L(r[0]) >= 20, L(r[0]) <= 50, L(r[1]) <= Fraction(1, 2), L(r[2]) >= 0, L(r[2]) <= 6, L(r[3]) >= 0, L(r[3]) <= 6]
        c += [L(r[4]) == 0] if jitter_zero else [L(r[4]) >= 1, L(r[4]) <= 5]
    for e in pb["err"]:
        c += [L(e) >= Fraction(1, 2), L(e) <= 3]
    for i, t in enumerate(pb["t"]):
        c += [L(t) >= 10 * i, L(t) <= 10 * i + 5]
    for y in pb["y"]:
        c += [L(y) >= -20, L(y) <= 20]
    for nm, ent in pb["pri"].items():
        c += [L(ent[0]) >= 1, L(ent[0]) <= 3]
        if ent[1] is not None:
            c += [L(ent[1]) >= 2, L(ent[1]) <= 20]
        else:
            # (numbers for which the K-variance rule stays far below its cap under either reading of the P0 unit, so that a
            #  difference in the rule is visible in the real numbers of the replay)
            c += [L(ent[3]) >= 5, L(ent[3]) <= 10, L(ent[4]) >= 100, L(ent[4]) <= 200, L(ent[5]) >= 400, L(ent[5]) <= 500]
    # symbolic unit scales: velocity units within a factor of a few of km/s, the period unit a few days (so that the replay is
    # well conditioned whatever model the solver's random seed leads to)
    seen = set()
    for un in [pb["dunit"]] + [ent[2] for ent in pb["pri"].values()]:
        sc = un.scale
        if core.is_sym(sc) and str(sc) not in seen:
            seen.add(str(sc))
            dd = int(un.dims.get("time", 0))
            base = Fraction(1000) / Fraction(86400) ** (-1 - dd) if dd < -1 else Fraction(1000)
            c += [L(sc) >= base / 2, L(sc) <= base * 2]
    sc = pb["P_unit"].scale
    if core.is_sym(sc):
        c += [L(sc) >= 86400 * 2, L(sc) <= 86400 * 9]
    return c


def run_shape(shape, tier):
    res = new_result(shape)
    sink = VCSink(res, PROPERTY)
    S = kernel.KSetup()

    def harness():
        S.reset()
        pb = kernel.make_problem(S, shape)
        rows = kernel.chunk_rows(shape["rows"])
        h, ll = kernel.run_marginal(S, pb, rows)
        return pb, rows, h, ll

    ex = core.Explorer(max_paths=200, solver_timeout_ms=60000)
    twin = False
    for path in ex.paths(harness):
        core.Ctx.cur = path.ctx
        try:
            r, _, _ = path.check_isolated(core.SB(z3.BoolVal(False)))
            twin = twin or r == "sat"
            if path.raised is not None:
                e = path.raised
                site = "CJokerHelper"
                if shape["K"] == "normal" and shape["noff"] > 0 and isinstance(e, (ZeroDivisionError, core.UnsupportedByShim)):
                    site = "K_slot|custom_K_with_offsets"
                sink.check(path, "kernel_runs", core.SB(z3.BoolVal(False)), site=site, describe=_raise_desc(shape, e))
                continue
            pb, rows, h, ll = path.result
            vcs_marginal(sink, path, S, shape, pb, rows, h, ll, res)
        finally:
            core.Ctx.cur = None
    res["twin_ok"] = twin
    fill_explorer(res, ex)
    return res


def _raise_desc(shape, e):
    def d(m):
        return {"raised": repr(e)[:200], "generic": True}
    return d


def vcs_marginal(sink, path, S, shape, pb, rows, h, ll, res, prop_prefix=""):
    nt, npoly, noff = shape["nt"], shape["poly"], shape["noff"]
    nl = 1 + npoly + noff
    rec = S.rec
    desc = describe_factory(pb, rows, shape)
    pref = prefer_nice(pb, rows)
    data = pb["data"]
    tref = pb.get("tref_spec", data._t_ref_bmjd)     # the prescribed epoch, not the one the code stored
    t_cells = kernel.cells1(data._t_bmjd, nt)
    y_cells = kernel.cells1(data.rv.value, nt)
    err_cells = kernel.cells1(data.rv_err.value, nt)
    nrows = len(rows)
    order = kernel.design_order(pb)

    # ---- V2: prior slots (state after the LAST row; Lambda[0] is per-sample for the default K prior)
    mus, lams = kernel.spec_prior_slots(pb, rows[-1])
    mu_code = kernel.cells1(h.mu, nl)
    lam_code = kernel.cells1(h.Lambda, nl)
    day_P = (not core.is_sym(pb["P_unit"].scale)) and pb["P_unit"].scale == units.day.scale
    for j, nm in enumerate(order):
        sink.check(path, "V2.mu[%s]" % nm, core.SB(L(mu_code[j]) == L(mus[j])), site="CJokerHelper.__init__.mu", describe=desc, prefer=pref, isolated=True)
        site = "CJokerHelper.__init__.Lambda"
        if nm == "K" and shape["K"] == "default":
            site = "batch_marginal_ln_likelihood.Lambda0" + ("" if day_P else "|P0_unit")
        sink.check(path, "V2.Lambda[%s]" % nm, core.SB(L(lam_code[j]) == L(lams[j])), site=site, describe=desc, prefer=pref, isolated=True)
    # unused tail of mu / Lambda must not carry anything the algebra reads (length n_linear + n_offsets): nothing to assert

    # ---- V1: get_ivar (state after the last row)
    s_last = rows[-1][4]
    siv = kernel.cells1(h.s_ivar, nt)
    cl = z3.And([L(siv[n]) * (L(err_cells[n]) * L(err_cells[n]) + L(s_last) * L(s_last)) == 1 for n in range(nt)])
    sink.check(path, "V1.s_ivar", core.SB(cl), site="get_ivar", describe=desc, prefer=pref, isolated=True)
    # witnesses (inputs replayed on the compiled kernel) are drawn inside the masks of the recorded findings
    wit_pref = prefer_nice(pb, rows, jitter_zero=True)
    if shape.get("slots_only"):
        if day_P and shape.get("units") != "sym":
            add_witness(res, path, desc, site="slots", limit=1, isolated=True, prefer=wit_pref)
        return

    # ---- per chunk row: V3, V4, V5, V6-8
    keps, lus, inv = rec.of("kepler"), rec.of("dgetrf"), rec.of("dgetri")
    ok_calls = len(keps) == nrows and len(lus) == 2 * nrows and len(inv) == nrows
    sink.check(path, "V3.call_sequence", core.SB(z3.BoolVal(ok_calls)), site="likelihood_worker", describe=desc)
    if not ok_calls:
        return
    # trend rows of M (state, identical for all rows)
    MT = kernel.cells2(h.M_T, nl, nt)
    tm = pb["trend_M"].a
    cl = [L(MT[i][n]) == L(tm[n, i - 1]) for i in range(1, nl) for n in range(nt)]
    # and the trend matrix itself: constant columns, then powers of (t - t_ref)
    for n in range(nt):
        cl.append(L(tm[n, 0]) == 1)
        for k in range(1, noff + 1):
            cl.append(L(tm[n, k]) == (1 if kernel.survey_of(n, nt, noff) == k else 0))
        p = t_cells[n] - tref
        acc = p
        for q in range(1, npoly):
            cl.append(L(tm[n, noff + q]) == L(acc))
            acc = acc * p
    sink.check(path, "V3.trend_rows", core.SB(z3.And(cl)), site="design_matrix", describe=desc, prefer=pref, isolated=True)
    ht = kernel.cells1(h.t, nt)
    hy = kernel.cells1(h.rv, nt)
    sink.check(path, "V3.data_arrays", core.SB(z3.And([L(ht[n]) == L(t_cells[n]) for n in range(nt)] + [L(hy[n]) == L(y_cells[n]) for n in range(nt)] + [L(h.t0) == L(tref)])),
               site="CJokerHelper.__init__.data", describe=desc)
    for k in range(nrows):
        P, e, om, M0, s = rows[k]
        kc = keps[k]
        wiring = (kc[1] is h.t and kc[2] == 0 and kc[3] is h.M_T and kc[4] == 0 and kc[5] == nt)
        cl = z3.And(z3.BoolVal(bool(wiring)), L(kc[6]) == L(P), L(kc[7]) == 1, L(kc[8]) == L(e), L(kc[9]) == L(om), L(kc[10]) == L(M0), L(kc[11]) == L(tref))
        sink.check(path, "V3.kepler_call[%d]" % k, core.SB(cl), site="c_rv_from_elements", describe=desc)
        # design matrix of this row (spec)
        M = [[core.uf("RV", t_cells[n] - tref, P, e, om, M0) for n in range(nt)]] + [[tm[n, i - 1] for n in range(nt)] for i in range(1, nl)]
        # cut: the slots the algebra uses are the code's own (V2 relates them to the declared prior)
        mus_k, lams_k = kernel.spec_prior_slots(pb, rows[k])
        lam_used = [lams_k[0] if (shape["K"] == "default" and day_P) else (lam_code[0] if k == nrows - 1 else lams_k[0])] + list(lam_code[1:])
        mu_used = list(mu_code)
        var = [err_cells[n] * err_cells[n] + s * s for n in range(nt)]          # sigma_n^2 + s^2 in the data unit
        w = [kernel.recip(v) for v in var]
        linv = [kernel.recip(x) for x in lam_used]
        mask = L(s) == 0                                                           # mask of the recorded finding "jitter never read"

        def masked(name, claim, site):
            r = sink.check(path, name + "[s=0]", core.SB(z3.Implies(mask, claim)), site=site, describe=desc, prefer=pref, isolated=True)
            if r == "unsat":
                # the unrestricted claim; if the solver cannot decide it, search a counterexample with only the jitter free
                sink.check(path, name, core.SB(claim), site=site + "|jitter", describe=desc, prefer=pref, isolated=True, timeout_ms=3000,
                           guided_free=[str(L(s))])
        A_in = lus[2 * k][2]
        cl = []
        for i in range(nl):
            for j in range(nl):
                spec = core.sym_sum([M[i][n] * w[n] * M[j][n] for n in range(nt)])
                if i == j:
                    spec = spec + linv[i]
                cl.append(L(A_in[i * nl + j]) == L(spec))
        masked("V4.Ainv[%d]" % k, z3.And(cl), "make_AAinv")
        B_in = lus[2 * k + 1][2]
        cl = []
        for n in range(nt):
            for m_ in range(nt):
                spec = core.sym_sum([M[i][n] * lam_used[i] * M[i][m_] for i in range(nl)])
                if n == m_:
                    spec = spec + var[n]
                cl.append(L(B_in[n * nt + m_]) == L(spec))
        masked("V5.B[%d]" % k, z3.And(cl), "make_bBBinv.B")
        # V6-8: value returned for this row
        A = inv[k][3]
        tag2 = lus[2 * k + 1][3]
        b = [core.sym_sum([M[i][n] * mu_used[i] for i in range(nl)]) for n in range(nt)]
        chi2 = 0
        for n in range(nt):
            for m_ in range(nt):
                binv = -core.sym_sum([w[n] * M[i][n] * A[i * nl + j] * M[j][m_] * w[m_] for i in range(nl) for j in range(nl)])
                if n == m_:
                    binv = binv + w[n]
                chi2 = chi2 + (b[m_] - y_cells[m_]) * binv * (b[n] - y_cells[n])
        logdet = core.sym_sum([core.uf("LOG", 2 * math.pi * abs(core.real("LU%d_%d" % (tag2, n * nt + n)))) for n in range(nt)])
        spec_ll = -0.5 * (chi2 + logdet)
        ll_cell = ll.a[k] if isinstance(ll, symnp.SymArray) else None
        cl = L(ll_cell) == L(spec_ll) if ll_cell is not None and len(ll.a) == nrows else z3.BoolVal(False)
        masked("V6-8.value[%d]" % k, cl, "likelihood_worker")
    add_witness(res, path, desc, site="marginal", limit=1, isolated=True, prefer=wit_pref)


def _pow_axioms(path):
    return []


# ---------------------------------------------------------------------------------------------
# replay on the real build (compiled kernel) against a dense numpy/scipy oracle
# ---------------------------------------------------------------------------------------------

def build_real_problem(shape, m):
    """real RVData / JokerPrior / chunk from a model (values are sanitised into the property's domain)"""
    import numpy as np
    import astropy.units as u
    import pymc as pm
    import thejoker as tj
    import thejoker.units as xu
    from astropy.time import Time
    f = lambda x, d=0.0: float(Fraction(x)) if x is not None else d
    nt, npoly, noff = shape["nt"], shape["poly"], shape["noff"]
    generic = m.get("generic") or "t" not in m
    if generic:
        rnd = np.random.default_rng(7)
        t = np.sort(rnd.uniform(0, 60, nt))
        y = rnd.normal(0, 8, nt)
        err = rnd.uniform(0.5, 2.0, nt)
        rows = [[13.7 + 3 * r, 0.2, 1.1, 2.3, 2.5] for r in range(shape["rows"])]
        pri = {}
    else:
        t = np.array([f(x) for x in m["t"]])
        y = np.array([f(x) for x in m["y"]])
        err = np.array([abs(f(x)) or 1.0 for x in m["err"]])
        rows = [[abs(f(r[0])) or 10.0, min(abs(f(r[1])), 0.9), f(r[2]), f(r[3]), abs(f(r[4]))] for r in m["rows"]]
        pri = m["pri"]
    dscale = f(m.get("dunit_scale", "1000")) if not generic else 1000.0
    dunit = u.km / u.s if abs(dscale - 1000.0) < 1e-9 else u.def_unit("dsym", dscale * u.m / u.s)
    if abs(dscale - 1000.0) >= 1e-9:
        u.add_enabled_units([dunit])      # so that the cache file's unit strings can be read back
    Pscale = f(m.get("P_unit_scale", "86400")) if not generic else {"day": 86400.0, "year": 31557600.0, "sym": 7 * 86400.0}[shape["P_unit"]]
    P_unit = u.day if abs(Pscale - 86400.0) < 1e-6 else (u.year if abs(Pscale - 31557600.0) < 1e-3 else u.def_unit("psym", Pscale * u.s))
    tref = None
    # multi-survey input is merged by validate_prepare_data into a new RVData whose reference epoch is the earliest
    # time (per-source t_ref values are not carried over), so an explicit t_ref is only realisable for a single source
    if shape.get("tref") == "explicit" and not noff:
        tref = Time(58000.0 + (f(m["t_ref"]) if "t_ref" in m else -3.3), format="mjd", scale="tcb")
    if shape.get("tref") == "false" and not noff:
        tref = False
    srcs = []
    tt = 58000.0 + t
    if noff:
        for k in range(noff + 1):
            sel = np.array([kernel.survey_of(i, nt, noff) == k for i in range(nt)])
            srcs.append(tj.RVData(Time(tt[sel], format="mjd", scale="tcb"), y[sel] * dunit, err[sel] * dunit, t_ref=tref))
    else:
        srcs = tj.RVData(Time(tt, format="mjd", scale="tcb"), y * dunit, err * dunit, t_ref=tref)

    def P(nm, idx, default):
        v = pri.get(nm, [None, None])
        x = v[idx] if idx < len(v) else None
        return f(x) if x is not None else default
    with pm.Model():
        pars = {}
        offs = []
        for k in range(1, noff + 1):
            nm = "dv0_%d" % k
            offs.append(xu.with_unit(pm.Normal(nm, P(nm, 0, 1.5), abs(P(nm, 1, 4.0)) or 4.0), u.km / u.s))
        for j in range(npoly):
            nm = "v%d" % j
            pars[nm] = xu.with_unit(pm.Normal(nm, P(nm, 0, 2.0), abs(P(nm, 1, 30.0 / (1 + 9 * j))) or 1.0), u.km / u.s / u.day ** j)
        if shape["K"] == "normal":
            pars["K"] = xu.with_unit(pm.Normal("K", P("K", 0, 1.0), abs(P("K", 1, 15.0)) or 15.0), u.km / u.s)
            prior = tj.JokerPrior.default(P_min=1 * P_unit, P_max=(400 * u.day).to(P_unit), poly_trend=npoly, v0_offsets=offs, s=0 * u.km / u.s, pars=pars)
        else:
            sK0 = abs(P("K", 2, 25.0)) or 25.0
            P0 = abs(P("K", 3, 200.0)) or 200.0
            maxK = abs(P("K", 4, 60.0)) or 60.0
            from thejoker.distributions import FixedCompanionMass, UniformLog, Kipping13Global
            Pv = xu.with_unit(UniformLog("P", 1.0, (400 * u.day).to_value(P_unit)), P_unit)
            ev = xu.with_unit(Kipping13Global("e"), u.one)
            pars["K"] = xu.with_unit(FixedCompanionMass("K", P=Pv, e=ev, sigma_K0=sK0 * u.km / u.s, P0=P0 * P_unit, mu=P("K", 0, 0.0), max_K=maxK * u.km / u.s), u.km / u.s)
            pars["P"] = Pv
            pars["e"] = ev
            prior = tj.JokerPrior.default(poly_trend=npoly, v0_offsets=offs, s=0 * u.km / u.s, pars=pars)
    return {"data": srcs, "prior": prior, "rows": rows, "dunit": dunit, "P_unit": P_unit, "t": tt, "y": y, "err": err, "tref": tref}


def oracle_ll(shape, rp, prior_vals=None):
    """dense Gaussian marginal ln N(y | M mu, C + s^2 I + M Lambda M^T) written from the property statement"""
    import numpy as np
    import astropy.units as u
    from scipy.stats import multivariate_normal
    from twobody.wrap import cy_rv_from_elements
    import thejoker.units as xu
    nt, npoly, noff = shape["nt"], shape["poly"], shape["noff"]
    prior = rp["prior"]
    du = rp["dunit"]
    t, y, err = rp["t"], rp["y"], rp["err"]
    tref = 0.0 if rp["tref"] is False else (rp["tref"].tcb.mjd if rp["tref"] is not None else t.min())
    out = []
    names = ["K", "v0"] + ["dv0_%d" % k for k in range(1, noff + 1)] + ["v%d" % j for j in range(1, npoly)]
    for P, e, om, M0, s in rp["rows"]:
        M = np.zeros((nt, len(names)))
        M[:, 0] = cy_rv_from_elements(np.ascontiguousarray(t), P, 1.0, e, om, M0, tref, 1e-12, 256)
        M[:, 1] = 1.0
        for k in range(1, noff + 1):
            M[:, 1 + k] = np.array([kernel.survey_of(i, nt, noff) == k for i in range(nt)], dtype=float)
        for j in range(1, npoly):
            M[:, 1 + noff + j] = (t - tref) ** j
        mu, var = [], []
        for nm in names:
            par = prior.pars[nm]
            unit = getattr(par, xu.UNIT_ATTR_NAME)
            j = int(nm[1:]) if nm[0] == "v" else 0
            tgt = du / u.day ** j
            pr = par.owner.op.dist_params(par.owner)
            if nm == "K" and shape["K"] == "default":
                sK0 = par._sigma_K0.to_value(du)
                P0 = par._P0.to_value(u.day)
                maxK = par._max_K.to_value(du)
                mu.append((float(pr[0].eval()) * unit).to_value(tgt))
                var.append(min(sK0 ** 2 * (P / P0) ** (-2 / 3.) / (1 - e ** 2), maxK ** 2))
            else:
                mu.append((float(pr[0].eval()) * unit).to_value(tgt))
                var.append((float(pr[1].eval()) * unit).to_value(tgt) ** 2)
        mu, var = np.array(mu), np.array(var)
        C = np.diag(err ** 2 + s ** 2) + M @ np.diag(var) @ M.T
        # explicit density (no eigenvalue cut-off as in scipy's allow_singular path): -1/2 [r^T C^-1 r + ln det(2 pi C)]
        r = y - M @ mu
        sign, logdet = np.linalg.slogdet(2 * np.pi * C)
        out.append(-0.5 * (r @ np.linalg.solve(C, r) + logdet))
    return np.array(out)


from checks import kernel_conc as _kc


@_kc.replay_both
def replay(cand):
    import numpy as np
    import astropy.units as u
    import thejoker as tj
    from thejoker.samples import JokerSamples
    shape = cand["shape"]
    m = cand.get("model") or {}
    try:
        rp = build_real_problem(shape, m)
    except Exception as e:
        import traceback
        return {"reproduced": False, "error": "could not realise the model as a real problem: %s" % traceback.format_exc()[-400:]}
    rows = np.array(rp["rows"], dtype=float)
    s = JokerSamples(poly_trend=shape["poly"], n_offsets=shape["noff"])
    s["P"] = (rows[:, 0] * u.day)
    s["e"] = rows[:, 1] * u.one
    s["omega"] = rows[:, 2] * u.rad
    s["M0"] = rows[:, 3] * u.rad
    s["s"] = (rows[:, 4] * rp["dunit"])
    joker = tj.TheJoker(rp["prior"], rng=np.random.default_rng(0))
    bad = []
    if shape.get("history") == "other_prior_first":
        # the call history of the shape: another prior with the same parameter names but other numbers served the data before
        try:
            m2 = dict(m)
            m2["pri"] = {k: [None if x is None else str(Fraction(x) * 3 + 2) for x in v] for k, v in (m.get("pri") or {}).items()}
            rp0 = build_real_problem(shape, m2)
            tj.TheJoker(rp0["prior"], rng=np.random.default_rng(1)).marginal_ln_likelihood(rp0["data"], s, in_memory=True)
        except Exception as e:
            return {"reproduced": True, "detail": "prelude call (another prior) raised %s: %s" % (type(e).__name__, str(e)[:200])}
    if shape.get("history") == "prior_reused":
        # the call history of the shape: the same prior object first serves the data re-expressed in m/s at shifted epochs
        def other(d):
            if isinstance(d, dict):
                return {k: other(v) for k, v in d.items()}
            if isinstance(d, (list, tuple)):
                return [other(v) for v in d]
            return tj.RVData(d.t + 3.25 * u.day, (1.5 * d.rv).to(u.m / u.s), d.rv_err.to(u.m / u.s))
        try:
            tj.TheJoker(rp["prior"], rng=np.random.default_rng(1)).marginal_ln_likelihood(other(rp["data"]), s, in_memory=True)
        except Exception as e:
            return {"reproduced": True, "detail": "prelude call (same prior, data in m/s) raised %s: %s" % (type(e).__name__, str(e)[:200])}
    try:
        got = np.asarray(joker.marginal_ln_likelihood(rp["data"], s, in_memory=True), dtype=float)
        got2 = np.asarray(joker.marginal_ln_likelihood(rp["data"], s, in_memory=False), dtype=float)
    except Exception as e:
        return {"reproduced": True, "detail": "marginal_ln_likelihood raised %s: %s" % (type(e).__name__, str(e)[:200])}
    want = oracle_ll(shape, rp)
    # the kernel evaluates Binv by the Woodbury identity in double precision: when the prior variances exceed the data
    # variances by many orders of magnitude the subtraction cancels catastrophically. Round-off is outside the claim
    # (floats are modelled as reals), so such inputs are not comparable.
    import thejoker.units as xu
    big = 1.0
    for nm, par in rp["prior"].pars.items():
        if nm in ("K",) or nm.startswith("v") or nm.startswith("dv0"):
            try:
                sd = float(par.owner.op.dist_params(par.owner)[1].eval()) if not hasattr(par, "_sigma_K0") else float(par._max_K.value)
                j = int(nm[1:]) if nm[0] == "v" else 0
                span = max(1.0, float(np.ptp(rp["t"]))) ** j
                big = max(big, ((sd * getattr(par, xu.UNIT_ATTR_NAME)).to_value(rp["dunit"] / u.day ** j) * span) ** 2)
            except Exception:
                pass
    cond = big / float(np.min(rp["err"]) ** 2)
    if cond > 1e6:
        return {"reproduced": False, "detail": "ill-conditioned input (prior/data variance ratio %.1e): float round-off in the kernel's Woodbury step dominates; outside the claim" % cond}
    for tag, g in (("in_memory", got), ("file", got2)):
        if g.shape != want.shape or not np.all(np.isfinite(g)) or not np.allclose(g, want, rtol=2e-4, atol=2e-4):
            bad.append("%s: marginal_ln_likelihood=%s but ln N(y | M mu, C + s^2 I + M Lambda M^T)=%s (rows P,e,omega,M0,s=%s)" % (tag, g.tolist(), want.tolist(), rows.tolist()))
    return {"reproduced": bool(bad), "detail": "; ".join(bad)[:900] or "real build agrees with the closed form"}


# ---------------------------------------------------------------------------------------------
# translation validation (every run): transliterated .pyx == compiled extension on a numeric corpus;
# staleness of the generated C with respect to the .pyx
# ---------------------------------------------------------------------------------------------

def extras(tier):
    return [{"extra": "pyx_vs_compiled"}]


def staleness():
    """every code line of the .pyx must occur in the comments Cython embedded in the generated .c"""
    import os
    import re
    cpath = "/repo/thejoker/src/fast_likelihood.c"
    if not os.path.exists(cpath):
        return None, "generated C file not present"
    ctext = open(cpath, errors="replace").read()
    missing = []
    in_doc = False
    in_extern = False
    decl = re.compile(r"^(public\s+)?(unsigned\s+)?(int|double|char\*?|object|bint|long|float)\b(\[[^\]]*\])?\s+[\w, ]+(\s*#.*)?$")
    for ln in open("/repo/thejoker/src/fast_likelihood.pyx").read().splitlines():
        t = ln.strip()
        if in_extern:
            if ln[:1] in (" ", "\t") or not t:
                continue
            in_extern = False
        if t.count('"""') == 1:
            in_doc = not in_doc
            continue
        if in_doc or not t or t.startswith("#") or len(t) < 8 or '"""' in t:
            continue
        if t.startswith("cdef extern"):
            in_extern = True
            continue
        if "cimport" in t or decl.match(t):
            continue
        if t not in ctext:
            missing.append(t)
    return missing, None


def extra_run(arg, tier):
    import os
    from checks import kernel_conc
    res = new_result(arg)
    seed = int(os.environ.get("VERIF_SEED", "0") or 0)
    out = kernel_conc.run(seed % 5)
    res["conformance_runs"] = out["runs"]
    res["vcs"] += 1
    res["nontrivial"] += 1
    res["notes"].append("pyx-interp vs compiled extension: %d runs, max rel ll diff %.2e, max (a,A) diff %.2e" % (out["runs"], out["max_ll_diff"], out["max_aA_diff"]))
    missing, why = staleness()
    if missing is None:
        res["notes"].append("staleness test skipped: " + why)
    elif missing:
        res["notes"].append("compiled artefact stale with respect to the .pyx (Cython unavailable: cannot regenerate): %d source lines not in the generated C, e.g. %r" % (len(missing), missing[0][:80]))
    if out["problems"]:
        # the source as written and the shipped binary disagree: both verdicts are reported, the symbolic one speaks about the .pyx
        res["error"] = "transliterated .pyx and compiled extension disagree numerically: %s" % "; ".join(out["problems"])[:400]
    else:
        res["unsat"] += 1
        res["samples"].append({"vc": "C01.translation_validation", "result": "agree", "runs": out["runs"], "max_rel_diff": out["max_ll_diff"]})
        res["twin_ok"] = True
    return res
