"""C05 -- results do not depend on batching, pool, cache path or call history.

Three families, all on real code of the current tree:
 junk      (inductive step on the kernel): batch_marginal_ln_likelihood / batch_get_posterior_samples of the
           transliterated .pyx are started from an ARBITRARY helper state -- every scratch cell (M_T row 0,
           s_ivar, Lambda[0] for the default K prior, A, Ainv, B, Binv, b, a, Atmp, Btmp, pivots, work) is a
           fresh junk symbol -- and the outputs (ll values, the (mean, cov) handed to the generator, output rows)
           must not depend on any junk symbol.  Independence from an arbitrary pre-state covers call histories of
           any length and any batch position.  __reduce__ must rebuild from the constructor's own arguments.
 partition TheJoker.marginal_ln_likelihood through pack (in memory), read_batch on a user file, and the
           temp-file route, for n_batches in 1..N+2 and pools executing workers in reverse order: cell i of the
           result is LL(library row i converted to the kernel's internal units), library column units symbolic.
 history   the same file name is evaluated, overwritten with a library in other units, evaluated again.
 forms     equal seeds (same stream symbols) through the file-name, object and in-memory forms and several n_batches:
           identical requests to the generator and identical accepted rows.
 pickle    the helper a worker unpickles (CJokerHelper.__reduce__ + pickle protocol on RVData) equals the parent's.
"""
import types

from symx import core, env, symnp, units
from symx.core import z3
from symx.framework import new_result, VCSink, fill_explorer, add_witness
from checks import kernel, groupa, c01
from checks.kernel import L

PROPERTY = "C05"
LEVEL = "model_checking"
FUNCTIONS = [("thejoker/multiproc_helpers.py", "marginal_ln_likelihood_helper"), ("thejoker/multiproc_helpers.py", "marginal_ln_likelihood_worker"),
             ("thejoker/multiproc_helpers.py", "run_worker"), ("thejoker/utils.py", "batch_tasks"), ("thejoker/utils.py", "read_batch"),
             ("thejoker/utils.py", "read_batch_slice"), ("thejoker/utils.py", "read_batch_idx"), ("thejoker/utils.py", "table_header_to_units"),
             ("thejoker/utils.py", "tempfile_decorator"), ("thejoker/samples.py", "JokerSamples.pack"), ("thejoker/samples.py", "JokerSamples.write"),
             ("thejoker/likelihood_helpers.py", "marginal_ln_likelihood_inmem"), ("thejoker/thejoker.py", "TheJoker.marginal_ln_likelihood")]
PYX_FUNCTIONS = ['CJokerHelper.__reduce__', 'CJokerHelper.batch_marginal_ln_likelihood', 'CJokerHelper.batch_get_posterior_samples', 'CJokerHelper.likelihood_worker']
ASSUMPTIONS = [
    "junk family: the kernel's scratch state is arbitrary reals; LAPACK/Kepler/RNG stubs as in C01/C03 (outputs of a stub depend only on the inputs it is handed)",
    "partition/history families: kernel stub ll = LL(row in internal units) (uninterpreted), file system / HDF5 / pool by contract (symx.env); real multi-process scheduling outside",
    "pickle family: pickling follows the protocol on the classes as written (user __reduce_ex__/__reduce__, else __getstate__/__dict__ + __setstate__); the pymc model inside a real JokerPrior is not pickled here (prior stub)",
    "forms family: 'equal seeds' = the same stream symbols (generator key and positions); N <= 3, n_linear_samples <= 2",
    "bounds: kernel shapes <= 3 epochs, poly_trend <= 2, <= 1 offset; libraries N <= 4, n_batches <= N+2, pool size <= 3",
]


def bounds(tier):
    return {"junk": {"n_epochs": [1, 3], "poly_trend": [1, 2], "n_offsets": [0, 1]}, "partition": {"N": [1, 4], "n_batches": "None, 1..N+2", "pool.size": [0, 3]},
            "history": {"calls": 2}, "forms": {"N": [2, 3], "entry forms": ["file name", "JokerSamples object", "in memory"], "n_batches": [1, 2, "N+1"]},
            "pickle": {"t_ref": ["default", "explicit", "False"]}}


def shapes(tier):
    out = []
    for nt, npoly, noff in ((1, 1, 0), (2, 2, 0), (3, 2, 1)):
        for K in ("default", "normal"):
            if K == "normal" and noff:
                continue
            out.append({"family": "junk", "nt": nt, "poly": npoly, "noff": noff, "K": K, "units": "plain", "P_unit": "day", "tref": "default", "rows": 1})
    for N in ((1, 2, 3) if tier == "quick" else (1, 2, 3, 4, 5, 6)):
        for nb in [None] + list(range(1, N + 3)):
            for src in ("filename", "object", "inmem"):
                if src == "inmem" and nb not in (None, 1):
                    continue
                out.append({"family": "partition", "N": N, "n_batches": nb, "src": src, "pool": (N + (nb or 0)) % 4})
    for N in (2, 3):
        out.append({"family": "partition", "N": N, "n_batches": 2, "src": "idx", "pool": 1})
    out.append({"family": "history", "N": 2})
    out.append({"family": "history", "N": 3})
    # equal seeds, different forms of the same library (file name / JokerSamples object / in memory) and different batching
    for N, k, rnd in ((2, None, False), (3, 2, True), (3, 2, False), (3, None, True)):
        out.append({"family": "forms", "N": N, "n_prior": k, "randomize": rnd})
    out.append({"family": "forms", "N": 3, "n_prior": None, "randomize": False, "n_lin": 2})
    # helpers pickled to worker processes: (class, (data, prior, trend_M)) with the data themselves pickled
    for tref in ("default", "explicit", "false"):
        out.append({"family": "pickle", "nt": 2, "poly": 2, "noff": 0, "K": "default", "units": "plain", "P_unit": "day", "tref": tref, "rows": 1})
    out.append({"family": "pickle", "nt": 2, "poly": 1, "noff": 1, "K": "default", "units": "sym", "P_unit": "day", "tref": "default", "rows": 1})
    return out


# ---------------------------------------------------------------------------------------------

def _junk(S, h, nt, nl, default_K):
    """overwrite every scratch cell of the helper with a fresh junk symbol"""
    names = []

    def fill(arr, tag, rows=None):
        a = arr.a
        import numpy as np
        for idx in np.ndindex(a.shape):
            if rows is not None and idx[0] not in rows:
                continue
            sym = core.real("junk_%s_%s" % (tag, "_".join(map(str, idx))))
            names.append(str(sym.e))
            a[idx] = sym
    fill(h.M_T, "MT", rows=(0,))
    fill(h.s_ivar, "sivar")
    for nm in ("A", "Ainv", "B", "Binv", "Atmp", "Btmp", "b", "a", "npar_work", "ntime_work"):
        fill(getattr(h, nm), nm)
    if default_K:
        sym = core.real("junk_Lambda0")
        names.append(str(sym.e))
        h.Lambda.a[0] = sym
    return set(names)


def _mentions(term, names):
    return core._const_names(L(term)) & names


def _run_junk(shape, res, sink):
    S = kernel.KSetup()
    nt, npoly, noff = shape["nt"], shape["poly"], shape["noff"]
    nl = 1 + npoly + noff

    def harness():
        S.reset()
        pb = kernel.make_problem(S, shape)
        rows = kernel.chunk_rows(1)
        chunk = symnp.SymArray(symnp._obj([list(r) for r in rows]), symnp._F8)
        h = S.Helper(pb["data"], pb["prior"], pb["trend_M"])
        red = h.__reduce__()
        junk = _junk(S, h, nt, nl, shape["K"] == "default")
        ll = h.batch_marginal_ln_likelihood(chunk)
        n_calls = len(S.rec.calls)
        junk2 = _junk(S, h, nt, nl, shape["K"] == "default")
        rng = env.SymRng(S.w)
        raw, _ = h.batch_get_posterior_samples(chunk, 1, rng)
        return pb, rows, h, red, junk | junk2, ll, raw

    ex = core.Explorer(max_paths=100)
    twin = False
    for path in ex.paths(harness):
        core.Ctx.cur = path.ctx
        try:
            r, _, _ = path.check_isolated(core.SB(z3.BoolVal(False)))
            twin = twin or r == "sat"
            if path.raised is not None:
                sink.check(path, "junk.kernel_runs", core.SB(z3.BoolVal(False)), site="kernel", describe=lambda m: {"raised": repr(path.raised)[:300]})
                continue
            pb, rows, h, red, junk, ll, raw = path.result
            desc = c01.describe_factory(pb, rows, shape)
            bad = _mentions(ll.a[0], junk)
            sink.check(path, "junk.marginal_independent_of_prestate", core.SB(z3.BoolVal(not bad)), site="batch_marginal_ln_likelihood",
                       describe=lambda m: dict(desc(m), depends_on=sorted(bad)[:6]), structural_claim=True)
            # everything handed to LAPACK / the generator and every output cell of the posterior pass
            leaks = set()
            for c in S.rec.calls:
                if c[0] == "dgetrf":
                    for x in c[2]:
                        leaks |= _mentions(x, junk)
                elif c[0] == "dsysv":
                    for row in c[2]:
                        for x in row:
                            leaks |= _mentions(x, junk)
                    for x in c[3]:
                        leaks |= _mentions(x, junk)
            for d in S.w.streams.get(("root",), []):
                if d[0] == "mvn":
                    for x in list(d[1].a.flat) + list(d[2].a.flat):
                        leaks |= _mentions(x, junk)
            for X, Y in path.ctx.notes.get("inv", []):
                for x in X.a.flat:
                    leaks |= _mentions(x, junk)
            for x in raw.a.flat:
                leaks |= _mentions(x, junk)
            sink.check(path, "junk.posterior_independent_of_prestate", core.SB(z3.BoolVal(not leaks)), site="batch_get_posterior_samples",
                       describe=lambda m: dict(desc(m), depends_on=sorted(leaks)[:6]), structural_claim=True)
            okr = isinstance(red, tuple) and len(red) == 2 and red[0] is S.Helper and len(red[1]) == 3 and red[1][0] is pb["data"] and red[1][1] is pb["prior"]
            if okr:
                tm = red[1][2]
                okr = isinstance(tm, symnp.SymArray) and tm.a.shape == pb["trend_M"].a.shape and all(a is b for a, b in zip(tm.a.flat, pb["trend_M"].a.flat))
            sink.check(path, "reduce_rebuilds_from_constructor_arguments", core.SB(z3.BoolVal(bool(okr))), site="CJokerHelper.__reduce__", describe=desc, structural_claim=True)
        finally:
            core.Ctx.cur = None
    res["twin_ok"] = twin
    return ex


def _run_pickle(shape, res, sink):
    """the helper a worker process receives -- rebuilt from __reduce__ with the data pickled by the protocol of the
    RVData class as written -- holds the same numbers as the parent's helper, and evaluates the same kernel inputs"""
    S = kernel.KSetup()

    def harness():
        S.reset()
        pb = kernel.make_problem(S, shape)
        rows = kernel.chunk_rows(1)
        chunk = symnp.SymArray(symnp._obj([list(r) for r in rows]), symnp._F8)
        h1 = S.Helper(pb["data"], pb["prior"], pb["trend_M"])
        red = h1.__reduce__()
        data2 = kernel.pickle_roundtrip(red[1][0])
        h2 = red[0](data2, red[1][1], kernel.pickle_roundtrip(red[1][2]) if not isinstance(red[1][2], symnp.SymArray) else red[1][2].copy())
        h1.batch_marginal_ln_likelihood(chunk)
        k1 = [c for c in S.rec.calls if c[0] == "kepler"]
        del S.rec.calls[:]
        h2.batch_marginal_ln_likelihood(chunk)
        k2 = [c for c in S.rec.calls if c[0] == "kepler"]
        return pb, rows, h1, h2, data2, k1, k2
    ex = core.Explorer(max_paths=100)
    twin = False
    for path in ex.paths(harness):
        core.Ctx.cur = path.ctx
        try:
            r, _, _ = path.check_isolated(core.SB(z3.BoolVal(False)))
            twin = twin or r == "sat"
            if path.raised is not None:
                sink.check(path, "pickle.no_exception", core.SB(z3.BoolVal(False)), site="pickle", describe=lambda m: {"raised": repr(path.raised)[:300], "generic": True})
                continue
            pb, rows, h1, h2, data2, k1, k2 = path.result
            desc = c01.describe_factory(pb, rows, shape)
            d1 = pb["data"]
            cl = []

            def same(a, b):
                if isinstance(a, symnp.SymArray) or isinstance(b, symnp.SymArray):
                    if not (isinstance(a, symnp.SymArray) and isinstance(b, symnp.SymArray)) or a.a.shape != b.a.shape:
                        return [z3.BoolVal(False)]
                    return [x for p_, q_ in zip(a.a.flat, b.a.flat) for x in same(p_, q_)]
                if core.is_sym(a) or core.is_sym(b):
                    return [L(a) == L(b)]
                if isinstance(a, (int, float)) and isinstance(b, (int, float)):
                    return [z3.BoolVal(a == b)]
                return []
            cl += same(d1._t_bmjd, data2._t_bmjd) + same(d1.rv.value, data2.rv.value) + same(d1.rv_err.value, data2.rv_err.value)
            cl += same(d1._t_ref_bmjd, data2._t_ref_bmjd) + [z3.BoolVal((d1.t_ref is None) == (data2.t_ref is None)), d1.rv.unit.same_as(data2.rv.unit)]
            sink.check(path, "pickle.data_roundtrip", core.SB(z3.And(cl)), site="RVData pickling", describe=desc, isolated=True)
            cl = []
            n_cmp = 0
            for nm, v in vars(h1).items():
                w_ = getattr(h2, nm, None)
                if isinstance(v, (symnp.SymArray, core.SN, int, float)) and not isinstance(v, bool):
                    if nm in ("A", "Ainv", "B", "Binv", "Atmp", "Btmp", "b", "a", "npar_work", "ntime_work", "npar_ipiv", "ntime_ipiv", "M_T", "s_ivar", "Lambda"):
                        continue        # scratch written per sample (LAPACK results are fresh symbols per call)
                    cl += same(v, w_)
                    n_cmp += 1
            cl.append(z3.BoolVal(n_cmp >= 5))
            sink.check(path, "pickle.worker_helper_state", core.SB(z3.And(cl)), site="CJokerHelper.__reduce__", describe=desc, isolated=True)
            cl = [z3.BoolVal(len(k1) == len(k2) and len(k1) >= 1)]
            for a, b in zip(k1, k2):
                cl += same(a[1], b[1]) + [L(a[i]) == L(b[i]) for i in range(6, 12)]
            sink.check(path, "pickle.worker_kernel_inputs", core.SB(z3.And(cl)), site="worker", describe=desc, isolated=True)
        finally:
            core.Ctx.cur = None
    res["twin_ok"] = twin
    return ex


class SymUnitSetup(groupa.Setup):
    """library columns P and s stored in units with symbolic scales"""
    def lib_units(self):
        d = dict(self.nl_units)
        d["P"] = self._pu
        d["s"] = self._su
        return d

    def make_units(self):
        self._pu = units.sym_unit("libP", units.day)
        self._su = units.sym_unit("libs", units.km / units.s)


def _internal_row(S, row):
    fP = S._pu.to(units.day)
    fs = S._su.to(S.vunit)
    return [row[0] * fP, row[1], row[2], row[3], row[4] * fs]


def _run_partition(shape, res, sink):
    S = SymUnitSetup(with_api=True)
    N = shape["N"]

    def harness():
        S.reset()
        S.make_units()
        lib, lnp = S.library(N, with_lnp=False)
        rng = env.SymRng(S.w)
        pool = env.Pool(S.w, size=shape["pool"], order="reversed")
        joker = S.st.thejoker.TheJoker(S.JokerPrior(S), pool=pool, rng=rng)
        data = types.SimpleNamespace(t_ref=units.Time(core.real("t_ref")))
        if shape["src"] == "idx":
            # explicit index array in an arbitrary (symbolic) order, as the shuffled samplers pass it
            fn = S.as_file(lib, None)
            idx = rng.choice(N, size=N, replace=False)
            h = S.helper()
            out = S.mp.marginal_ln_likelihood_helper(h, fn, pool=pool, n_batches=shape["n_batches"], samples_idx=idx)
            lib = [[symnp._select(idx.a[j], [lib[r][c] for r in range(N)]) for c in range(5)] for j in range(N)]
            return lib, out, dict(S.w.files), list(S.w.log)
        if shape["src"] == "filename":
            src = S.as_file(lib, None)
        else:
            src = S.as_samples(lib, None)
        out = joker.marginal_ln_likelihood(data, src, n_batches=shape["n_batches"], in_memory=shape["src"] == "inmem")
        return lib, out, dict(S.w.files), list(S.w.log)

    ex = core.Explorer(max_paths=500)
    twin = False
    for path in ex.paths(harness):
        core.Ctx.cur = path.ctx
        try:
            r, _, _ = path.check_isolated(core.SB(z3.BoolVal(False)))
            twin = twin or r == "sat"
            if path.raised is not None:
                sink.check(path, "partition.no_exception", core.SB(z3.BoolVal(False)), site=shape["src"], describe=lambda m: {"raised": repr(path.raised)[:300]})
                continue
            lib, out, files, log = path.result

            def desc(m):
                return {"lib": [[str(core.model_value(m, c)) for c in r_] for r_ in lib] if shape["src"] != "idx" else [], "P_scale": str(core.model_value(m, S._pu.scale)), "s_scale": str(core.model_value(m, S._su.scale))}
            ok = isinstance(out, symnp.SymArray) and out.a.shape == (N,)
            cl = z3.And([L(out.a[i]) == L(groupa.ll_of(_internal_row(S, lib[i]))) for i in range(N)]) if ok else z3.BoolVal(False)
            sink.check(path, "partition.value_and_order", core.SB(cl), site=shape["src"], describe=desc, isolated=True)
            sink.check(path, "partition.no_files_left", core.SB(z3.BoolVal(not [p for p in files if p.startswith("/tmpmodel/")])), site=shape["src"], describe=desc)
            add_witness(res, path, desc, site=shape["src"], limit=1, isolated=True, prefer=[L(S._pu.scale) == 86400 * 365, L(S._su.scale) == 1])
        finally:
            core.Ctx.cur = None
    res["twin_ok"] = twin
    return ex


def _run_history(shape, res, sink):
    S = SymUnitSetup(with_api=True)
    N = shape["N"]

    def harness():
        S.reset()
        S.make_units()
        rng = env.SymRng(S.w)
        pool = env.Pool(S.w, size=1, order="reversed")
        joker = S.st.thejoker.TheJoker(S.JokerPrior(S), pool=pool, rng=rng)
        data = types.SimpleNamespace(t_ref=units.Time(core.real("t_ref")))
        lib1, _ = S.library(N, with_lnp=False, tag="libA")
        S.as_file(lib1, None, path="user_lib.hdf5")
        out1 = joker.marginal_ln_likelihood(data, "user_lib.hdf5", n_batches=2)
        u1 = (S._pu, S._su)
        # the user overwrites the same file name with another library in other units
        S._pu = units.sym_unit("libP2", units.day)
        S._su = units.sym_unit("libs2", units.km / units.s)
        lib2, _ = S.library(N, with_lnp=False, tag="libB")
        S.as_file(lib2, None, path="user_lib.hdf5")
        out2 = joker.marginal_ln_likelihood(data, "user_lib.hdf5", n_batches=1)
        # and evaluates in memory in between / afterwards
        out3 = joker.marginal_ln_likelihood(data, S.as_samples(lib2, None), in_memory=True)
        return lib1, lib2, u1, (S._pu, S._su), out1, out2, out3

    ex = core.Explorer(max_paths=200)
    twin = False
    for path in ex.paths(harness):
        core.Ctx.cur = path.ctx
        try:
            r, _, _ = path.check_isolated(core.SB(z3.BoolVal(False)))
            twin = twin or r == "sat"
            if path.raised is not None:
                sink.check(path, "history.no_exception", core.SB(z3.BoolVal(False)), site="history", describe=lambda m: {"raised": repr(path.raised)[:300]})
                continue
            lib1, lib2, u1, u2, out1, out2, out3 = path.result

            def row(lib, uu, i):
                return [lib[i][0] * uu[0].to(units.day), lib[i][1], lib[i][2], lib[i][3], lib[i][4] * uu[1].to(S.vunit)]

            def desc(m):
                return {"history": True, "scales": [str(core.model_value(m, x.scale)) for x in (u1[0], u1[1], u2[0], u2[1])]}
            for tag, out, lib, uu in (("first", out1, lib1, u1), ("after_overwrite", out2, lib2, u2), ("in_memory_after", out3, lib2, u2)):
                ok = isinstance(out, symnp.SymArray) and out.a.shape == (N,)
                cl = z3.And([L(out.a[i]) == L(groupa.ll_of(row(lib, uu, i))) for i in range(N)]) if ok else z3.BoolVal(False)
                sink.check(path, "history." + tag, core.SB(cl), site="history", describe=desc, isolated=True)
        finally:
            core.Ctx.cur = None
    res["twin_ok"] = twin
    res["witnesses"].append({"vc": "witness", "site": "history", "shape": shape, "model": {"history": True}, "witness": True})
    return ex


def _run_forms(shape, res, sink):
    """the same library and the same seed (= the same stream symbols) through every form the API accepts: what is requested
    from the generator and the accepted rows must coincide (in-memory only where the file-path options are neutral)"""
    S = groupa.Setup(with_api=True)
    N, k, rnd = shape["N"], shape["n_prior"], shape["randomize"]
    forms = [("filename", False, 1), ("object", False, 2), ("filename", False, N + 1)]
    if k is None and not rnd:
        forms.append(("object", True, None))

    def harness():
        S.reset()
        lib, lnp = S.library(N, with_lnp=True)
        data = types.SimpleNamespace(t_ref=units.Time(core.real("t_ref")))
        outs = []
        for src_kind, inmem, nb in forms:
            S.w.streams.clear()
            del S.w.log[:]
            rng = env.SymRng(S.w)                      # same key, position 0: the same seed
            pool = env.Pool(S.w, size=1 if nb != 2 else 3, order="reversed")
            joker = S.st.thejoker.TheJoker(S.JokerPrior(S), pool=pool, rng=rng)
            src = S.as_file(lib, lnp) if src_kind == "filename" else S.as_samples(lib, lnp)
            o = joker.rejection_sample(data, src, n_prior_samples=k, n_linear_samples=shape.get("n_lin", 1), n_batches=nb, randomize_prior_order=rnd, in_memory=inmem)
            req = [(d[0], d[1], d[2]) if d[0] in ("choice", "integers") else (d[0],) for d in S.w.streams.get(("root",), []) if d[0] in ("choice", "uniform", "integers")]
            outs.append((src_kind, inmem, nb, req, groupa.observe_samples(o)))
        return lib, outs
    ex = core.Explorer(max_paths=3000)
    twin = False
    for path in ex.paths(harness):
        core.Ctx.cur = path.ctx
        try:
            r, _, _ = path.check(core.SB(z3.BoolVal(False)))
            twin = twin or r == "sat"
            if path.raised is not None:
                sink.check(path, "forms.no_exception", core.SB(z3.BoolVal(False)), site="forms", describe=lambda m: {"raised": repr(path.raised)[:300]})
                continue
            lib, outs = path.result
            ref = outs[0]

            def desc(m):
                return {"forms": [[o[0], o[1], o[2]] for o in outs], "requests": [[list(map(str, q)) for q in o[3]] for o in outs]}
            for o in outs[1:]:
                tag = "%s%s,n_batches=%s" % (o[0], ",in_memory" if o[1] else "", o[2])
                sink.check(path, "forms.same_draw_requests", core.SB(z3.BoolVal(o[3] == ref[3])), site="forms|" + tag, describe=desc)
                a, b = ref[4], o[4]
                ok = not a.get("not_samples") and not b.get("not_samples") and a.get("n") == b.get("n")
                cl = z3.And([L(x) == L(y) for ra, rb in zip(a["rows"], b["rows"]) for x, y in zip(ra, rb)]) if ok and a["n"] else z3.BoolVal(bool(ok))
                sink.check(path, "forms.same_accepted_rows", core.SB(cl), site="forms|" + tag, describe=desc)
        finally:
            core.Ctx.cur = None
    res["twin_ok"] = twin
    res["witnesses"].append({"vc": "witness", "site": "forms", "shape": shape, "model": {"forms": True}, "witness": True})
    return ex


def run_shape(shape, tier):
    res = new_result(shape)
    sink = VCSink(res, PROPERTY)
    fam = shape["family"]
    ex = {"junk": _run_junk, "partition": _run_partition, "history": _run_history, "pickle": _run_pickle, "forms": _run_forms}[fam](shape, res, sink)
    fill_explorer(res, ex)
    return res


# ---------------------------------------------------------------------------------------------

from checks import kernel_conc as _kc


@_kc.replay_both
def replay(cand):
    """scenario replay on the real build (real kernel, real HDF5, SerialPool and MultiPool): every execution path
    must give the same numbers in input order; a file overwritten in other units is read in its new units"""
    import os
    import shutil
    import tempfile
    import numpy as np
    import astropy.units as u
    import schwimmbad
    import thejoker as tj
    shape = cand["shape"]
    fam = shape["family"]
    tmpd = tempfile.mkdtemp(prefix="verif_c05_")
    bad = []
    try:
        rnd = np.random.default_rng(9)
        t = 56000 + np.sort(rnd.uniform(0, 80, 7))
        data = tj.RVData(t, (12 * np.sin(2 * np.pi * t / 17.0) + rnd.normal(0, 1, 7)) * u.km / u.s, np.full(7, 1.0) * u.km / u.s)
        import pymc as pm
        import thejoker.units as xu
        with pm.Model():
            # non-zero prior means so that every scratch vector of the kernel (b = M mu, ...) is non-trivial
            v0 = xu.with_unit(pm.Normal("v0", 4.0, 40.0), u.km / u.s)
            prior = tj.JokerPrior.default(P_min=2 * u.day, P_max=100 * u.day, sigma_K0=30 * u.km / u.s, pars={"v0": v0})
        lib = prior.sample(size=23, rng=np.random.default_rng(4))
        joker = tj.TheJoker(prior, rng=np.random.default_rng(1))
        ref = np.asarray(joker.marginal_ln_likelihood(data, lib, in_memory=True))
        ind = np.array([float(np.asarray(joker.marginal_ln_likelihood(data, lib[i:i + 1], in_memory=True))[0]) for i in (0, 7, 22)])
        if not np.allclose(ind, ref[[0, 7, 22]], rtol=1e-12, atol=0):
            bad.append("a sample evaluated alone differs from the same sample inside a batch")
        # after posterior draws on the same sampler (call history)
        joker.rejection_sample(data, lib, in_memory=True)
        again = np.asarray(joker.marginal_ln_likelihood(data, lib, in_memory=True))
        if not np.array_equal(again, ref):
            bad.append("marginal_ln_likelihood changes after the same sampler drew posterior samples")
        fn = os.path.join(tmpd, "lib.hdf5")
        lib.write(fn, overwrite=True)
        for nb in (None, 1, 2, 5, 23, 25):
            for src in (fn, lib):
                got = np.asarray(joker.marginal_ln_likelihood(data, src, n_batches=nb))
                if got.shape != ref.shape or not np.allclose(got, ref, rtol=1e-11, atol=0):
                    bad.append("n_batches=%r via %s differs from the in-memory values" % (nb, "file" if src is fn else "object"))
        import thejoker.thejoker as _tjm
        if type(_tjm.CJokerHelper).__name__ != "function":      # real worker processes need the picklable compiled helper
            with schwimmbad.MultiPool(2) as pool:
                jm = tj.TheJoker(prior, rng=np.random.default_rng(1), pool=pool)
                got = np.asarray(jm.marginal_ln_likelihood(data, fn, n_batches=4))
                if not np.allclose(got, ref, rtol=1e-11, atol=0):
                    bad.append("MultiPool(2), n_batches=4 differs from the serial in-memory values")
        # equal seeds through the file-name and the object form, with a random subset of the library
        for kk, rr in ((9, True), (9, False), (None, True)):
            ja = tj.TheJoker(prior, rng=np.random.default_rng(31)).rejection_sample(data, fn, n_prior_samples=kk, randomize_prior_order=rr)
            jb = tj.TheJoker(prior, rng=np.random.default_rng(31)).rejection_sample(data, lib, n_prior_samples=kk, randomize_prior_order=rr)
            jc = tj.TheJoker(prior, rng=np.random.default_rng(31)).rejection_sample(data, fn, n_prior_samples=kk, randomize_prior_order=rr, n_batches=5)
            jd = tj.TheJoker(prior, rng=np.random.default_rng(31)).rejection_sample(data, fn, n_prior_samples=kk, randomize_prior_order=rr, n_batches=3, n_linear_samples=2)
            if len(jd) != 2 * len(ja) or not np.array_equal(jd["P"].value[::2], ja["P"].value):
                bad.append("equal seeds, n_linear_samples=2 with n_batches=3: accepted rows differ from the single-draw run")
            for tag, other in (("JokerSamples object", jb), ("file name, n_batches=5", jc)):
                if len(ja) != len(other) or not np.array_equal(ja["P"].value, other["P"].value):
                    bad.append("equal seeds, n_prior_samples=%r, randomize_prior_order=%r: accepted set via the file name differs from %s" % (kk, rr, tag))
        # two successive calls on one sampler: the second call must not depend on how the first one was batched
        wk0 = tj.RVData(t, data.rv, np.full(len(t), 25.0) * u.km / u.s)       # weak data: many acceptances, so several posterior batches
        wl0 = prior.sample(size=120, rng=np.random.default_rng(12))

        def two_calls(nb_):
            jj = tj.TheJoker(prior, rng=np.random.default_rng(17))
            jj.rejection_sample(wk0, wl0, n_batches=nb_)
            return jj.rejection_sample(wk0, wl0, n_batches=nb_)
        r1, r4 = two_calls(1), two_calls(4)
        if len(r1) != len(r4) or not np.array_equal(r1["P"].value, r4["P"].value):
            bad.append("second of two calls on one sampler: accepted set with n_batches=1 differs from n_batches=4 (equal seeds)")
        # a binding max_posterior_samples with several linear draws per sample: in memory vs cache file
        wk = tj.RVData(t, data.rv, np.full(len(t), 25.0) * u.km / u.s)
        wl = prior.sample(size=120, rng=np.random.default_rng(12))
        pm_ = tj.TheJoker(prior, rng=np.random.default_rng(5)).rejection_sample(wk, wl, n_linear_samples=3, max_posterior_samples=7, in_memory=True)
        pf_ = tj.TheJoker(prior, rng=np.random.default_rng(5)).rejection_sample(wk, wl, n_linear_samples=3, max_posterior_samples=7, in_memory=False)
        if len(pm_) != len(pf_) or not np.array_equal(pm_["P"].value, pf_["P"].value):
            bad.append("n_linear_samples=3, max_posterior_samples=7: in-memory returns %d rows (%d distinct samples), the cache path %d rows (%d distinct)" % (
                len(pm_), len(np.unique(pm_["P"].value)), len(pf_), len(np.unique(pf_["P"].value))))
        # several linear draws per accepted sample: one batch vs several batches (nonlinear rows must coincide)
        wide = prior.sample(size=120, rng=np.random.default_rng(12))
        weak = tj.RVData(t, data.rv, np.full(len(t), 25.0) * u.km / u.s)          # weak data: many acceptances, several per batch
        one = tj.TheJoker(prior, rng=np.random.default_rng(8)).rejection_sample(weak, wide, n_linear_samples=3, n_batches=1)
        if len(one) < 3 * 8:
            bad.append("scenario too weak: only %d rows accepted" % len(one))
        for nb_ in (2, 4, 7):
            many = tj.TheJoker(prior, rng=np.random.default_rng(8)).rejection_sample(weak, wide, n_linear_samples=3, n_batches=nb_)
            if len(one) != len(many) or not np.array_equal(one["P"].value, many["P"].value) or not np.array_equal(one["e"].value, many["e"].value):
                bad.append("n_linear_samples=3: n_batches=%d returns other nonlinear rows than n_batches=1 (%d vs %d rows)" % (nb_, len(many), len(one)))
        # helpers pickled to workers: every reference-epoch convention of the data (default, explicit, disabled)
        import pickle
        from astropy.time import Time
        rvq, errq = data.rv, data.rv_err
        for tag, tr in (("default", None), ("explicit", Time(55990.5, format="mjd", scale="tcb")), ("False", False)):
            dm = tj.RVData(t, rvq, errq, t_ref=tr)
            d2 = pickle.loads(pickle.dumps(dm))
            if not (np.array_equal(d2._t_bmjd, dm._t_bmjd) and d2._t_ref_bmjd == dm._t_ref_bmjd and (d2.t_ref is None) == (dm.t_ref is None)
                    and np.array_equal(d2.rv.value, dm.rv.value) and d2.rv.unit == dm.rv.unit and np.array_equal(d2.rv_err.value, dm.rv_err.value)):
                bad.append("RVData(t_ref=%s) does not survive pickling (reference epoch %r -> %r)" % (tag, dm._t_ref_bmjd, d2._t_ref_bmjd))
            hm = joker._make_joker_helper(dm)
            packed, _ = lib.pack(units=hm.internal_units, names=hm.packed_order)
            want = np.asarray(hm.batch_marginal_ln_likelihood(np.ascontiguousarray(packed)))
            # (the prior holds a pymc model, which plain pickle refuses: rebuild as __reduce__ prescribes, the data pickled)
            red = hm.__reduce__()
            hw = red[0](pickle.loads(pickle.dumps(red[1][0])), red[1][1], red[1][2])
            got = np.asarray(hw.batch_marginal_ln_likelihood(np.ascontiguousarray(packed)))
            if not np.allclose(got, want, rtol=1e-11, atol=0):
                bad.append("t_ref=%s: the helper a worker process unpickles gives other ln-likelihoods than the parent's (max diff %.3g)" % (tag, np.max(np.abs(got - want))))
        # index-array reads in a non-monotone order
        from thejoker.multiproc_helpers import marginal_ln_likelihood_helper
        idx = np.array([11, 3, 10, 0, 22, 5])
        helper = joker._make_joker_helper(data)
        got = np.asarray(marginal_ln_likelihood_helper(helper, fn, pool=schwimmbad.SerialPool(), n_batches=2, samples_idx=idx))
        if not np.allclose(got, ref[idx], rtol=1e-11, atol=0):
            bad.append("samples_idx=%s: values do not come back in input order" % idx.tolist())
        # history: same file name overwritten with a library in other units
        lib2 = prior.sample(size=23, rng=np.random.default_rng(8))
        ref2 = np.asarray(joker.marginal_ln_likelihood(data, lib2, in_memory=True))
        lib2y = lib2.copy()
        lib2y.tbl["P"] = lib2y.tbl["P"].to(u.year)
        lib2y.write(fn, overwrite=True)
        got = np.asarray(joker.marginal_ln_likelihood(data, fn, n_batches=3))
        if not np.allclose(got, ref2, rtol=1e-9, atol=0):
            bad.append("after the cache file was overwritten with a library whose P is in years, the file path returns values for stale units")
    except Exception as e:
        import traceback
        if not bad:
            return {"reproduced": False, "error": "replay scenario failed: %s" % traceback.format_exc()[-500:]}
    finally:
        shutil.rmtree(tmpd, ignore_errors=True)
    return {"reproduced": bool(bad), "detail": "; ".join(bad)[:900] or "all execution paths agree"}
