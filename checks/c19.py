"""C19 -- time-sampling diagnostics equal their definitions.

Real code executed symbolically (current tree): samples_analysis.MAP_sample, max_phase_gap,
phase_coverage, periods_spanned; data.RVData.phase (and RVData.__init__, JokerSamples.__getitem__ on
the way).  Symbolic: observation times, period, ln_prior / ln_likelihood columns, the sort
permutation.  `x % 1` is modelled exactly: x = k + r with k an integer and 0 <= r < 1.
Concrete per shape: number of epochs, number of bins, number of sample rows.
Order independence follows from equality with the (symmetric) definition for every input; time
reversal invariance of the arc statistic is posed as a two-run relational query on the real code.
"""
from fractions import Fraction

from symx import core, stack, symnp, units
from symx.core import z3
from symx.framework import new_result, VCSink, fill_explorer, add_witness

PROPERTY = "C19"
LEVEL = "model_checking"
FUNCTIONS = [("thejoker/samples_analysis.py", "MAP_sample"), ("thejoker/samples_analysis.py", "max_phase_gap"),
             ("thejoker/samples_analysis.py", "phase_coverage"), ("thejoker/samples_analysis.py", "periods_spanned"),
             ("thejoker/data.py", "RVData.phase"), ("thejoker/samples.py", "JokerSamples.__getitem__")]
ASSUMPTIONS = [
    "x % 1.0 on reals: x = k + r, k integer, 0 <= r < 1 (exact; float rounding of bin edges is outside the claim)",
    "np.histogram: count of values with edge_j <= x < edge_{j+1}, last bin closed; np.linspace edges exact rationals; np.sort/argsort any sorting permutation; np.argmax first maximal element",
    "period: symbolic P > 0 for periods_spanned; a concrete rational per shape (1, 5/2; thorough also 1/3, 7) for the mod-1 statistics, times symbolic; times finite; is_P_Kmodal (sklearn) and is_P_unimodal are outside the property",
    "bounds: <= 4 epochs, <= 5 bins, <= 3 sample rows (quick: <= 3 epochs, <= 4 bins)",
]


def bounds(tier):
    return {"n_epochs": [1, 3 if tier == "quick" else 5], "n_bins": [1, 4 if tier == "quick" else 5], "n_samples": [1, 3]}


def shapes(tier):
    out = []
    nmax = 3 if tier == "quick" else 5
    # the period is a concrete rational per shape for the mod-1 statistics (mixed integer/real LINEAR arithmetic is
    # decided in milliseconds; with a symbolic period the k*P products make the queries non-linear and z3 answers unknown).
    Ps = ["1", "5/2"] if tier == "quick" else ["1", "5/2", "1/3", "7"]
    for nt in range(1, nmax + 1):
        out.append({"fn": "periods_spanned", "nt": nt, "P": "sym"})
        for P in Ps:
            if nt <= 4:
                out.append({"fn": "max_phase_gap", "nt": nt, "P": P})
            if nt <= 2 or (tier == "thorough" and nt <= 3):
                # reference epoch given explicitly: no observation needs to sit at phase 0
                out.append({"fn": "max_phase_gap", "nt": nt, "P": P, "tref": "explicit"})
                out.append({"fn": "phase_coverage", "nt": nt, "n_bins": 2, "P": P, "tref": "explicit"})
            if nt == 2:
                # two-run relational query; for >= 3 epochs z3 answers unknown (floor of negated terms), so the
                # reversal clause is claimed for 2 epochs only -- for more epochs it follows from equality with the
                # definition (proved above) plus the symmetry of the definition, which is not re-proved here
                out.append({"fn": "reversal", "nt": nt, "P": P})
            for nb in ([1, 2, 4] if tier == "quick" else [1, 2, 3, 5]):
                if nt * nb <= (12 if tier == "quick" else 20):
                    out.append({"fn": "phase_coverage", "nt": nt, "n_bins": nb, "P": P})
    for nt in (1, 2, 3):
        for P in Ps[:2]:
            out.append({"fn": "phase", "nt": nt, "P": P})
    for ns in (1, 2, 3):
        out.append({"fn": "MAP_sample", "ns": ns})
    # a sample outside the prior support / with a failed likelihood: ln value -inf at a given row
    for ns, pos in ((2, 0), (3, 0), (3, 1)):
        out.append({"fn": "MAP_sample", "ns": ns, "neginf": pos})
    out.append({"fn": "MAP_sample", "ns": 2, "extra_cols": ["ln_posterior"]})
    out.append({"fn": "MAP_sample", "ns": 3, "extra_cols": ["ln_posterior"]})
    return out


def _setup():
    st = stack.Stack(load=("prior_helpers", "likelihood_helpers", "samples"))
    st.load("data_helpers")
    st.load("data")
    st.load("samples_analysis")
    return st


def _data(st, nt, tag="t", Punit=None, t_ref=None):
    t = [core.real("%s_%d" % (tag, i)) for i in range(nt)]
    rv = [core.real("rv%s_%d" % (tag, i)) for i in range(nt)]
    kms = units.km / units.s
    d = st.data.RVData(symnp.SymArray(symnp._obj(t), symnp._F8), units.Quantity(symnp.SymArray(symnp._obj(rv), symnp._F8), kms),
                       units.Quantity(symnp.SymArray(symnp._obj([1.0] * nt), symnp._F8), kms), t_ref=t_ref)
    return t, d


def _sample(st, P, unit):
    s = st.samples.JokerSamples()
    s["P"] = units.Quantity(symnp.SymArray(symnp._obj([P]), symnp._F8), unit)
    return s


def _scalar(x):
    if isinstance(x, units.Quantity):
        if not x.unit.is_equivalent(units.one):
            return None
        x = x.to_value(units.one)
    if isinstance(x, symnp.SymArray):
        if x.a.size != 1:
            return None
        x = x.a.flat[0]
    return x


def _phases(t, tref, Pd):
    """definition: phi_i = x_i - floor(x_i), x_i = (t_i - t_ref) / P"""
    out = []
    for ti in t:
        x = (ti - tref) / Pd
        out.append(core.SN(z3.simplify(core.lift(x) - z3.ToReal(z3.ToInt(core.lift(x))))))
    return out


def run_shape(shape, tier):
    res = new_result(shape)
    sink = VCSink(res, PROPERTY)
    st = _setup()
    sa = st.samples_analysis
    fn = shape["fn"]
    L = core.lift

    def harness():
        if fn == "MAP_sample":
            ns = shape["ns"]
            s = st.samples.JokerSamples()
            cols = {}
            extra = [(c_, units.one) for c_ in shape.get("extra_cols", [])]      # further stored columns must not take part in the choice
            for name, un in [("P", units.day), ("e", units.one), ("ln_prior", units.one), ("ln_likelihood", units.one)] + extra:
                cells = [core.real("%s_%d" % (name, i)) for i in range(ns)]
                if name == "ln_likelihood" and shape.get("neginf") is not None:
                    cells[shape["neginf"]] = symnp.NonFinite("-inf")
                cols[name] = cells
                if name in shape.get("extra_cols", []):
                    s.tbl[name] = units.Quantity(symnp.SymArray(symnp._obj(cells), symnp._F8), un)      # e.g. stored by from_inference_data
                else:
                    s[name] = units.Quantity(symnp.SymArray(symnp._obj(cells), symnp._F8), un)
            row, idx = sa.MAP_sample(s, return_index=True)
            row2 = sa.MAP_sample(s)
            return cols, row, idx, row2
        nt = shape["nt"]
        if shape["P"] == "sym":
            P = core.real("P")
            core.assume(P > 0)
        else:
            P = core.SN(core.lift(Fraction(shape["P"])))
        Punit = units.day
        if fn == "phase":
            tr = units.Time(core.real("tref_explicit"))
            t, d = _data(st, nt, t_ref=tr)
            other = units.Time(core.real("tref_other"))
            Pq = units.Quantity(P, Punit)
            return t, d, P, (d.phase(Pq), d.phase(Pq, t_ref=other), tr, other)
        t, d = _data(st, nt, t_ref=units.Time(core.real("tref_explicit")) if shape.get("tref") == "explicit" else None)
        s = _sample(st, P, Punit)
        if fn == "max_phase_gap":
            return t, d, P, sa.max_phase_gap(s, d)
        if fn == "phase_coverage":
            return t, d, P, sa.phase_coverage(s, d, n_bins=shape["n_bins"])
        if fn == "periods_spanned":
            return t, d, P, sa.periods_spanned(s, d)
        if fn == "reversal":
            c = core.real("c_mirror")
            t2 = [c - x for x in t]
            kms = units.km / units.s
            d2 = st.data.RVData(symnp.SymArray(symnp._obj(t2), symnp._F8), units.Quantity(symnp.SymArray(symnp._obj([core.real("rvm_%d" % i) for i in range(nt)]), symnp._F8), kms),
                                units.Quantity(symnp.SymArray(symnp._obj([1.0] * nt), symnp._F8), kms))
            return t, d, P, (sa.max_phase_gap(s, d), sa.max_phase_gap(s, d2), c)
        raise ValueError(fn)

    ex = core.Explorer(max_paths=3000, solver_timeout_ms=60000)
    twin = False
    for path in ex.paths(harness):
        core.Ctx.cur = path.ctx
        try:
            r, _, _ = path.check(core.SB(z3.BoolVal(False)))
            twin = twin or r == "sat"
            if path.raised is not None:
                sink.check(path, fn + ".no_exception", core.SB(z3.BoolVal(False)), site=fn, describe=lambda m: {"raised": repr(path.raised)[:300]})
                continue
            if fn == "MAP_sample":
                _spec_map(sink, path, shape, path.result, res)
                continue
            t, d, P, val = path.result

            def desc(m, t=t, P=P):
                out_ = {"t": [str(core.model_value(m, x)) for x in t], "P": str(core.model_value(m, P))}
                if shape.get("tref") == "explicit":
                    out_["t_ref"] = str(core.model_value(m, core.real("tref_explicit")))
                return out_
            tref = d._t_ref_bmjd
            if fn == "periods_spanned":
                v = _scalar(val)
                tmax, tmin = core.sym_max(t), core.sym_min(t)
                cl = L(v) * L(P) == L(tmax - tmin) if v is not None else z3.BoolVal(False)
                sink.check(path, "periods_spanned", core.SB(cl), site=fn, describe=desc)
            elif fn == "max_phase_gap":
                v = _scalar(val)
                phi = _phases(t, tref, P)
                n = len(phi)
                # definition: largest empty arc between circularly consecutive observations:
                # arc starting at phi_i = distance to the nearest other phase going forward (1 if alone / all equal)
                arcs = []
                for i in range(n):
                    cand = []
                    for j in range(n):
                        if i == j:
                            continue
                        dlt = phi[j] - phi[i]
                        cand.append(core.ite(dlt > 0, dlt, dlt + 1))   # forward distance in (0,1]; equal phases: full turn
                    arcs.append(core.sym_min(cand) if cand else core.SN(z3.RealVal(1)))
                # coincident phases: the arc from a duplicate to its twin is 0 going forward, not 1
                arcs2 = []
                for i in range(n):
                    cand = []
                    for j in range(n):
                        if i == j:
                            continue
                        dlt = phi[j] - phi[i]
                        later_twin = z3.And(L(dlt) == 0, z3.BoolVal(j > i))
                        cand.append(core.ite(core.SB(z3.Or(L(dlt) > 0, later_twin)), dlt, dlt + 1))
                    arcs2.append(core.sym_min(cand) if cand else core.SN(z3.RealVal(1)))
                spec = core.sym_max(arcs2)
                cl = L(v) == L(spec) if v is not None else z3.BoolVal(False)
                eps = z3.RealVal("1/1000")
                margins = [L(v) - L(spec) >= eps if False else z3.Or(L(v) - L(spec) >= eps, L(spec) - L(v) >= eps)] if v is not None else []
                sink.check(path, "max_phase_gap", core.SB(cl), site=fn, describe=desc, timeout_ms=120000, prefer=margins)
            elif fn == "phase_coverage":
                v = _scalar(val)
                nb = shape["n_bins"]
                phi = _phases(t, tref, P)
                occ = []
                for j in range(nb):
                    lo, hi = Fraction(j, nb), Fraction(j + 1, nb)
                    occ.append(z3.Or([z3.And(L(p) >= L(lo), L(p) < L(hi)) for p in phi]))
                cnt = z3.Sum([z3.If(o, 1, 0) for o in occ])
                cl = L(v) * nb == z3.ToReal(cnt) if v is not None else z3.BoolVal(False)
                eps = z3.RealVal("1/1000")
                margins = [z3.Or(L(p) - L(Fraction(j, nb)) >= eps, L(Fraction(j, nb)) - L(p) >= eps) for p in phi for j in range(nb + 1)]
                sink.check(path, "phase_coverage", core.SB(cl), site=fn, describe=desc, timeout_ms=120000, prefer=margins)
            elif fn == "phase":
                ph1, ph2, tr, other = val
                for tag, ph, ref in (("phase.default_ref", ph1, tr), ("phase.given_ref", ph2, other)):
                    cells = ph.value.a if isinstance(ph, units.Quantity) and isinstance(ph.value, symnp.SymArray) else None
                    okq = cells is not None and len(cells) == len(t) and ph.unit.is_equivalent(units.one)
                    if okq:
                        f = ph.unit.to(units.one)
                        ts = d._t_bmjd.a
                        want = _phases(list(ts), ref.tcb._v, P)
                        cl = z3.And([L(cells[i] * f) == L(want[i]) for i in range(len(ts))])
                    else:
                        cl = z3.BoolVal(False)
                    sink.check(path, tag, core.SB(cl), site="RVData.phase", describe=lambda m, ref=ref: dict(desc(m), t_ref=str(core.model_value(m, ref._v))))
            elif fn == "reversal":
                a, b, c = val
                a, b = _scalar(a), _scalar(b)
                cl = L(a) == L(b) if a is not None and b is not None else z3.BoolVal(False)
                sink.check(path, "time_reversal", core.SB(cl), site="max_phase_gap.reversal", describe=desc, timeout_ms=120000)
            add_witness(res, path, desc, site=fn, limit=1)
        finally:
            core.Ctx.cur = None
    res["twin_ok"] = twin
    fill_explorer(res, ex)
    return res


def _spec_map(sink, path, shape, result, res):
    L = core.lift
    cols, row, idx, row2 = result
    ns = shape["ns"]
    post = [cols["ln_prior"][i] + cols["ln_likelihood"][i] for i in range(ns)]
    NF = symnp.NonFinite

    def geq(a, b):
        """a >= b on extended reals (only -inf occurs)"""
        if isinstance(b, NF):
            return z3.BoolVal(True)
        if isinstance(a, NF):
            return z3.BoolVal(False)
        return L(a) >= L(b)

    def same(x, y):
        if isinstance(x, symnp.SymChoice):
            return z3.Or([z3.And(c, same(v, y)) for c, v in x.pairs])
        if isinstance(x, NF) or isinstance(y, NF):
            return z3.BoolVal(isinstance(x, NF) and isinstance(y, NF) and x.kind == y.kind)
        return L(x) == L(y)

    def desc(m):
        return {k: ["-inf" if isinstance(x, NF) else str(core.model_value(m, x)) for x in v] for k, v in cols.items()}
    for tag, r in (("MAP_sample", row), ("MAP_sample.noindex", row2)):
        ok = hasattr(r, "tbl") and len(r) == 1 and set(r.tbl.colnames) == set(cols)
        if not ok:
            sink.check(path, tag, core.SB(z3.BoolVal(False)), site="MAP_sample", describe=desc)
            continue
        member = []
        for i in range(ns):
            sm = [same(r.tbl[c].value.a[0], cols[c][i]) for c in cols]
            best = [geq(post[i], post[j]) for j in range(ns)]
            member.append(z3.And(sm + best))
        sink.check(path, tag, core.SB(z3.Or(member)), site="MAP_sample", describe=desc)
    # the returned index designates that row
    ie = L(idx)
    cl = z3.And([z3.Implies(ie == i, z3.And([geq(post[i], post[j]) for j in range(ns)] + [L(row.tbl["P"].value.a[0]) == L(cols["P"][i])])) for i in range(ns)] + [ie >= 0, ie < ns])
    sink.check(path, "MAP_sample.index", core.SB(cl), site="MAP_sample", describe=desc)
    add_witness(res, path, desc, site="MAP_sample", limit=1)


# ---------------------------------------------------------------------------------------------

def replay(cand):
    import numpy as np
    import astropy.units as u
    from thejoker.data import RVData
    from thejoker.samples import JokerSamples
    from thejoker import samples_analysis as sa
    m = cand.get("model") or {}
    shape = cand["shape"]
    f = lambda x: float(Fraction(x))
    fn = shape["fn"]
    if fn == "MAP_sample":
        if "ln_prior" not in m:
            return {"reproduced": False, "detail": "no concrete input"}
        s = JokerSamples()
        s["P"] = np.array([abs(f(x)) + 1.0 for x in m["P"]]) * u.day
        s["e"] = np.array([f(x) for x in m["e"]])
        s["ln_prior"] = np.array([f(x) for x in m["ln_prior"]])
        s["ln_likelihood"] = np.array([float("-inf") if x == "-inf" else f(x) for x in m["ln_likelihood"]])
        for c_ in shape.get("extra_cols", []):
            s[c_] = np.array([f(x) for x in m[c_]]) if c_ in m else -np.arange(len(s), dtype=float)[::-1]
        post = s["ln_prior"].value + s["ln_likelihood"].value
        try:
            row, i = sa.MAP_sample(s, return_index=True)
            row2 = sa.MAP_sample(s)
        except Exception as e:
            return {"reproduced": True, "detail": "MAP_sample raised %r" % (e,)}
        bad = []
        for r in (row, row2):
            lp = float(np.atleast_1d(r["ln_prior"].value)[0]) + float(np.atleast_1d(r["ln_likelihood"].value)[0])
            if lp < post.max() - 1e-12:
                bad.append("returned row has ln_post %r < max %r" % (lp, post.max()))
            hit = [k for k in range(len(post)) if np.isclose(s["P"].value[k], np.atleast_1d(r["P"].value)[0]) and np.isclose(s["ln_prior"].value[k], np.atleast_1d(r["ln_prior"].value)[0])]
            if not hit:
                bad.append("returned row is not a member row")
        if post[int(i)] < post.max() - 1e-12:
            bad.append("returned index %r is not the arg max" % (i,))
        return {"reproduced": bool(bad), "detail": "; ".join(bad) or "ok"}
    if "t" not in m:
        return {"reproduced": False, "detail": "no concrete input"}
    t = np.array([f(x) for x in m["t"]])
    P = f(m["P"])
    if not P > 0:
        return {"reproduced": False, "detail": "P<=0 in model"}
    nt = len(t)
    tref_kw = {}
    t0 = t.min()
    if shape.get("tref") == "explicit" and "t_ref" in m and fn != "phase":
        from astropy.time import Time as _Time
        t0 = f(m["t_ref"])
        tref_kw = {"t_ref": _Time(t0 + 56000.0, format="mjd", scale="tcb")}
    data = RVData(t + 56000.0, np.arange(nt) * 1.0 * u.km / u.s, np.ones(nt) * u.km / u.s, **tref_kw)
    s = JokerSamples()
    s["P"] = np.array([P]) * u.day
    tt = np.sort(t)
    phi = ((tt - t0) / P) % 1.0
    bad = []
    tol = 1e-7
    # keep away from float ties: if two phases or a phase and a bin edge are closer than tol the concrete oracle is ambiguous
    try:
        if fn in ("max_phase_gap", "reversal"):
            sp = np.sort(phi)
            arcs = list(np.diff(sp)) + [1 - sp[-1] + sp[0]]
            want = max(arcs)
            got = float(np.squeeze(sa.max_phase_gap(s, data)))
            if abs(got - want) > tol:
                bad.append("max_phase_gap=%r, definition (incl. wrap-around arc) gives %r for phases %s" % (got, want, sp.tolist()))
            if fn == "reversal":
                data2 = RVData((t.max() + t.min() - t) + 56000.0, np.arange(nt) * 1.0 * u.km / u.s, np.ones(nt) * u.km / u.s)
                got2 = float(np.squeeze(sa.max_phase_gap(s, data2)))
                if abs(got2 - got) > tol:
                    bad.append("time reversal changes max_phase_gap: %r vs %r" % (got, got2))
        elif fn == "phase_coverage":
            nb = shape["n_bins"]
            edges = np.arange(nb + 1) / nb
            inexact = phi[tt != t0]     # only an epoch equal to the reference epoch has phase exactly 0 (t - t = 0); a whole number of periods later is a float tie
            if len(inexact) and np.min(np.abs(inexact[:, None] - edges[None, :])) < 1e-9:
                return {"reproduced": False, "detail": "model sits on a bin edge (float-ambiguous)"}
            want = len({int(np.floor(p * nb)) for p in phi}) / nb
            got = float(np.squeeze(sa.phase_coverage(s, data, n_bins=nb)))
            if abs(got - want) > tol:
                bad.append("phase_coverage=%r, definition gives %r for phases %s, %d bins" % (got, want, phi.tolist(), nb))
        elif fn == "phase":
            from astropy.time import Time
            tr = f(m.get("t_ref", "0")) + 56000.0
            d3 = RVData(t + 56000.0, np.arange(nt) * 1.0 * u.km / u.s, np.ones(nt) * u.km / u.s, t_ref=Time(tr, format="mjd", scale="tcb"))
            got = np.asarray(d3.phase(P * u.day))
            want = ((np.sort(t) + 56000.0 - tr) / P) % 1.0
            dd = np.abs(got - want)
            dd = np.minimum(dd, 1 - dd)
            if np.max(dd) > 1e-6:
                bad.append("RVData.phase gives %s, definition (relative to t_ref) %s" % (got.tolist(), want.tolist()))
            got2 = np.asarray(d3.phase(P * u.day, t_ref=Time(tr + 0.3 * P, format="mjd", scale="tcb")))
            want2 = ((np.sort(t) + 56000.0 - tr - 0.3 * P) / P) % 1.0
            dd = np.abs(got2 - want2)
            dd = np.minimum(dd, 1 - dd)
            if np.max(dd) > 1e-6:
                bad.append("RVData.phase(t_ref=other) gives %s, definition %s" % (got2.tolist(), want2.tolist()))
        elif fn == "periods_spanned":
            want = (t.max() - t.min()) / P
            got = float(np.squeeze(sa.periods_spanned(s, data)))
            if abs(got - want) > 1e-6 * max(1.0, abs(want)):
                bad.append("periods_spanned=%r, definition gives %r" % (got, want))
    except Exception as e:
        return {"reproduced": True, "detail": "%s raised %s: %s" % (fn, type(e).__name__, str(e)[:200])}
    return {"reproduced": bool(bad), "detail": "; ".join(bad) or "real build agrees with the definition"}
