"""C14 -- iterative rejection sampling respects request, budget and acceptance rule.

Real loops executed symbolically: likelihood_helpers.iterative_rejection_inmem,
multiproc_helpers.iterative_rejection_helper, TheJoker.iterative_rejection_sample (current tree).
Symbolic: library cells, LL (uninterpreted), every uniform of every iteration, the shuffle permutation.
Concrete per shape: N, n_requested, init_batch_size / growth_factor, max_prior_samples, n_linear_samples,
entry point, and (in-memory) the position of one non-finite likelihood value.
The loop bound maxiter=128 is derived-unreachable in these shapes (every non-final iteration consumes
at least one unevaluated row or breaks => at most N+1 iterations); the harness asserts that the
"Hit maximum number of iterations" branch is never taken (unwinding assertion).
"""
import itertools
import math
import os
import types

from symx import core, env, symnp, units
from symx.core import z3
from symx.framework import new_result, VCSink, fill_explorer, add_witness
from checks import groupa, c02

PROPERTY = "C14"
LEVEL = "model_checking"
FUNCTIONS = [
    ("thejoker/likelihood_helpers.py", "iterative_rejection_inmem"),
    ("thejoker/multiproc_helpers.py", "iterative_rejection_helper"),
    ("thejoker/thejoker.py", "TheJoker.iterative_rejection_sample"),
    ("thejoker/multiproc_helpers.py", "marginal_ln_likelihood_helper"),
    ("thejoker/multiproc_helpers.py", "make_full_samples"),
    ("thejoker/multiproc_helpers.py", "run_worker"),
    ("thejoker/utils.py", "batch_tasks"),
    ("thejoker/utils.py", "read_batch_idx"),
    ("thejoker/utils.py", "tempfile_decorator"),
]
ASSUMPTIONS = c02.ASSUMPTIONS[:5] + [
    "acceptance of the final iteration is asserted against the uniforms that iteration drew (the last len(evaluated) uniforms of the sampler's stream)",
    "one non-finite likelihood value may be injected (in-memory entry points) as a failure; the call must then raise",
    "bounds: N <= 4 (one three-iteration shape with N = 6) (quick) / 5 (thorough), n_requested <= 2 / 3; larger libraries are outside the claim",
]


def bounds(tier):
    return {"N": [1, 4 if tier == "quick" else 6], "n_requested": [1, 2 if tier == "quick" else 3], "init_batch_size": "1, 2 or None with growth_factor 1..2",
            "max_prior_samples": "None or N-1", "n_linear_samples": [1, 2], "entries": ["inmem", "file", "api(in_memory True/False)"]}


def shapes(tier, focus="C14"):
    out = []
    Ns = [2, 3, 4] if tier == "quick" else [2, 3, 4, 5, 6]
    for N in Ns:
        for req in ([1, 2] if tier == "quick" else [1, 2, 3]):
            if req > N:
                continue
            for init in (1, 2):
                if init > N:
                    continue
                if N == 5 and (req, init) not in ((2, 2), (3, 2), (2, 1)):
                    continue
                if N == 6 and (req, init) not in ((3, 2),):
                    continue
                out.append({"mode": "inmem", "N": N, "req": req, "init": init, "growth": 128, "n_lin": 1 + (N + req) % 2, "nonfinite": None})
                if N <= 4:
                    out.append({"mode": "file", "N": N, "req": req, "init": init, "growth": 128, "n_lin": 1, "maxprior": None,
                                "randomize": (N + req + init) % 2 == 0 and N <= 3, "src": "object" if init == 1 else "filename", "n_batches": None if req == 1 else 2})
    # library too small for the request -> must raise
    out.append({"mode": "inmem", "N": 2, "req": 2, "init": None, "growth": 2, "n_lin": 1, "nonfinite": None})
    out.append({"mode": "file", "N": 3, "req": 2, "init": None, "growth": 2, "n_lin": 1, "maxprior": None, "randomize": False, "src": "filename", "n_batches": None})
    out.append({"mode": "file", "N": 3, "req": 1, "init": None, "growth": 2, "n_lin": 1, "maxprior": None, "randomize": False, "src": "filename", "n_batches": None})
    # three iterations (1 row, 4 rows, the rest) on the file path, in file order and shuffled
    out.append({"mode": "file", "N": 6, "req": 3, "init": 1, "growth": 128, "n_lin": 1, "maxprior": None, "randomize": False, "src": "filename", "n_batches": None})
    if tier == "thorough":
        out.append({"mode": "file", "N": 7, "req": 3, "init": 1, "growth": 128, "n_lin": 1, "maxprior": None, "randomize": False, "src": "object", "n_batches": 2})
    # a first batch of three or more shuffled rows (index arrays whose sorting permutation is not its own inverse)
    for N, init, req in ((3, 3, 1), (4, 3, 2), (4, 4, 1)):
        if tier == "quick" and N == 4 and init == 4:
            continue
        out.append({"mode": "file", "N": N, "req": req, "init": init, "growth": 128, "n_lin": 1, "maxprior": None, "randomize": True, "src": "filename", "n_batches": None})
    # call history: the same file name / JokerSamples object held another library when the sampler ran before
    for N, srck, init in ((3, "filename", 1), (3, "object", 2)):
        out.append({"mode": "file", "N": N, "req": 2, "init": init, "growth": 128, "n_lin": 1, "maxprior": None, "randomize": init == 1, "src": srck, "n_batches": None,
                    "history": True})
    # budget
    for N in ([3, 4] if tier == "quick" else [3, 4, 5]):
        out.append({"mode": "file", "N": N, "req": 2, "init": 1, "growth": 128, "n_lin": 1, "maxprior": N - 1, "randomize": N == 3, "src": "filename", "n_batches": None})
        for inmem in (True, False):
            out.append({"mode": "api", "N": N, "req": 2, "init": 1, "growth": 128, "n_lin": 1, "maxprior": N - 1, "randomize": False,
                        "src": "object", "in_memory": inmem, "n_batches": None})
    if focus == "C14":
        # a budget LARGER than the library does not enlarge the library: too-small libraries must still raise
        for inmem, srck in ((True, "object"), (False, "object"), (True, "packed"), (False, "filename")):
            out.append({"mode": "api", "N": 2, "req": 1, "init": 3, "growth": 128, "n_lin": 1, "maxprior": 5, "randomize": False, "src": srck, "in_memory": inmem, "n_batches": None})
            out.append({"mode": "api", "N": 3, "req": 2, "init": 1, "growth": 128, "n_lin": 1, "maxprior": 5, "randomize": False, "src": srck, "in_memory": inmem, "n_batches": None})
        # the in-memory path also accepts an already packed array: same budget, same too-small rule
        for N, mp_, init in ((3, 2, 1), (4, 2, 1), (3, 1, 2), (4, 3, 2)):
            out.append({"mode": "api", "N": N, "req": 1 if mp_ == 1 else 2, "init": init, "growth": 128, "n_lin": 1, "maxprior": mp_, "randomize": False,
                        "src": "packed", "in_memory": True, "n_batches": None})
        # a failure (non-finite likelihood) must surface as an exception
        for N, pos in ((2, 0), (3, 1), (3, 2)):
            out.append({"mode": "inmem", "N": N, "req": 1, "init": 1, "growth": 128, "n_lin": 1, "nonfinite": pos})
        out.append({"mode": "api", "N": 2, "req": 1, "init": 1, "growth": 128, "n_lin": 1, "maxprior": None, "randomize": False, "src": "object",
                    "in_memory": True, "n_batches": None, "nonfinite": 0})
    return out


class NFHelper(groupa.HelperStub):
    """kernel stub that returns one non-finite likelihood (NaN) for the library row `nf_row`"""
    nf_cell = None

    def batch_marginal_ln_likelihood(self, chunk):
        out = groupa.HelperStub.batch_marginal_ln_likelihood(self, chunk)
        if self.nf_cell is not None:
            for i in range(chunk.shape[0]):
                if chunk.a[i, 0] is self.nf_cell:
                    out.a[i] = symnp.NonFinite("nan")
        return out


def run_harness(S, shape, logprobs=False):
    S.reset()
    w = S.w
    N, nlin, req = shape["N"], shape["n_lin"], shape["req"]
    lib, lnp = S.library(N, with_lnp=True)
    rng = env.SymRng(w)
    mode = shape["mode"]
    info = {"lib": lib, "lnp": lnp, "N": N, "n_lin": nlin, "shape": shape, "kmax": None}

    def mk_helper(*a):
        h = NFHelper(setup=S)
        if shape.get("nonfinite") is not None:
            h.nf_cell = lib[shape["nonfinite"]][0]
        S.helpers.append(h)
        return h
    budget = N
    if mode == "inmem":
        h = mk_helper()
        lp = symnp.SymArray(symnp._obj(list(lnp)), symnp._F8) if logprobs else None
        out = S.lh.iterative_rejection_inmem(h, S.as_packed(lib), rng, n_requested_samples=req, ln_prior=lp,
                                             init_batch_size=shape["init"], growth_factor=shape["growth"], n_linear_samples=nlin)
        info["randomized"] = False
    elif mode == "file":
        h = mk_helper()
        pool = env.Pool(w, size=1, order="reversed")

        def call(src_, rng_):
            return S.mp.iterative_rejection_helper(h, src_, pool=pool, rng=rng_, n_requested_samples=req, init_batch_size=shape["init"],
                                                   growth_factor=shape["growth"], max_prior_samples=shape["maxprior"], n_linear_samples=nlin,
                                                   return_logprobs=logprobs, n_batches=shape["n_batches"], randomize_prior_order=shape["randomize"])
        if shape.get("history"):
            # an earlier call on another library of the same size under the same file name / in the same object
            libA, lnpA = S.library(N, with_lnp=True, tag="pre")
            srcA = S.as_file(libA, lnpA) if shape["src"] == "filename" else S.as_samples(libA, lnpA)
            try:
                call(srcA, env.SymRng(w))
            except (ValueError, RuntimeError):
                pass
            w.streams.clear()
            del w.log[:]
            for h_ in S.helpers:
                del h_.ll_calls[:]
                del h_.post_calls[:]
            if shape["src"] == "filename":
                src = S.as_file(lib, lnp)
            else:
                src = srcA
                lu = S.lib_units()
                for ci, c in enumerate(groupa.NL):
                    src[c] = units.Quantity(symnp.SymArray(symnp._obj([r[ci] for r in lib]), symnp._F8), lu[c])
                src["ln_prior"] = units.Quantity(symnp.SymArray(symnp._obj(list(lnp)), symnp._F8), units.one)
            rng = env.SymRng(w)
        else:
            src = S.as_file(lib, lnp) if shape["src"] == "filename" else S.as_samples(lib, lnp)
        out = call(src, rng)
        info["randomized"] = shape["randomize"]
        if shape["maxprior"] is not None:
            budget = min(N, shape["maxprior"])
    else:
        S.st.shims["thejoker.src.fast_likelihood"].CJokerHelper = lambda d, p, t: mk_helper()
        S.st.thejoker.CJokerHelper = lambda d, p, t: mk_helper()
        TJ = S.st.thejoker.TheJoker
        pool = env.Pool(w, size=1, order="reversed")
        joker = TJ(S.JokerPrior(S), pool=pool, rng=rng)
        data = types.SimpleNamespace(t_ref=units.Time(core.real("t_ref")))
        src = S.as_packed(lib) if shape["src"] == "packed" else (S.as_file(lib, lnp) if shape["src"] == "filename" else S.as_samples(lib, lnp))
        out = joker.iterative_rejection_sample(data, src, n_requested_samples=req, max_prior_samples=shape["maxprior"], n_linear_samples=nlin,
                                               return_logprobs=logprobs, n_batches=shape["n_batches"], randomize_prior_order=shape["randomize"],
                                               init_batch_size=shape["init"], growth_factor=shape["growth"], in_memory=shape["in_memory"])
        info["randomized"] = shape["randomize"] and not shape["in_memory"]
        if shape["maxprior"] is not None:
            budget = min(N, shape["maxprior"])
    info["budget"] = budget
    info["out"] = out
    info["obs"] = groupa.observe_samples(out)
    info["evaluated"] = [r for h in S.helpers for call in h.ll_calls for r in call]
    info["world_log"] = list(w.log)
    return info


def _expect_raise(shape):
    """shapes where the property demands an exception"""
    N, req = shape["N"], shape["req"]
    first = shape["init"] if shape["init"] is not None else shape["growth"] * req
    budget = N if shape.get("maxprior") is None else min(N, shape["maxprior"])
    if shape["mode"] == "api" and shape.get("in_memory"):
        pass
    if first > budget:
        return "too_small"
    if shape.get("nonfinite") is not None:
        return "nonfinite"
    return None


def _nf_evaluated(S, shape):
    """was the library row carrying the injected non-finite likelihood evaluated on this path?"""
    P_nf = z3.Real("lib_%d_P" % shape["nonfinite"])
    for h in S.helpers:
        for call in h.ll_calls:
            for r in call:
                if core.is_sym(r[0]) and z3.eq(r[0].e, P_nf):
                    return True
    return False


def run_shape(shape, tier, focus="C14"):
    res = new_result(shape)
    sink = VCSink(res, focus)
    S = groupa.Setup(with_api=(shape["mode"] == "api"))
    logprobs = focus == "C06" and shape["n_lin"] == 1

    def harness():
        return run_harness(S, shape, logprobs=logprobs)

    ex = core.Explorer(max_paths=20000, max_seconds=2400)
    twin = False
    for path in ex.paths(harness):
        core.Ctx.cur = path.ctx
        try:
            r, _, _ = path.check(core.SB(z3.BoolVal(False)))
            twin = twin or r == "sat"
            exp = _expect_raise(shape)
            if exp == "nonfinite" and not _nf_evaluated(S, shape):
                exp = None
            if path.raised is not None:
                e = path.raised
                if "maximum number of iterations" in str(e):
                    sink.check(path, "unwinding", core.SB(z3.BoolVal(False)), site=shape["mode"], describe=lambda m: {"raised": repr(e)})
                    continue
                ok = isinstance(e, ValueError) if exp == "too_small" else isinstance(e, RuntimeError)
                # RuntimeError("Failed to find any good samples!") cannot happen for finite ll (the max is always accepted)
                if exp is None:
                    ok = False
                if focus == "C14":
                    sink.check(path, "raises_only_when_due", core.SB(z3.BoolVal(ok)), site=shape["mode"],
                               describe=_desc_factory(S, path, shape, None, raised=e))
                continue
            info = path.result
            if focus == "C14":
                is_samples = not info["obs"].get("not_samples")
                sink.check(path, "returns_samples_or_raises", core.SB(z3.BoolVal(is_samples and exp is None)), site=shape["mode"] + (".nonfinite" if exp == "nonfinite" else ".too_small" if exp else ""),
                           describe=_desc_factory(S, path, shape, info))
                if not is_samples or exp is not None:
                    continue
            elif info["obs"].get("not_samples"):
                continue
            _spec(sink, path, S, shape, info, focus, logprobs)
            if ex.n_paths % 3 == 1:
                add_witness(res, path, _desc_factory(S, path, shape, info), site=shape["mode"])
        finally:
            core.Ctx.cur = None
    res["twin_ok"] = twin
    fill_explorer(res, ex)
    return res


def _desc_factory(S, path, shape, info, raised=None, extra=None):
    w = S.w
    vs_all = groupa.stream_vs(w)
    ch = groupa.stream_choices(w)

    def describe(m):
        mv = lambda x: core.model_value(m, x)
        lib = [[core.real("lib_%d_%s" % (i, c)) for c in groupa.NL] for i in range(shape["N"])]
        d = {"lib": [[str(mv(c)) for c in r] for r in lib],
             "lnp": [str(mv(core.real("lnp_%d" % i))) for i in range(shape["N"])],
             "ll_lib": [str(mv(groupa.ll_of(r))) for r in lib],
             "v": [str(mv(v)) for v in vs_all],
             "idx": [int(mv(c)) for c in ch[0][3]] if ch else list(range(shape["N"])),
             "raised": repr(raised) if raised is not None else None}
        if extra:
            d.update(extra)
        return d
    return describe


def _spec(sink, path, S, shape, info, focus, logprobs):
    w = S.w
    lib, lnp, N, nlin, req = info["lib"], info["lnp"], info["N"], info["n_lin"], shape["req"]
    ev = info["evaluated"]
    E = len(ev)
    desc = _desc_factory(S, path, shape, info)
    # --- which library rows were evaluated, in which order
    if info["randomized"]:
        ch = groupa.stream_choices(w)
        ok_proto = len(ch) == 1 and ch[0][1] == N
        idx = ch[0][3] if ok_proto else []
    else:
        ok_proto = True
        idx = list(range(N))
    rows, lps = [], []
    for j in range(min(E, len(idx))):
        i = idx[j]
        if core.is_sym(i):
            rows.append([symnp._select(i, [lib[r][c] for r in range(N)]) for c in range(5)])
            lps.append(symnp._select(i, list(lnp)))
        else:
            rows.append(list(lib[i]))
            lps.append(lnp[i])
    if focus == "C14":
        # budget + each library row at most once + contiguous in the (shuffled) order
        within = E <= info["budget"] and ok_proto and len(rows) == E
        # (a structural claim: ask for a model with pairwise distinguishable library rows, so that the replay can tell rows apart)
        pref0 = [core.lift(r_[0]) == 2 + i for i, r_ in enumerate(lib)] + [core.lift(l_) == -i for i, l_ in enumerate(groupa.ll_of(r_) for r_ in lib) if core.is_sym(l_)]
        sink.check(path, "budget", core.SB(z3.BoolVal(within)), site=shape["mode"] + ".budget", describe=desc, prefer=pref0)
        if not within:
            return
        same = [core.lift(ev[j][c] == rows[j][c]) for j in range(E) for c in range(5)]
        sink.check(path, "evaluated_once_in_order", core.SB(z3.And(same) if same else z3.BoolVal(True)), site=shape["mode"], describe=desc)
    elif not (E <= N and ok_proto and len(rows) == E):
        return
    # --- acceptance of the final iteration
    vs_all = groupa.stream_vs(w)
    if len(vs_all) < E:
        sink.check(path, "rng_protocol", core.SB(z3.BoolVal(False)), site=shape["mode"], describe=desc)
        return
    vs = vs_all[len(vs_all) - E:]
    lls = [groupa.ll_of(r) for r in rows]
    kreq = core.SN(z3.IntVal(req))
    acc, kept, ranks = c02.kept_spec(lls, vs, kreq)
    info2 = dict(info)
    pref = []
    for l in lls:
        pref += [core.lift(l) >= -6, core.lift(l) <= 2]
    for v in vs_all:
        pref += [core.lift(v) >= -4, core.lift(v) <= z3.RealVal("-1/50")]
    for i, r_ in enumerate(lib):
        pref += [core.lift(r_[0]) == 2 + i] + [z3.And(core.lift(c) >= 0, core.lift(c) <= 5) for c in r_[1:]]
    # second tier (dropped when unsatisfiable): equal uniforms in the final iteration, so that the counterexample does not hinge on the
    # pairing of uniforms with samples, which the replay oracle leaves free
    pref = [pref, [core.lift(v) == core.lift(vs[0]) for v in vs[1:]]]
    if focus == "C14":
        sink.check(path, "rows", core.SB(c02.claims_rows(info2, rows, kept, ranks)), site=shape["mode"], describe=desc, prefer=pref)
    else:
        obs = info["obs"]
        if logprobs:
            ok_cols = "ln_prior" in obs and "ln_likelihood" in obs
            scal = ok_cols and not isinstance(obs["ln_prior"], env.RecordRows) and not isinstance(obs["ln_likelihood"], env.RecordRows)
            sink.check(path, "iter.scalar_columns", core.SB(z3.BoolVal(bool(scal))), site=shape["mode"] + ".ln_prior_column", describe=desc)
            if scal:
                m = obs["n"]
                cl = [z3.Sum([z3.If(k, 1, 0) for k in kept]) == m]
                for j in range(E):
                    for g in range(m):
                        cl.append(z3.Implies(z3.And(kept[j], ranks[j] == g),
                                             z3.And(core.lift(obs["ln_likelihood"][g] == lls[j]), core.lift(obs["ln_prior"][g] == lps[j]))))
                sink.check(path, "iter.attached", core.SB(z3.And(cl)), site=shape["mode"], describe=desc, prefer=pref)


# ---------------------------------------------------------------------------------------------

def replay(cand, focus="C14"):
    import tempfile
    import shutil
    import numpy as np
    import astropy.units as u
    from astropy.time import Time
    m = cand.get("model") or {}
    shape = cand["shape"]
    if "lib" not in m:
        return {"reproduced": False, "detail": "candidate without concrete input"}
    f = c02._f
    lib = np.array([[f(c) for c in r] for r in m["lib"]], dtype=float)
    N = len(lib)
    # library rows must be distinguishable for the fake kernel's lookup: perturb exact duplicates only if ll equal
    ll_lib = [f(x) for x in m["ll_lib"]]
    lnp = np.array([f(x) for x in m["lnp"]])
    us = [math.exp(f(v)) for v in m["v"]]
    idx = list(m["idx"])
    nlin, req = shape["n_lin"], shape["req"]
    key = {tuple(np.round(r, 12)): l for r, l in zip(lib, ll_lib)}
    nf = shape.get("nonfinite")
    import thejoker
    from thejoker.samples import JokerSamples
    from thejoker import likelihood_helpers as lh, multiproc_helpers as mph

    class FakeHelper:
        packed_order = ["P", "e", "omega", "M0", "s"]
        internal_units = {"P": u.day, "e": u.one, "omega": u.rad, "M0": u.rad, "s": u.km / u.s, "K": u.km / u.s, "v0": u.km / u.s}
        data = type("D", (), {"t_ref": Time(55000.0, format="mjd", scale="tcb")})()
        prior = type("P", (), {"poly_trend": 1, "n_offsets": 0})()
        evaluated = []

        def batch_marginal_ln_likelihood(self, chunk):
            out = []
            for r in np.asarray(chunk):
                FakeHelper.evaluated.append(tuple(np.round(r, 12)))
                v = key[tuple(np.round(r, 12))]
                if nf is not None and tuple(np.round(r, 12)) == tuple(np.round(lib[nf], 12)):
                    v = float("nan")
                out.append(v)
            return np.array(out, dtype=float)

        def batch_get_posterior_samples(self, chunk, n_lin, rng):
            chunk = np.asarray(chunk)
            raw = np.zeros((len(chunk) * n_lin, 7))
            for i, r in enumerate(chunk):
                for j in range(n_lin):
                    raw[i * n_lin + j, :5] = r
            return raw, np.zeros(len(chunk) * n_lin)

    class ReplayRng(np.random.Generator):
        def __init__(self):
            super().__init__(np.random.PCG64(4321))
            self.u_served = []
            self.blocks = []

        def uniform(self, low=0.0, high=1.0, size=None):
            n = int(size) if size is not None else 1
            start = len(self.u_served)
            vals = [(us[start + i] if start + i < len(us) else 0.5) for i in range(n)]
            self.u_served.extend(vals)
            self.blocks.append(vals)
            return np.array(vals) if size is not None else vals[0]

        def choice(self, a, size=None, replace=True, **kw):
            full = idx + [i for i in range(N) if i not in idx]
            return np.array(full[:int(size)], dtype=int)

        def permutation(self, x):
            full = idx + [i for i in range(N) if i not in idx]
            n = x if isinstance(x, (int, np.integer)) else len(x)
            full = np.array(full[:n], dtype=int)
            return full if isinstance(x, (int, np.integer)) else np.asarray(x)[full]

    FakeHelper.evaluated = []
    rng = ReplayRng()
    helper = FakeHelper()
    tmpd = tempfile.mkdtemp(prefix="verif_c14_")
    try:
        prior = JokerSamples(poly_trend=1, n_offsets=0)
        for ci, (c, un) in enumerate(zip(["P", "e", "omega", "M0", "s"], [u.day, u.one, u.rad, u.rad, u.km / u.s])):
            prior[c] = lib[:, ci] * un
        prior["ln_prior"] = lnp
        fn = os.path.join(tmpd, "lib.hdf5")
        prior.write(fn, overwrite=True)
        logprobs = focus == "C06" and nlin == 1
        mode = shape["mode"]
        budget = N if shape.get("maxprior") is None else min(N, shape["maxprior"])
        exp = _expect_raise(shape)
        raised = None
        out = None
        try:
            if mode == "inmem":
                packed, _ = prior.pack(units=helper.internal_units, names=helper.packed_order)
                out = lh.iterative_rejection_inmem(helper, packed, rng, n_requested_samples=req, ln_prior=(lnp if logprobs else None),
                                                   init_batch_size=shape["init"], growth_factor=shape["growth"], n_linear_samples=nlin)
                randomized = False
            elif mode == "file":
                import schwimmbad
                src = fn if shape["src"] == "filename" else prior
                if shape.get("history"):
                    # the shape's call history: another library under the same name / in the same object, sampled before
                    colu = list(zip(["P", "e", "omega", "M0", "s"], [u.day, u.one, u.rad, u.rad, u.km / u.s]))
                    libA = lib + np.array([100.0, 0.0, 0.0, 0.0, 0.0])
                    for r in libA:
                        key[tuple(np.round(r, 12))] = 0.0
                    for ci, (c, un) in enumerate(colu):
                        prior[c] = libA[:, ci] * un
                    prior["ln_prior"] = lnp - 1000.0
                    prior.write(fn, overwrite=True)
                    try:
                        mph.iterative_rejection_helper(helper, src, pool=schwimmbad.SerialPool(), rng=np.random.default_rng(3), n_requested_samples=req,
                                                       init_batch_size=shape["init"], growth_factor=shape["growth"], max_prior_samples=shape["maxprior"],
                                                       n_linear_samples=nlin, return_logprobs=logprobs, n_batches=shape["n_batches"],
                                                       randomize_prior_order=shape["randomize"])
                    except (ValueError, RuntimeError):
                        pass
                    FakeHelper.evaluated = []
                    for ci, (c, un) in enumerate(colu):
                        prior[c] = lib[:, ci] * un
                    prior["ln_prior"] = lnp
                    prior.write(fn, overwrite=True)
                out = mph.iterative_rejection_helper(helper, src, pool=schwimmbad.SerialPool(), rng=rng, n_requested_samples=req,
                                                     init_batch_size=shape["init"], growth_factor=shape["growth"], max_prior_samples=shape["maxprior"],
                                                     n_linear_samples=nlin, return_logprobs=logprobs, n_batches=shape["n_batches"],
                                                     randomize_prior_order=shape["randomize"])
                randomized = shape["randomize"]
            else:
                from thejoker import TheJoker
                import thejoker.thejoker as tjm
                import schwimmbad
                orig = tjm.TheJoker._make_joker_helper
                tjm.TheJoker._make_joker_helper = lambda self, data: helper
                try:
                    joker = TheJoker.__new__(TheJoker)
                    joker.pool, joker.rng, joker.prior = schwimmbad.SerialPool(), rng, object.__new__(thejoker.JokerPrior)
                    src_ = prior.pack(units=helper.internal_units, names=helper.packed_order)[0] if shape.get("src") == "packed" else (fn if shape.get("src") == "filename" else prior)
                    out = joker.iterative_rejection_sample(None, src_, n_requested_samples=req, max_prior_samples=shape["maxprior"],
                                                           n_linear_samples=nlin, return_logprobs=logprobs, n_batches=shape["n_batches"],
                                                           randomize_prior_order=shape["randomize"], init_batch_size=shape["init"],
                                                           growth_factor=shape["growth"], in_memory=shape["in_memory"])
                finally:
                    tjm.TheJoker._make_joker_helper = orig
                randomized = shape["randomize"] and not shape["in_memory"]
        except Exception as e:
            raised = e
        bad = []
        if exp == "nonfinite" and tuple(np.round(lib[nf], 12)) not in FakeHelper.evaluated:
            exp = None
        if raised is not None:
            if exp == "too_small" and isinstance(raised, ValueError):
                return {"reproduced": False, "detail": "raised the documented ValueError"}
            if exp == "nonfinite" and isinstance(raised, RuntimeError):
                return {"reproduced": False, "detail": "failure surfaced as RuntimeError"}
            return {"reproduced": True, "detail": "real call raised %s: %s (expected %s)" % (type(raised).__name__, str(raised)[:200], exp)}
        if not isinstance(out, JokerSamples):
            return {"reproduced": True, "detail": "the call RETURNED %r instead of a JokerSamples / raising" % (out,)}
        if exp is not None:
            return {"reproduced": True, "detail": "the call returned samples although the property demands an exception (%s)" % exp}
        ev = FakeHelper.evaluated
        order = (idx + [i for i in range(N) if i not in idx]) if randomized else list(range(N))
        want_ev = [tuple(np.round(lib[order[j]], 12)) for j in range(len(ev))] if len(ev) <= N else None
        if len(ev) > budget:
            bad.append("evaluated %d prior samples, budget is %d" % (len(ev), budget))
        elif want_ev != ev:
            bad.append("evaluated rows are not the first %d rows of the (shuffled) library, each once: P=%s" % (len(ev), [e[0] for e in ev]))
        else:
            E = len(ev)
            ll_eval = [ll_lib[order[j]] for j in range(E)]
            mx = max(ll_eval)
            last = rng.blocks[-1] if rng.blocks else []
            got_rows = np.stack([out[c].value for c in ["P", "e", "omega", "M0", "s"]], axis=1)
            explained = None
            perms = [tuple(range(E))] + (list(itertools.permutations(range(len(last)), E))[:5000] if len(last) >= E and E <= 6 else [])
            for perm in perms:
                if max(perm, default=-1) >= len(last):
                    continue
                acc = [j for j in range(E) if math.exp(ll_eval[j] - mx) > last[perm[j]]][:req]
                exp_rows = np.repeat(lib[[order[j] for j in acc]], nlin, axis=0) if acc else np.zeros((0, 5))
                if exp_rows.shape == got_rows.shape and np.allclose(exp_rows, got_rows, rtol=1e-12, atol=0):
                    explained = acc
                    break
            if explained is None:
                bad.append("returned rows P=%s are not the first %d accepted of the evaluated rows (ll=%s, final uniforms=%s)" % (got_rows[:, 0].tolist(), req, ll_eval, last))
            elif focus == "C06" and logprobs:
                for name, want in (("ln_likelihood", [ll_eval[j] for j in explained]), ("ln_prior", [lnp[order[j]] for j in explained])):
                    if name not in out.tbl.colnames:
                        bad.append("%s column missing" % name)
                        continue
                    val = np.asarray(getattr(out[name], "value", out[name]))
                    if val.dtype.kind != "f" or val.ndim != 1:
                        bad.append("%s is not a plain float column: dtype=%s" % (name, val.dtype))
                    elif len(val) != len(want) or not np.allclose(val, want, rtol=1e-12, atol=0):
                        bad.append("%s=%s but the rows' own values are %s" % (name, val.tolist(), want))
        return {"reproduced": bool(bad), "detail": "; ".join(bad)[:900] or "real build agrees with the property"}
    finally:
        shutil.rmtree(tmpd, ignore_errors=True)
