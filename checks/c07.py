"""C07 -- physical results are invariant under the choice of units.

Decided as physical correctness with SYMBOLIC unit scales rather than by comparing two runs: every
unit that the user may choose (RV data unit, unit of each linear prior, of sigma_K0 / max_K, of the
period prior and P0, of every prior-sample column) is a dimension vector with a positive symbolic
scale; conversion multiplies by the ratio of scales.  Claims, per solver-enumerated path:
  slots     every number the kernel keeps for the prior (mu, Lambda incl. the K rule) equals the declared
            physical value expressed in the data unit (transliterated CJokerHelper.__init__ + real
            _pytensor_get_mean_std);
  pack      JokerSamples.pack(units=internal, names=packed_order) = physical value / internal unit;
  read      both stages of the file path (likelihood evaluation and the re-read of accepted rows in
            make_full_samples_worker) hand the kernel rows converted to its internal units, and the
            returned samples carry the internal units (JokerSamples.unpack);
hence outputs are functions of physical quantities only; the stated consequences (ll shifts by
n_epochs * ln(unit ratio), same accepted set) follow from the Gaussian density's scaling (trusted lemma).
"""
import types

from symx import core, env, symnp, units, stack
from symx.core import z3
from symx.framework import new_result, VCSink, fill_explorer, add_witness
from checks import kernel, groupa, c01, c02, c05
from checks.kernel import L

PROPERTY = "C07"
LEVEL = "model_checking"
FUNCTIONS = [("thejoker/utils.py", "_pytensor_get_mean_std"), ("thejoker/samples.py", "JokerSamples.pack"), ("thejoker/samples.py", "JokerSamples.unpack"),
             ("thejoker/utils.py", "read_batch_slice"), ("thejoker/utils.py", "read_batch_idx"), ("thejoker/utils.py", "table_header_to_units"),
             ("thejoker/multiproc_helpers.py", "marginal_ln_likelihood_worker"), ("thejoker/multiproc_helpers.py", "make_full_samples_worker"),
             ("thejoker/multiproc_helpers.py", "rejection_sample_helper"), ("thejoker/thejoker.py", "TheJoker.marginal_ln_likelihood")]
PYX_FUNCTIONS = ['CJokerHelper.__init__', 'CJokerHelper.batch_marginal_ln_likelihood']
ASSUMPTIONS = [
    "units are multiplicative (dimension vector + positive scale); astropy's conversion tables and non-multiplicative units are outside",
    "ln N(y|.) under y -> c y shifts by n ln c (scaling of the Gaussian density): trusted lemma linking 'numbers entering the kernel are physical/internal-unit' to the property's stated consequences",
    "FixedCompanionMass.dist / default_*_prior store sigma_K0, max_K in the K unit and P0 in the period prior's unit (checked on the real pytensor graphs in C09)",
    "recorded finding of C01 (P0 kept in the period prior's unit) is reported here as well",
]


def bounds(tier):
    return {"slots": "n_epochs 1..2, poly_trend <= 2, <= 1 offset, all units symbolic", "pack": "<= 2 rows", "read": "library N <= 3"}


def shapes(tier):
    out = []
    for K in ("default", "normal"):
        out.append({"family": "slots", "nt": 2 if K == "default" else 1, "poly": 2, "noff": 1 if K == "default" else 0, "K": K, "units": "sym", "P_unit": "day", "tref": "default", "rows": 1, "slots_only": True})
    out.append({"family": "slots", "nt": 1, "poly": 1, "noff": 0, "K": "default", "units": "sym", "P_unit": "sym", "tref": "default", "rows": 1, "slots_only": True})
    out.append({"family": "slots", "nt": 1, "poly": 1, "noff": 0, "K": "default", "units": "plain", "P_unit": "year", "tref": "default", "rows": 1, "slots_only": True})
    # call history: the same prior object served another data set (other RV unit) before
    out.append({"family": "slots", "nt": 1, "poly": 2, "noff": 0, "K": "default", "units": "sym", "P_unit": "day", "tref": "default", "rows": 1, "slots_only": True, "history": "prior_reused"})
    out.append({"family": "slots", "nt": 2, "poly": 1, "noff": 1, "K": "normal" if False else "default", "units": "plain", "P_unit": "day", "tref": "default", "rows": 1, "slots_only": True, "history": "prior_reused"})
    for n in (1, 2):
        out.append({"family": "pack", "n": n})
    for N in (1, 2, 3):
        for src in ("filename", "object"):
            out.append({"family": "read", "N": N, "src": src, "n_batches": 2 if N > 1 else None})
    return out


def _run_slots(shape, res, sink):
    S = kernel.KSetup()

    def harness():
        S.reset()
        pb = kernel.make_problem(S, shape)
        rows = kernel.chunk_rows(1)
        h, ll = kernel.run_marginal(S, pb, rows)
        return pb, rows, h, ll
    ex = core.Explorer(max_paths=50)
    twin = False
    for path in ex.paths(harness):
        core.Ctx.cur = path.ctx
        try:
            r, _, _ = path.check_isolated(core.SB(z3.BoolVal(False)))
            twin = twin or r == "sat"
            if path.raised is not None:
                sink.check(path, "slots.kernel_runs", core.SB(z3.BoolVal(False)), site="CJokerHelper", describe=lambda m: {"raised": repr(path.raised)[:300], "generic": True})
                continue
            pb, rows, h, ll = path.result
            sub = VCSink(res, PROPERTY)
            c01.vcs_marginal(_Prefixed(sub, "slots."), path, S, shape, pb, rows, h, ll, res)
            # internal units the kernel announces
            iu = h.internal_units
            du = pb["dunit"]
            want = [("P", units.day), ("e", units.one), ("omega", units.rad), ("M0", units.rad), ("s", du), ("K", du), ("v0", du)]
            want += [(nm, du) for nm in pb["off_names"]] + [("v%d" % j, du / units.day ** j) for j in range(1, shape["poly"])]
            ok = list(iu.keys()) == [w[0] for w in want]
            cl = z3.And([z3.BoolVal(bool(ok))] + ([iu[k].same_as(u_) for k, u_ in want] if ok else []))
            sink.check(path, "slots.internal_units", core.SB(cl), site="CJokerHelper.__init__.internal_units", describe=c01.describe_factory(pb, rows, shape), isolated=True)
        finally:
            core.Ctx.cur = None
    res["twin_ok"] = twin
    return ex


class _Prefixed:
    """forwards to a VCSink, prefixing VC names (so that C01's slot VCs appear as C07.slots.*)"""
    def __init__(self, sink, prefix):
        self.sink, self.prefix = sink, prefix

    def check(self, path, name, *a, **k):
        return self.sink.check(path, self.prefix + name, *a, **k)


def _run_pack(shape, res, sink):
    st = stack.Stack(load=("prior_helpers", "likelihood_helpers", "samples"))
    n = shape["n"]

    def harness():
        JS = st.samples.JokerSamples
        un = {"P": units.sym_unit("cP", units.day), "e": units.one, "omega": units.sym_unit("cO", units.rad), "M0": units.sym_unit("cM", units.rad),
              "s": units.sym_unit("cs", units.km / units.s)}
        s = JS(poly_trend=1, n_offsets=0)
        cells = {}
        for c in groupa.NL:
            cells[c] = [core.real("%s_%d" % (c, i)) for i in range(n)]
            s[c] = units.Quantity(symnp.SymArray(symnp._obj(cells[c]), symnp._F8), un[c])
        du = units.sym_unit("data", units.km / units.s)
        internal = {"P": units.day, "e": units.one, "omega": units.rad, "M0": units.rad, "s": du, "K": du, "v0": du}
        packed, ou = s.pack(units=dict(internal), names=list(groupa.NL))
        return cells, un, internal, packed, ou
    ex = core.Explorer(max_paths=50)
    twin = False
    for path in ex.paths(harness):
        core.Ctx.cur = path.ctx
        try:
            r, _, _ = path.check_isolated(core.SB(z3.BoolVal(False)))
            twin = twin or r == "sat"
            if path.raised is not None:
                sink.check(path, "pack.no_exception", core.SB(z3.BoolVal(False)), site="JokerSamples.pack", describe=lambda m: {"raised": repr(path.raised)[:300]})
                continue
            cells, un, internal, packed, ou = path.result
            ok = isinstance(packed, symnp.SymArray) and packed.a.shape == (n, 5) and list(ou.keys()) == list(groupa.NL)
            cl = [z3.BoolVal(bool(ok))]
            if ok:
                for j, c in enumerate(groupa.NL):
                    f = un[c].to(internal[c])
                    cl.append(ou[c].same_as(internal[c]))
                    for i in range(n):
                        # physical value / internal unit:  cell * scale(col unit) == packed * scale(internal unit)
                        cl.append(L(packed.a[i, j]) == L(cells[c][i] * f))
            sink.check(path, "pack.physical_over_internal_unit", core.SB(z3.And(cl)), site="JokerSamples.pack",
                       describe=lambda m: {c: [str(core.model_value(m, x)) for x in v] for c, v in cells.items()}, isolated=True)
        finally:
            core.Ctx.cur = None
    res["twin_ok"] = twin
    return ex


class FullSymUnits(c05.SymUnitSetup):
    """all five library columns in units with symbolic scales"""
    def lib_units(self):
        return {"P": self._pu, "e": self._eu, "omega": self._ou, "M0": self._mu, "s": self._su}

    def make_units(self):
        self._eu = units.sym_unit("libE", units.one)        # a scaled dimensionless unit (e.g. percent)
        self._pu = units.sym_unit("libP", units.day)
        self._su = units.sym_unit("libs", units.km / units.s)
        self._ou = units.sym_unit("libO", units.rad)
        self._mu = units.sym_unit("libM", units.rad)

    def internal_row(self, row):
        return [row[0] * self._pu.to(units.day), row[1] * self._eu.to(units.one), row[2] * self._ou.to(units.rad), row[3] * self._mu.to(units.rad), row[4] * self._su.to(self.vunit)]


def _run_read(shape, res, sink):
    S = FullSymUnits(with_api=False)
    N = shape["N"]

    def harness():
        S.reset()
        S.make_units()
        lib, lnp = S.library(N, with_lnp=True)
        rng = env.SymRng(S.w)
        pool = env.Pool(S.w, size=1, order="reversed")
        h = S.helper()
        src = S.as_file(lib, lnp) if shape["src"] == "filename" else S.as_samples(lib, lnp)
        out = S.mp.rejection_sample_helper(h, src, pool=pool, rng=rng, n_linear_samples=1, return_logprobs=True, n_batches=shape["n_batches"])
        return lib, lnp, h, groupa.observe_samples(out)
    ex = core.Explorer(max_paths=2000)
    twin = False
    for path in ex.paths(harness):
        core.Ctx.cur = path.ctx
        try:
            r, _, _ = path.check_isolated(core.SB(z3.BoolVal(False)))
            twin = twin or r == "sat"
            if path.raised is not None:
                sink.check(path, "read.no_exception", core.SB(z3.BoolVal(False)), site="rejection_sample_helper", describe=lambda m: {"raised": repr(path.raised)[:300]})
                continue
            lib, lnp, h, obs = path.result

            def desc(m):
                return {"lib": [[str(core.model_value(m, c)) for c in r_] for r_ in lib],
                        "scales": {k: str(core.model_value(m, getattr(S, k).scale)) for k in ("_pu", "_su", "_ou", "_mu", "_eu")}}
            want = [S.internal_row(r_) for r_ in lib]
            # stage 1: every row the kernel evaluated is a library row in internal units, in order
            ev = [r_ for call in h.ll_calls for r_ in call]
            cl = [z3.BoolVal(len(ev) == N)]
            if len(ev) == N:
                # (workers run in reverse order in the pool model, so compare as a set: every evaluated row is a converted
                # library row and every library row was evaluated)
                for r_ in ev:
                    cl.append(z3.Or([z3.And([L(r_[c]) == L(want[i][c]) for c in range(5)]) for i in range(N)]))
                for i in range(N):
                    cl.append(z3.Or([z3.And([L(r_[c]) == L(want[i][c]) for c in range(5)]) for r_ in ev]))
            sink.check(path, "read.likelihood_stage_units", core.SB(z3.And(cl)), site="marginal_ln_likelihood_worker", describe=desc, isolated=True)
            # stage 2: rows handed to the posterior-draw stage and returned (tagged with the internal units)
            pv = [r_ for call in h.post_calls for r_ in call[0]]
            cl = []
            for r_ in pv:
                cl.append(z3.Or([z3.And([L(r_[c]) == L(want[i][c]) for c in range(5)]) for i in range(N)]))
            sink.check(path, "read.posterior_stage_units", core.SB(z3.And(cl) if cl else z3.BoolVal(False)), site="make_full_samples_worker", describe=desc, isolated=True)
            okc = not obs.get("not_samples") and obs.get("n", 0) == len(pv)
            cl = [z3.BoolVal(bool(okc))]
            if okc:
                iu = {"P": units.day, "e": units.one, "omega": units.rad, "M0": units.rad, "s": S.vunit, "K": S.vunit, "v0": S.vunit}
                for c in obs["cols"]:
                    if c in iu:
                        cl.append(obs["units"][c].same_as(iu[c]))
                for g in range(obs["n"]):
                    cl.append(z3.Or([z3.And([L(obs["rows"][g][c]) == L(want[i][c]) for c in range(5)] + [L(obs["ln_prior"][g]) == L(lnp[i])]) for i in range(N)]))
            sink.check(path, "read.returned_samples_physical", core.SB(z3.And(cl)), site="rejection_sample_helper.output", describe=desc, isolated=True)
        finally:
            core.Ctx.cur = None
    res["twin_ok"] = twin
    res["witnesses"].append({"vc": "witness", "site": "units_twin", "shape": shape, "model": {}, "witness": True})
    return ex


def run_shape(shape, tier):
    res = new_result(shape)
    sink = VCSink(res, PROPERTY)
    ex = {"slots": _run_slots, "pack": _run_pack, "read": _run_read}[shape["family"]](shape, res, sink)
    fill_explorer(res, ex)
    return res


# ---------------------------------------------------------------------------------------------

from checks import kernel_conc as _kc


@_kc.replay_both
def replay(cand):
    """twin problems on the real build: the same physical problem expressed in two unit systems through the public API"""
    import os
    import shutil
    import tempfile
    import numpy as np
    import astropy.units as u
    import pymc as pm
    import thejoker as tj
    import thejoker.units as xu
    shape = cand["shape"]
    if shape["family"] == "slots" and shape.get("P_unit") in ("year", "sym"):
        return c01.replay.__wrapped__(cand) if hasattr(c01.replay, "__wrapped__") else c01.replay(cand)
    tmpd = tempfile.mkdtemp(prefix="verif_c07_")
    bad = []
    try:
        rnd = np.random.default_rng(21)
        n = 6
        t = 56000 + np.sort(rnd.uniform(0, 90, n))
        rv = (9 * np.sin(2 * np.pi * t / 21.0) + 4 + rnd.normal(0, 1, n)) * u.km / u.s
        err = np.full(n, 0.8) * u.km / u.s

        def build(vunit, punit, prior_vunit):
            data = tj.RVData(t, rv.to(vunit), err.to(vunit))
            with pm.Model():
                v0 = xu.with_unit(pm.Normal("v0", (3.0 * u.km / u.s).to_value(prior_vunit), (25.0 * u.km / u.s).to_value(prior_vunit)), prior_vunit)
                prior = tj.JokerPrior.default(P_min=2 * u.day, P_max=200 * u.day, sigma_K0=(30 * u.km / u.s).to(prior_vunit), P0=1 * u.year,
                                              pars={"v0": v0})
            return data, prior
        base_d, base_p = build(u.km / u.s, u.day, u.km / u.s)
        lib = base_p.sample(size=40, rng=np.random.default_rng(5), return_logprobs=True)
        ref_j = tj.TheJoker(base_p, rng=np.random.default_rng(77))
        ref_ll = np.asarray(ref_j.marginal_ln_likelihood(base_d, lib, in_memory=True))
        ref_s = tj.TheJoker(base_p, rng=np.random.default_rng(77)).rejection_sample(base_d, lib, in_memory=True)
        # twin: data in m/s, prior scales in m/s, library columns in other equivalent units
        d2, p2 = build(u.m / u.s, u.day, u.m / u.s)
        lib2 = lib.copy()
        lib2.tbl["P"] = lib2.tbl["P"].to(u.year)
        lib2.tbl["omega"] = lib2.tbl["omega"].to(u.deg)
        lib2.tbl["M0"] = lib2.tbl["M0"].to(u.deg)
        lib2.tbl["e"] = (lib2.tbl["e"] * u.one).to(u.percent)          # a scaled dimensionless unit
        fn = os.path.join(tmpd, "lib2.hdf5")
        lib2.write(fn, overwrite=True)
        shift = n * np.log(1000.0)
        for tag, src, inmem in (("in_memory", lib2, True), ("file", fn, False), ("object", lib2, False)):
            # (the km/s run above worked: if the twin in other units fails, that failure is itself a dependence on the units)
            try:
                ll2 = np.asarray(tj.TheJoker(p2, rng=np.random.default_rng(77)).marginal_ln_likelihood(d2, src, in_memory=inmem))
                tj.TheJoker(p2, rng=np.random.default_rng(77)).rejection_sample(d2, src, in_memory=inmem)
            except Exception as e_twin:
                bad.append("%s: the twin in other units raised %s: %s (the km/s problem runs)" % (tag, type(e_twin).__name__, str(e_twin)[:100]))
                continue
            if not np.allclose(ll2 + shift, ref_ll, rtol=1e-6, atol=1e-6):
                bad.append("%s: ll in m/s differs from ll in km/s by more than the Jacobian n*ln(1000) (max dev %.3g)" % (tag, np.max(np.abs(ll2 + shift - ref_ll))))
            s2 = tj.TheJoker(p2, rng=np.random.default_rng(77)).rejection_sample(d2, src, in_memory=inmem)
            if len(s2) != len(ref_s) or not np.allclose(np.sort(s2["P"].to_value(u.day)), np.sort(ref_s["P"].to_value(u.day)), rtol=1e-9):
                bad.append("%s: accepted set differs between unit systems (P: %s vs %s)" % (tag, np.sort(s2["P"].to_value(u.day))[:4].tolist(), np.sort(ref_s["P"].to_value(u.day))[:4].tolist()))
            elif inmem and not np.allclose(s2["K"].to_value(u.km / u.s), ref_s["K"].to_value(u.km / u.s), rtol=1e-5, atol=1e-6):
                bad.append("%s: posterior K not physically equal between unit systems" % tag)
            else:
                for c, un in (("omega", u.rad), ("M0", u.rad)):
                    a = np.sort(s2[c].to_value(un))
                    b = np.sort(ref_s[c].to_value(un))
                    if not np.allclose(a, b, rtol=1e-9, atol=1e-12):
                        bad.append("%s: posterior %s not physically equal between unit systems" % (tag, c))
        # call history: ONE prior object (declared in km/s) serving the km/s data and then the m/s twin
        j3 = tj.TheJoker(base_p, rng=np.random.default_rng(77))
        ll_a = np.asarray(j3.marginal_ln_likelihood(base_d, lib, in_memory=True))
        ll_b = np.asarray(tj.TheJoker(base_p, rng=np.random.default_rng(77)).marginal_ln_likelihood(d2, lib, in_memory=True))
        if not np.allclose(ll_a, ref_ll, rtol=1e-6, atol=1e-6) or not np.allclose(ll_b + shift, ref_ll, rtol=1e-6, atol=1e-6):
            bad.append("same prior object used with km/s data and then with the m/s twin: ll differs by more than the Jacobian n*ln(1000) (max dev %.3g)" % np.max(np.abs(ll_b + shift - ref_ll)))
        s3 = tj.TheJoker(base_p, rng=np.random.default_rng(77)).rejection_sample(d2, lib, in_memory=True)
        if len(s3) != len(ref_s) or not np.allclose(np.sort(s3["P"].to_value(u.day)), np.sort(ref_s["P"].to_value(u.day)), rtol=1e-9):
            bad.append("same prior object, second data unit: accepted set differs between unit systems")
        elif not np.allclose(s3["K"].to_value(u.km / u.s), ref_s["K"].to_value(u.km / u.s), rtol=1e-5, atol=1e-6):
            bad.append("same prior object, second data unit: posterior K not physically equal")
    except Exception as e:
        import traceback
        if not bad:
            return {"reproduced": False, "error": "replay scenario failed: %s" % traceback.format_exc()[-500:]}
    finally:
        shutil.rmtree(tmpd, ignore_errors=True)
    return {"reproduced": bool(bad), "detail": "; ".join(bad[:3])[:900] or "unit twins agree"}
