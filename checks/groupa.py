"""Shared harness for the index-bookkeeping family (C02, C06, C14, C05-partition, C10, C13).

Real code executed symbolically (current working tree): thejoker/likelihood_helpers.py,
thejoker/multiproc_helpers.py, thejoker/utils.py (batch_tasks, read_batch*, tempfile_decorator),
thejoker/samples.py (JokerSamples: unpack, pack, __setitem__, write), thejoker/thejoker.py
(TheJoker.rejection_sample / iterative_rejection_sample / marginal_ln_likelihood entry points).

Environment by contract (symx.env): pytables/h5py file model, temp files, os.unlink, pool.map,
the RNG stream (uniform cells are EXP(v), v<0 symbolic), SeedSequence.spawn.  The compiled kernel is
replaced by a contract stub: ll(row) = LL(P,e,omega,M0,s) with LL an UNINTERPRETED function (so every
likelihood profile incl. ties is covered), posterior draws = unchanged copy of the nonlinear row +
fresh linear symbols (the row-copy loop of the real kernel is checked in C03).
"""
import collections
import types

from symx import core, stack, env, symnp, units, loader
from symx.core import z3, SN, SB

NL = ["P", "e", "omega", "M0", "s"]


class HelperStub:
    """contract stub of CJokerHelper"""
    n_linear = 2  # K, v0

    def __init__(self, data=None, prior=None, trend_M=None, setup=None):
        self.setup = setup
        self.data = data if data is not None else types.SimpleNamespace(t_ref=units.Time(core.real("t_ref")))
        self.prior = prior if prior is not None else types.SimpleNamespace(poly_trend=1, n_offsets=0)
        self.packed_order = list(setup.packed_order)
        vu = setup.vunit
        iu = collections.OrderedDict()
        for k, v in setup.nl_units.items():
            iu[k] = v
        iu["s"] = vu
        iu["K"] = vu
        iu["v0"] = vu
        self.internal_units = iu
        self.ll_calls = []
        self.post_calls = []

    def batch_marginal_ln_likelihood(self, chunk):
        self.setup.w.call("kernel.ll")
        assert chunk.dtype == symnp._F8, "kernel requires float64 chunk"
        rows = [tuple(chunk.a[i]) for i in range(chunk.shape[0])]
        self.ll_calls.append(rows)
        out = [ll_of(r) for r in rows]
        return symnp.SymArray(symnp._obj(out), symnp._F8) if out else symnp.zeros((0,))

    def batch_get_posterior_samples(self, chunk, n_lin, rng):
        self.setup.w.call("kernel.post")
        n = chunk.shape[0]
        n_lin = int(n_lin)
        rows = [tuple(chunk.a[i]) for i in range(n)]
        self.post_calls.append((rows, n_lin, getattr(rng, "key", None)))
        out = []
        for i in range(n):
            lin = rng.multivariate_normal(("a", rows[i]), ("A", rows[i]), size=n_lin)
            for j in range(n_lin):
                out.append(list(rows[i]) + [lin.a[j, k] for k in range(self.n_linear)])
        raw = symnp.SymArray(symnp._obj(out), symnp._F8) if out else symnp.zeros((0, 5 + self.n_linear))
        ll = symnp.zeros((n * n_lin,))
        return raw, ll


class PriorStub:
    poly_trend = 1
    n_offsets = 0

    def __init__(self, setup):
        self.setup = setup

    def sample(self, size=1, generate_linear=False, return_logprobs=False, rng=None, **kw):
        """contract stub of JokerPrior.sample: `size` fresh rows drawn from the generator it is given (the
        real function is the subject of C09/C10's prior part); records which generator it received"""
        S = self.setup
        S.w.event("prior.sample", getattr(rng, "key", None))
        S.prior_sample_rngs.append(rng)
        if rng is None:
            S.w.global_random_touched.append("prior.sample called without the sampler's generator (fresh OS entropy)")
        lib, lnp = S.library(int(size), with_lnp=True, tag="ps")
        S.count_library = (lib, lnp)
        return S.as_samples(lib, lnp if return_logprobs else None)


class Setup:
    """one per shape: shims + real modules; reset() per path"""

    def __init__(self, with_api=False):
        self.w = env.World()
        w = self.w
        prior_mod = types.ModuleType("thejoker.prior")

        class JokerPrior(PriorStub):
            pass
        prior_mod.JokerPrior = JokerPrior
        prior_mod._validate_model = lambda m: m
        self.JokerPrior = JokerPrior
        setup = self

        def helper_factory(all_data, prior, trend_M):
            h = HelperStub(all_data, prior, trend_M, setup=setup)
            setup.helpers.append(h)
            return h
        self.helpers = []
        self.st = stack.Stack(world=w, helper_cls=helper_factory, prior_mod=prior_mod,
                              load=("prior_helpers", "likelihood_helpers", "utils", "samples", "multiproc_helpers"))
        st = self.st
        fl = st.shims["thejoker.src.fast_likelihood"]
        self.packed_order = fl._nonlinear_packed_order
        self.nl_units = fl._nonlinear_internal_units
        self.vunit = units.km / units.s
        if with_api:
            dh = types.ModuleType("thejoker.data_helpers")

            def validate_prepare_data(data, poly_trend, n_offsets):
                w.call("validate_prepare_data")
                return data, "IDS", "TREND_M"
            dh.validate_prepare_data = validate_prepare_data
            st.shims["thejoker.data_helpers"] = dh
            st.load("samples_analysis")
            st.shims["schwimmbad"] = types.SimpleNamespace(SerialPool=lambda: env.Pool(w, size=0, order="forward"))
            st.load("thejoker")
        self.lh = st.likelihood_helpers
        self.mp = st.multiproc_helpers
        self.JokerSamples = st.samples.JokerSamples

    # ---- per path
    def reset(self, fault_at=None):
        self.w.reset(fault_at)
        NEGINF_P.clear()
        del self.helpers[:]
        self.prior_sample_rngs = []
        self.count_library = None

    def library(self, N, with_lnp=True, tag="lib"):
        """N symbolic library rows (internal units) + ln_prior values"""
        lib = [[core.real("%s_%d_%s" % (tag, i, c)) for c in NL] for i in range(N)]
        lnp = [core.real("lnp%s_%d" % ("" if tag == "lib" else tag, i)) for i in range(N)] if with_lnp else None
        return lib, lnp

    def lib_units(self):
        d = dict(self.nl_units)
        d["s"] = self.vunit
        return d

    def as_file(self, lib, lnp, path="user_lib.hdf5", user=True):
        cols = collections.OrderedDict()
        un = {}
        lu = self.lib_units()
        for ci, c in enumerate(NL):
            cols[c] = symnp.SymArray(symnp._obj([r[ci] for r in lib]), symnp._F8)
            un[c] = lu[c]
        if lnp is not None:
            cols["ln_prior"] = symnp.SymArray(symnp._obj(list(lnp)), symnp._F8)
            un["ln_prior"] = units.one
        fm = env.FileModel(path, cols, un, meta={"poly_trend": 1, "n_offsets": 0, "t_ref": None}, user=user)
        self.w.files[path] = fm
        return path

    def as_samples(self, lib, lnp):
        s = self.JokerSamples(poly_trend=1, n_offsets=0)
        lu = self.lib_units()
        for ci, c in enumerate(NL):
            s[c] = units.Quantity(symnp.SymArray(symnp._obj([r[ci] for r in lib]), symnp._F8), lu[c])
        if lnp is not None:
            s["ln_prior"] = units.Quantity(symnp.SymArray(symnp._obj(list(lnp)), symnp._F8), units.one)
        return s

    def as_packed(self, lib):
        return symnp.SymArray(symnp._obj([list(r) for r in lib]), symnp._F8)

    def helper(self):
        h = HelperStub(setup=self)
        self.helpers.append(h)
        return h


# ---------------------------------------------------------------------------------------------
# observation of results
# ---------------------------------------------------------------------------------------------

def observe_samples(samples, n_lin_cols=2):
    """-> dict(nonlinear rows, linear rows, ln_prior, ln_likelihood, kind) from a JokerSamples"""
    out = {"type": type(samples).__name__}
    tbl = getattr(samples, "tbl", None)
    if tbl is None:
        out["not_samples"] = True
        return out
    cols = tbl.colnames
    out["cols"] = cols
    n = len(tbl)
    out["n"] = n
    rows = []
    for i in range(n):
        rows.append([tbl[c].value.a[i] for c in NL])
    out["rows"] = rows
    out["units"] = {c: tbl[c].unit for c in cols}
    out["lin"] = [[tbl[c].value.a[i] for c in cols if c in ("K", "v0")] for i in range(n)]
    for k in ("ln_prior", "ln_likelihood"):
        if k in cols:
            v = tbl[k].value
            out[k] = v if isinstance(v, env.RecordRows) else list(v.a)
    out["meta"] = dict(tbl.meta)
    return out


NEGINF_P = set()     # names of the library P cells whose likelihood is -inf in the current shape


def ll_of(row):
    """likelihood of a (library) row: LL(row) uninterpreted, or -inf for the rows the shape designates"""
    p = row[0]
    if NEGINF_P and core.is_sym(p) and str(z3.simplify(core.lift(p))) in NEGINF_P:
        return symnp.NonFinite("-inf")
    return core.uf("LL", *row)


def spec_accept(lls, vs):
    """property rule: keep j iff ll_j - max_k ll_k > v_j  (u_j = exp(v_j))  -> list of z3 Bool"""
    fin = [l for l in lls if not isinstance(l, symnp.NonFinite)]
    mx = core.sym_max(fin)
    return [z3.BoolVal(False) if isinstance(l, symnp.NonFinite) else core.lift((l - mx) > v) for l, v in zip(lls, vs)]


def stream_vs(world, key=("root",)):
    """the uniform symbols (as v = log u) drawn so far from a stream, in draw order"""
    return [d[1] for d in world.streams.get(key, []) if d[0] == "uniform"]


def stream_choices(world, key=("root",)):
    return [d for d in world.streams.get(key, []) if d[0] == "choice"]
