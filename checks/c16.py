"""C16 -- work partitioning covers every prior sample exactly once, in order.

Real code executed symbolically: thejoker/utils.py:batch_tasks and
thejoker/multiproc_helpers.py:run_worker (current working tree, loaded under the shimmed import
environment).  n_batches is enumerated concretely (the loop trip count); n_tasks >= 1 and
start_idx >= 0 are UNBOUNDED symbolic integers (linear integer arithmetic with div/mod by the
constant n_batches), so each (n_batches, mode) shape is decided for every task count and offset.
"""
import os
from symx import core, stack, env, symnp
from symx.framework import new_result, VCSink, fill_explorer, add_witness
from symx.core import z3

PROPERTY = "C16"
LEVEL = "model_checking"
FUNCTIONS = [("thejoker/utils.py", "batch_tasks"), ("thejoker/multiproc_helpers.py", "run_worker")]
ASSUMPTIONS = [
    "Python ints are mathematical integers (z3 Int); n_tasks >= 1, start_idx >= 0, n_batches >= 1 as the property states",
    "arr[i:j] on the supplied array is modelled as an uninterpreted sequence slice (start, stop recorded)",
    "run_worker: pytables file = stub reporting a symbolic row count; pool.map contract = every task once, results in task order; "
    "SeedSequence.spawn(k) contract = k fresh distinct child keys",
    "bounds: n_batches <= 12 (quick) / <= 64 (thorough); n_tasks and start_idx unbounded; run_worker: n_prior_samples in 1..8, len(samples_idx) <= 6",
]


def bounds(tier):
    return {"n_batches": [1, 12 if tier == "quick" else 64], "n_tasks": "unbounded >= 1", "start_idx": "unbounded >= 0",
            "run_worker": {"pool.size": [0, 4], "n_batches": "None or 1..5", "n_prior_samples": "None or 1..8 (symbolic)", "len(samples_idx)": [1, 6]}}


def shapes(tier):
    nb_max = 12 if tier == "quick" else 64
    out = []
    for nb in range(1, nb_max + 1):
        for mode in ("idx", "arr"):
            out.append({"fn": "batch_tasks", "n_batches": nb, "mode": mode})
    # a real (concrete-length) array argument: the batches must be its non-empty consecutive slices
    for n in ((1, 2, 3, 4, 5) if tier == "quick" else (1, 2, 3, 4, 5, 6, 7, 8, 9)):
        for nb in ((1, 2, 3, 4, 6) if tier == "quick" else (1, 2, 3, 4, 5, 6, 7, 8, 10, 12)):
            out.append({"fn": "batch_tasks", "n_batches": nb, "mode": "carr", "n": n, "lo": (n + nb) % 3})
    # call history (bounded sizes): the same split requested twice with different start indices
    for nb in ((1, 2, 3) if tier == "quick" else (1, 2, 3, 4, 5)):
        out.append({"fn": "batch_tasks", "n_batches": nb, "mode": "idx" if nb % 2 else "arr", "history": True})
    for src in ("file", "n_prior", "idx"):
        for nb in ([None, 1, 3] if tier == "quick" else [None, 1, 2, 3, 5]):
            for psize in ([1, 3] if tier == "quick" else [0, 1, 2, 4]):
                out.append({"fn": "run_worker", "src": src, "n_batches": nb, "pool_size": psize})
    return out


class _Seq:
    """uninterpreted sequence of a symbolic length; slicing records symbolic bounds (an open end is the length)"""
    def __init__(self):
        self.n = core.integer("len_arr")
        core.assume(self.n >= 0)

    def __len__(self):
        raise core.UnsupportedByShim("len() of the symbolic sequence")

    def __getitem__(self, k):
        assert isinstance(k, slice) and k.step is None
        return ("slice", 0 if k.start is None else k.start, self.n if k.stop is None else k.stop)


def _spec_tasks(sink, path, tasks, lo, n, nb, mode, extra_args, tag):
    """the property's claims about a task list that must cover [lo, lo+n)"""
    L = core.lift
    claims = []
    cur = lo
    for t in tasks:
        head = t[0]
        if mode == "arr":
            assert head[0] == "slice"
            i1, i2 = head[1], head[2]
        else:
            i1, i2 = head
        claims.append(L(i1 == cur))          # contiguous, ordered, starts where the last ended
        claims.append(L(i2 > i1))            # non-empty
        claims.append(L(t[1] == i1))         # carries its own start index
        claims.append(z3.BoolVal(list(t[2:2 + len(extra_args)]) == list(extra_args)))
        cur = i2
    claims.append(L(cur == lo + n))          # covers exactly the requested range
    sink.check(path, tag + "cover", core.SB(z3.And(claims)), site="batch_tasks",
               describe=lambda m: _model(m, n, lo, nb, mode))


def _model(m, n, lo, nb, mode):
    out = {"n_tasks": int(core.model_value(m, n)), "start_idx": int(core.model_value(m, lo)) if core.is_sym(lo) else int(lo),
           "n_batches": nb, "mode": mode}
    try:
        v = m.eval(z3.Int("start_idx_before"), model_completion=False)
        if z3.is_int_value(v):
            out["start_idx_before"] = v.as_long()
    except Exception:
        pass
    return out


def run_shape(shape, tier):
    res = new_result(shape)
    sink = VCSink(res, PROPERTY)
    if shape["fn"] == "batch_tasks":
        st = stack.Stack(load=("utils",))
        nb, mode = shape["n_batches"], shape["mode"]
        A1, A2 = object(), "file.hdf5"

        def harness_carr():
            n, lo = shape["n"], shape["lo"]
            cells = [core.integer("a_%d" % i) for i in range(lo + n)]
            arr = symnp.SymArray(symnp._obj(cells), symnp._I8)
            return n, lo, st.utils.batch_tasks(n, nb, arr=arr, args=(A1, A2), start_idx=lo), cells
        if mode == "carr":
            ex = core.Explorer(max_paths=200)
            twin = False
            for path in ex.paths(harness_carr):
                if path.raised is not None:
                    res["candidates"].append({"vc": "C16.no_exception", "site": "batch_tasks", "shape": shape,
                                              "model": {"n_tasks": shape["n"], "start_idx": shape["lo"], "n_batches": nb, "mode": "arr"}, "detail": repr(path.raised)})
                    continue
                n, lo, tasks, cells = path.result
                flat, ok = [], True
                cur = lo
                for t in tasks:
                    head = t[0]
                    if not isinstance(head, symnp.SymArray) or len(head.a) == 0:
                        ok = False
                        break
                    if core.is_sym(t[1]) or t[1] != cur or list(t[2:4]) != [A1, A2]:
                        ok = False
                    flat.extend(list(head.a))
                    cur += len(head.a)
                ok = ok and len(flat) == n and all(a is b for a, b in zip(flat, cells[lo:lo + n]))
                sink.check(path, "bt.array_slices", core.SB(z3.BoolVal(bool(ok))), site="batch_tasks",
                           describe=lambda m: {"n_tasks": shape["n"], "start_idx": shape["lo"], "n_batches": nb, "mode": "arr"})
                r, _, _ = path.check(core.SB(z3.BoolVal(False)))
                twin = twin or r == "sat"
            res["twin_ok"] = twin
            fill_explorer(res, ex)
            if shape["n"] == 1 and nb == 1:
                res["witnesses"].append({"vc": "witness", "site": "batch_tasks.sweep", "shape": shape, "model": {"sweep": True}, "witness": True, "always": True})
            return res

        def harness():
            n = core.integer("n_tasks")
            lo = core.integer("start_idx")
            core.assume(n >= 1)
            core.assume(lo >= 0)
            arr = _Seq() if mode == "arr" else None
            if arr is not None:
                core.assume(arr.n >= lo + n)          # the array holds at least the requested range (it may be longer)
            if shape.get("history"):
                core.assume(n <= 8)
                core.assume(lo <= 6)
                lo0 = core.integer("start_idx_before")
                core.assume(lo0 >= 0)
                core.assume(lo0 <= 6)
                st.utils.batch_tasks(n, nb, arr=arr, args=(A1, A2), start_idx=lo0)
            tasks = st.utils.batch_tasks(n, nb, arr=arr, args=(A1, A2), start_idx=lo)
            return n, lo, tasks

        ex = core.Explorer(max_paths=2000)
        twin = False
        for path in ex.paths(harness):
            if path.raised is not None:
                res["candidates"].append({"vc": "C16.no_exception", "site": "batch_tasks", "shape": shape,
                                          "model": _model_from_solver(path, nb, mode), "detail": repr(path.raised)})
                continue
            n, lo, tasks = path.result
            _spec_tasks(sink, path, tasks, lo, n, nb, mode, (A1, A2), "bt.")
            add_witness(res, path, lambda m: _model(m, n, lo, nb, mode), site="batch_tasks", limit=1)
            r, _, _ = path.check(core.SB(z3.BoolVal(False)))
            twin = twin or r == "sat"
        res["twin_ok"] = twin
    else:
        ex = _run_worker_shape(shape, res, sink)
    fill_explorer(res, ex)
    return res


def _model_from_solver(path, nb, mode):
    s = path.solver
    if core.guarded_check(s, 30) == z3.sat:
        m = s.model()
        return {"n_tasks": int(core.model_value(m, z3.Int("n_tasks"))), "start_idx": int(core.model_value(m, z3.Int("start_idx"))),
                "n_batches": nb, "mode": mode}
    return {}


class _SymSizeTable:
    def __init__(self, n):
        self.shape = (n,)


def _run_worker_shape(shape, res, sink):
    w = env.World()
    st = stack.Stack(world=w, load=("utils", "samples", "multiproc_helpers"))
    mp = st.multiproc_helpers
    src, nb, psize = shape["src"], shape["n_batches"], shape["pool_size"]

    def harness():
        w.reset()
        N = core.integer("N_file")
        core.assume(N >= 1)
        # a pytables file whose row count is symbolic
        fm = env.FileModel("lib.hdf5", user=True)
        w.files["lib.hdf5"] = fm
        real_open = st.shims["tables"].open_file

        class F:
            def __enter__(s): return s
            def __exit__(s, *a): return False
            class root:
                def __class_getitem__(cls, k): return _SymSizeTable(N)
        st.shims["tables"].open_file = lambda p, mode="r": F()
        try:
            seen = []

            def worker(task):
                seen.append(task)
                return ("res", len(seen) - 1, task)
            pool = env.Pool(w, size=psize, order="reversed")
            rng = env.SymRng(w)
            kw = {}
            n = N
            if src == "n_prior":
                k = core.integer("n_prior")
                core.assume(k >= 1)
                core.assume(k <= 8)
                kw["n_prior_samples"] = k
                n = k
            elif src == "idx":
                L = core.fork_int(_len_sym(), 1, 6)
                cells = [core.integer("idx%d" % i) for i in range(L)]
                for c in cells:
                    core.assume(c >= 0)
                    core.assume(c <= 40)
                idx = symnp.SymArray(symnp._obj(cells), symnp._I8)
                kw["samples_idx"] = idx
                n = L
            results = mp.run_worker(worker, pool, "lib.hdf5", task_args=("lib.hdf5", "HELPER"), n_batches=nb, rng=rng, **kw)
            return n, results, seen, kw
        finally:
            st.shims["tables"].open_file = real_open

    ex = core.Explorer(max_paths=5000)
    twin = False
    for path in ex.paths(harness):
        if path.raised is not None:
            res["candidates"].append({"vc": "C16.rw.no_exception", "site": "run_worker", "shape": shape, "model": {}, "detail": repr(path.raised)})
            continue
        n, results, seen, kw = path.result
        eff_nb = nb if nb is not None else max(1, psize)
        tasks = [r[2] for r in results]
        # results come back in task order although the pool ran the workers in reverse
        order_ok = all(r[0] == "res" for r in results) and [r[1] for r in results] == list(range(len(results)))[::-1]
        sink.check(path, "rw.order", core.SB(z3.BoolVal(order_ok)), site="run_worker")
        if src == "idx":
            idx = kw["samples_idx"]
            # slices of the index array, in order, concatenating to the array itself
            flat = []
            heads_ok = all(isinstance(t[0], symnp.SymArray) for t in tasks)      # slices of the index array itself
            for t in tasks:
                flat.extend(list(t[0].a) if isinstance(t[0], symnp.SymArray) else [None])
            same = heads_ok and len(flat) == len(idx) and all(a is b or (core.is_sym(a) and core.is_sym(b) and z3.eq(a.e, b.e)) for a, b in zip(flat, idx.a))
            nonempty = heads_ok and all(len(t[0]) > 0 for t in tasks)
            sink.check(path, "rw.idx_cover", core.SB(z3.BoolVal(same and nonempty)), site="run_worker",
                       describe=lambda m: {"rw_idx": [int(core.model_value(m, c)) for c in idx.a], "n_batches": nb, "pool_size": psize},
                       # counterexample models: distinct row numbers in a non-monotone order, as the shuffled samplers pass them
                       prefer=([z3.Distinct(*[core.lift(c) for c in idx.a])] if len(idx.a) > 1 else []) +
                              [core.lift(idx.a[i]) > core.lift(idx.a[i + 1]) for i in range(0, len(idx.a) - 1, 2)] +
                              [core.lift(idx.a[i]) < core.lift(idx.a[i + 1]) for i in range(1, len(idx.a) - 1, 2)])
        else:
            _spec_tasks(sink, path, tasks, 0, n, eff_nb, "idx", ("lib.hdf5", "HELPER"), "rw.")
        # every task got its own child generator, pairwise distinct streams, spawned from the parent
        keys = [t[-1].key for t in tasks if isinstance(t[-1], env.SymRng)]
        sink.check(path, "rw.child_rng", core.SB(z3.BoolVal(len(keys) == len(tasks) and len(set(keys)) == len(keys)
                                                         and all(k[:1] == ("root",) and len(k) == 2 for k in keys))), site="run_worker")
        r, _, _ = path.check(core.SB(z3.BoolVal(False)))
        twin = twin or r == "sat"
    res["twin_ok"] = twin
    return ex


def _len_sym():
    L = core.integer("len_idx")
    core.assume(L >= 1)
    core.assume(L <= 6)
    return L


# ---------------------------------------------------------------------------------------------
# replay on the real build (plain-Python oracle written from the property statement)
# ---------------------------------------------------------------------------------------------

def _replay_run_worker(m):
    import tempfile, shutil
    import numpy as np
    import astropy.units as u
    from thejoker.samples import JokerSamples
    from thejoker.multiproc_helpers import run_worker
    idx = np.array(m["rw_idx"], dtype=int)
    # distinct, non-negative indices are what callers pass (rng.choice without replacement); shift the model into that domain
    d = tempfile.mkdtemp(prefix="verif_c16_")
    try:
        nrows = int(max(idx.max() + 1, 1)) if len(idx) else 1
        s = JokerSamples()
        s["P"] = np.arange(1, nrows + 1) * u.day
        fn = os.path.join(d, "lib.hdf5")
        s.write(fn, overwrite=True)

        class P:
            size = m["pool_size"]
            def map(self, f, tasks): return [f(t) for t in tasks]
            def close(self): pass
        got = run_worker(lambda task: task, P(), fn, task_args=("x",), n_batches=m["n_batches"], samples_idx=idx)
        flat = [int(v) for t in got for v in np.atleast_1d(t[0])]
        ok = flat == [int(v) for v in idx] and all(len(np.atleast_1d(t[0])) > 0 for t in got)
        return {"reproduced": not ok, "detail": "run_worker(samples_idx=%s, n_batches=%s, pool.size=%s) handed out %s" % (idx.tolist(), m["n_batches"], m["pool_size"], flat)}
    finally:
        shutil.rmtree(d, ignore_errors=True)


def _sweep():
    """the real batch_tasks on every (n_tasks <= 640, n_batches <= 24, a few start indices; index and array mode) against the
    property written as plain Python -- a conformance run on the real build (floats and all), attached as a witness replay"""
    from thejoker.utils import batch_tasks
    bad = []
    for nb in range(1, 25):
        for n in range(1, 641):
            for lo in (0, 3):
                for arr in (None, list(range(lo + n))):
                    try:
                        tasks = batch_tasks(n, nb, arr=arr, args=None, start_idx=lo)
                    except Exception as e:
                        bad.append("batch_tasks(%d, %d, start_idx=%d) raised %r" % (n, nb, lo, e))
                        continue
                    cur = lo
                    ok = True
                    for t_ in tasks:
                        if arr is None:
                            i1, i2 = t_[0]
                        else:
                            sl = list(t_[0])
                            i1, i2 = (sl[0], sl[-1] + 1) if sl else (cur, cur)
                            ok = ok and sl == arr[cur:cur + len(sl)]
                        ok = ok and i1 == cur and i2 > i1 and t_[1] == cur
                        cur = i2
                    if not (ok and cur == lo + n):
                        bad.append("batch_tasks(n_tasks=%d, n_batches=%d, start_idx=%d, %s): batches are not the consecutive non-empty cover of the range" % (n, nb, lo, "array" if arr is not None else "indices"))
                if len(bad) > 3:
                    return bad
    return bad


def replay(cand):
    m = cand.get("model") or {}
    if m.get("sweep"):
        bad = _sweep()
        return {"reproduced": bool(bad), "detail": "; ".join(bad[:3]) or "real batch_tasks conforms on the sweep"}
    if "rw_idx" in m:
        if any(v < 0 for v in m["rw_idx"]):
            return {"reproduced": False, "detail": "model uses negative indices"}
        return _replay_run_worker(m)
    if "n_tasks" not in m:
        return {"reproduced": False, "detail": "no concrete input in candidate"}
    from thejoker.utils import batch_tasks
    n, nb, lo, mode = m["n_tasks"], m["n_batches"], m["start_idx"], m["mode"]
    arr = list(range(1000, 1000 + lo + n + 3)) if mode == "arr" else None
    if mode == "arr" and lo + n > 100000:
        return {"reproduced": False, "detail": "model too large to realise as an array"}
    try:
        if cand["shape"].get("history"):
            # the shape's call history: the same split was requested before with another start index
            for lo0 in ([m["start_idx_before"]] if "start_idx_before" in m else []) + [3, 0]:
                batch_tasks(n, nb, arr=(list(range(1000, 1000 + lo0 + n + 3)) if mode == "arr" else None), args=("a", "b"), start_idx=lo0)
        tasks = batch_tasks(n, nb, arr=arr, args=("a", "b"), start_idx=lo)
    except Exception as e:
        return {"reproduced": True, "detail": "batch_tasks(%d,%d,start_idx=%d) raised %r" % (n, nb, lo, e)}
    bad = []
    cur = lo
    if len(tasks) != (nb if n >= nb else 1):
        bad.append("number of batches %d" % len(tasks))
    for t in tasks:
        if mode == "arr":
            sl = list(t[0])
            if sl != arr[cur:cur + len(sl)] or len(sl) == 0:
                bad.append("batch %r is not the next non-empty slice at %d" % (sl[:5], cur))
            nxt = cur + len(sl)
        else:
            i1, i2 = t[0]
            if i1 != cur or i2 <= i1:
                bad.append("batch (%d,%d) does not continue at %d / is empty" % (i1, i2, cur))
            nxt = i2
        if t[1] != cur:
            bad.append("task start field %r != %d" % (t[1], cur))
        if list(t[2:]) != ["a", "b"]:
            bad.append("args not carried")
        cur = nxt
    if cur != lo + n:
        bad.append("covered up to %d, expected %d" % (cur, lo + n))
    return {"reproduced": bool(bad), "detail": "batch_tasks(n_tasks=%d, n_batches=%d, start_idx=%d, mode=%s): %s" % (n, nb, lo, mode, "; ".join(bad[:4]) or "ok")}


# ---------------------------------------------------------------------------------------------
# cross-check (thorough): CrossHair on the real, normally imported thejoker.utils.batch_tasks
# ---------------------------------------------------------------------------------------------

_CH_SRC = '''
from thejoker.utils import batch_tasks

def check_cover(n_tasks: int, n_batches: int, start_idx: int) -> bool:
    """
    pre: 1 <= n_tasks <= 14
    pre: 1 <= n_batches <= 16
    pre: 0 <= start_idx <= 5
    post: _
    """
    tasks = batch_tasks(n_tasks, n_batches, start_idx=start_idx)
    cur = start_idx
    for (i1, i2), sid in tasks:
        if i1 != cur or i2 <= i1 or sid != i1:
            return False
        cur = i2
    return cur == start_idx + n_tasks

def twin_must_fail(n_tasks: int, n_batches: int) -> bool:
    """
    pre: 1 <= n_tasks <= 14
    pre: 1 <= n_batches <= 16
    post: _
    """
    tasks = batch_tasks(n_tasks, n_batches)
    return len(tasks) != 3
'''


def extras(tier):
    return [{"extra": "crosshair"}] if tier == "thorough" else []


def extra_run(arg, tier):
    from symx import crosshair_bridge
    res = new_result(arg)
    out = crosshair_bridge.run(_CH_SRC, timeout=120)
    res["notes"].append("crosshair: " + "; ".join("%s=%s" % kv for kv in sorted(out["verdicts"].items())))
    res["vcs"] += 1
    res["nontrivial"] += 1
    v = out["verdicts"]
    if v.get("check_cover") == "confirmed" and v.get("twin_must_fail") == "counterexample":
        res["unsat"] += 1
        res["twin_ok"] = True
        res["samples"].append({"vc": "C16.crosshair.check_cover", "result": "Confirmed over all paths", "bounds": "n_tasks<=14, n_batches<=16, start_idx<=5"})
    elif v.get("check_cover") == "counterexample":
        res["candidates"].append({"vc": "C16.crosshair.cover", "site": "batch_tasks", "shape": arg, "model": out.get("models", {}).get("check_cover", {}), "detail": out["raw"][-500:]})
    else:
        res["unknown"].append({"vc": "C16.crosshair.cover", "shape": arg, "decisions": out["raw"][-300:]})
    return res
