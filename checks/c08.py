"""C08 -- multi-survey data keep every observation tied to its own survey offset.

Real code executed symbolically (current tree): data_helpers.validate_prepare_data (list and dict
branches), data.RVData.__init__ (sorting of each source and of the merged set),
likelihood_helpers.get_constant_term_design_matrix / get_trend_design_matrix.
Symbolic: every time, velocity and error of every survey (so: disjoint, interleaved and identical
epochs are all covered), ANY sorting permutation numpy's argsort may return (stable where the code
asks for a stable sort).  Concrete per shape: number of surveys and their sizes, list / dict input
(dict keys in any insertion order), poly_trend, per-survey velocity unit (km/s or m/s).
"""
import itertools
from fractions import Fraction

from symx import core, stack, symnp, units
from symx.core import z3
from symx.framework import new_result, VCSink, fill_explorer, add_witness

PROPERTY = "C08"
LEVEL = "model_checking"
FUNCTIONS = [("thejoker/data_helpers.py", "validate_prepare_data"), ("thejoker/data.py", "RVData.__init__"),
             ("thejoker/likelihood_helpers.py", "get_constant_term_design_matrix"), ("thejoker/likelihood_helpers.py", "get_trend_design_matrix")]
ASSUMPTIONS = [
    "numpy argsort: the stable sorting permutation (numpy's default introsort is an insertion sort below 16 elements, and all shapes are smaller; kind='stable' likewise); np.unique: sorted distinct values; concatenate/boolean-mask assignment/vander/hstack by their documented semantics",
    "velocities are used as pairwise-distinct labels to identify observations (no code under test branches on a velocity)",
    "all input cells finite; sources without covariance matrices (a covariance source must raise: asserted in C18)",
    "bounds: <= 3 surveys, <= 4 epochs in total (quick), <= 3 surveys of <= 3 epochs with total <= 6 (thorough); poly_trend <= 3; plus one shape of 11 (12) single-epoch surveys with epochs increasing in input order",
]


def bounds(tier):
    return {"surveys": [1, 3], "epochs_per_survey": [1, 2 if tier == "quick" else 3], "input": ["list", "dict (any key order)"],
            "poly_trend": [1, 3], "units": ["km/s", "m/s per survey"]}


def shapes(tier):
    out = []
    if tier == "quick":
        sizes = [(1, 1), (1, 2), (2, 1), (2, 2), (1, 1, 1), (1, 2, 1)]
    else:
        sizes = [(1, 1), (1, 2), (2, 1), (2, 2), (3, 2), (2, 3), (3, 3), (1, 1, 1), (2, 1, 1), (1, 2, 2), (2, 2, 2), (1, 3, 2)]
    for sz in sizes:
        for kind in ("list", "dict", "dict_rev"):
            out.append({"sizes": list(sz), "input": kind, "poly_trend": 1 + (sum(sz) + len(kind)) % 3, "mixed_units": kind != "list"})
    # labels whose numeric and textual orders differ: integer dict keys of different widths, and > 10 list sources
    out.append({"sizes": [1, 2, 1], "input": "dict_int", "poly_trend": 1, "mixed_units": False})
    out.append({"sizes": [1] * (11 if tier == "quick" else 12), "input": "list", "poly_trend": 1, "mixed_units": False, "ordered": True})
    # a survey may quote its uncertainties in another (equivalent) unit than its velocities
    out.append({"sizes": [1, 2], "input": "list", "poly_trend": 1, "mixed_units": False, "err_unit_differs": True})
    out.append({"sizes": [2, 1], "input": "dict", "poly_trend": 2, "mixed_units": True, "err_unit_differs": True})
    out.append({"sizes": [2], "input": "single", "poly_trend": 2, "mixed_units": False})
    out.append({"sizes": [3], "input": "single", "poly_trend": 3, "mixed_units": False})
    return out


_KEYS = {"list": None, "dict": ["apogee", "lamost", "zgaia"], "dict_rev": ["zeta", "mid", "alpha"], "dict_int": [10, 9, 100]}


def _err_unit(shape, k, un, U):
    """unit in which survey k quotes its uncertainties (shape 'err_unit_differs': not the unit of its velocities)"""
    if not shape.get("err_unit_differs"):
        return un
    kms, ms = U.km / U.s, U.m / U.s
    return ms if (k % 2 == 0) == (un == kms or un is kms) else kms


def _mk(shape, st, RVData):
    srcs = []
    cells = []
    for k, n in enumerate(shape["sizes"]):
        t = [core.real("t_%d_%d" % (k, j)) for j in range(n)]
        rv = [core.real("rv_%d_%d" % (k, j)) for j in range(n)]
        err = [core.real("err_%d_%d" % (k, j)) for j in range(n)]
        for e in err:
            core.assume(e > 0)
        un = units.m / units.s if (shape["mixed_units"] and k % 2 == 1) else units.km / units.s
        d = RVData(symnp.SymArray(symnp._obj(t), symnp._F8), units.Quantity(symnp.SymArray(symnp._obj(rv), symnp._F8), un),
                   units.Quantity(symnp.SymArray(symnp._obj(err), symnp._F8), _err_unit(shape, k, un, units)))
        srcs.append(d)
        cells.append((t, rv, err, un))
    if shape.get("ordered"):
        # many small surveys: epochs strictly increasing across the sources in input order (one sorting permutation)
        flat = [x for c in cells for x in c[0]]
        for a, b in zip(flat, flat[1:]):
            core.assume(a < b)
    return srcs, cells


def run_shape(shape, tier):
    res = new_result(shape)
    sink = VCSink(res, PROPERTY)
    st = stack.Stack(load=("prior_helpers", "likelihood_helpers"))
    st.load("data_helpers")
    st.load("data")
    # data_helpers imports RVData lazily from .data: make sure it resolves to the shim-loaded module
    RVData = st.data.RVData
    vpd = st.data_helpers.validate_prepare_data
    # numpy's default (intro)sort handles fewer than 16 elements by insertion sort, i.e. stably; every shape here is
    # smaller, so equal epochs keep their input order exactly as they do on the real build
    symnp.DEFAULT_SORT_STABLE = True
    K = len(shape["sizes"])
    ptrend = shape["poly_trend"]

    state = {}

    def harness():
        srcs, cells = _mk(shape, st, RVData)
        state["cells"] = cells
        if shape["input"] == "single":
            data = srcs[0]
            keys = [0]
        elif shape["input"] == "list":
            data = list(srcs)
            keys = list(range(K))
        else:
            keys = _KEYS[shape["input"]][:K]
            data = {k: d for k, d in zip(keys, srcs)}
        all_data, ids, trend_M = vpd(data, ptrend, K - 1)
        return cells, keys, all_data, ids, trend_M

    ex = core.Explorer(max_paths=2000)
    twin = False
    for path in ex.paths(harness):
        core.Ctx.cur = path.ctx
        try:
            r, _, _ = path.check(core.SB(z3.BoolVal(False)))
            twin = twin or r == "sat"
            if path.raised is not None:
                d0 = _describe(shape, state["cells"])
                sink.check(path, "no_exception", core.SB(z3.BoolVal(False)), site="validate_prepare_data",
                           describe=lambda m: dict(d0(m), raised=repr(path.raised)[:300]))
                continue
            cells, keys, all_data, ids, trend_M = path.result
            _spec(sink, path, shape, cells, keys, all_data, ids, trend_M, res)
        finally:
            core.Ctx.cur = None
    res["twin_ok"] = twin
    fill_explorer(res, ex)
    return res


def _describe(shape, cells):
    def d(m):
        mv = lambda x: str(core.model_value(m, x))
        return {"t": [[mv(x) for x in c[0]] for c in cells], "rv": [[mv(x) for x in c[1]] for c in cells],
                "err": [[mv(x) for x in c[2]] for c in cells]}
    return d


def _spec(sink, path, shape, cells, keys, all_data, ids, trend_M, res):
    L = core.lift
    K = len(cells)
    ntot = sum(shape["sizes"])
    desc = _describe(shape, cells)
    t_out = all_data._t_bmjd.a if isinstance(all_data._t_bmjd, symnp.SymArray) else None
    rv_out = all_data.rv.value.a
    err_out = all_data.rv_err.value.a
    out_unit = all_data.rv.unit
    ids_c = list(ids.a) if isinstance(ids, symnp.SymArray) else list(ids)
    M = trend_M.a if isinstance(trend_M, symnp.SymArray) else None
    n_off = K - 1
    ok_struct = t_out is not None and len(t_out) == ntot and len(rv_out) == ntot and len(ids_c) == ntot and M is not None and M.shape == (ntot, 1 + n_off + shape["poly_trend"] - 1)
    sink.check(path, "structure", core.SB(z3.BoolVal(bool(ok_struct))), site="validate_prepare_data", describe=desc)
    if not ok_struct:
        return
    # physical value of observation (k, j) in the merged unit
    obs = []
    for k, (t, rv, err, un) in enumerate(cells):
        f = un.to(out_unit)
        fe = _err_unit(shape, k, un, units).to(out_unit)
        for j in range(len(t)):
            obs.append((k, t[j], rv[j] * f, err[j] * fe))
    distinct = z3.Distinct(*[L(o[2]) for o in obs]) if len(obs) > 1 else z3.BoolVal(True)
    # (1) merged set = union, triples intact
    cl = []
    for r in range(ntot):
        cl.append(z3.Or([z3.And(L(t_out[r]) == L(o[1]), L(rv_out[r]) == L(o[2]), L(err_out[r]) == L(o[3])) for o in obs]))
    for o in obs:
        cl.append(z3.Or([z3.And(L(t_out[r]) == L(o[1]), L(rv_out[r]) == L(o[2]), L(err_out[r]) == L(o[3])) for r in range(ntot)]))
    cl.append(z3.And([L(t_out[r]) <= L(t_out[r + 1]) for r in range(ntot - 1)]) if ntot > 1 else z3.BoolVal(True))
    sink.check(path, "union", core.SB(z3.Implies(distinct, z3.And(cl))), site="validate_prepare_data", describe=desc)
    # mask of the recorded finding "ids stay in concatenation order": it cannot manifest when the surveys do not
    # interleave in time (every epoch of source k not after any epoch of source k+1, in input order; equal boundary epochs allowed)
    blocks = [c[0] for c in cells]
    noninter = z3.And([L(a) <= L(b) for k in range(K - 1) for a in blocks[k] for b in blocks[k + 1]]) if K > 1 else z3.BoolVal(True)

    def masked_check(name, claim, site):
        """first under the mask (any failure there is a NEW violation), then unrestricted (site tagged |interleaved)"""
        r = sink.check(path, name + "[non-interleaved]", core.SB(z3.Implies(noninter, claim)), site=site, describe=desc)
        if r == "unsat":
            sink.check(path, name, core.SB(claim), site=site + "|interleaved", describe=desc)
    # (2) ids[r] is the label of the survey the observation in row r came from
    if shape["input"] != "single":
        cl = []
        for r in range(ntot):
            for o in obs:
                eq = ids_c[r] == keys[o[0]]
                cl.append(z3.Implies(L(rv_out[r]) == L(o[2]), L(eq) if core.is_sym(eq) else z3.BoolVal(bool(eq))))
        masked_check("ids", z3.Implies(distinct, z3.And(cl)), "validate_prepare_data.ids")
    # (3) design matrix: column 0 all ones; offset column c (1..K-1) is 1 exactly on the rows of ONE survey,
    #     different columns <-> different surveys, exactly one survey (the reference) has no column;
    #     list input: source 0 is the reference and source k gets column k (dv0_k)
    col_of = {}
    if shape["input"] == "list":
        col_of = {k: (k if k >= 1 else None) for k in range(K)}
    elif shape["input"] in ("dict", "dict_rev", "dict_int"):
        # any fixed one-to-one assignment is fine; the code's is by sorted key (np.unique)
        order = sorted(range(K), key=lambda k: keys[k])
        col_of = {k: (order.index(k) if order.index(k) >= 1 else None) for k in range(K)}
    else:
        col_of = {0: None}
    cl = []
    for r in range(ntot):
        cl.append(L(M[r, 0]) == 1)
        for o in obs:
            for c in range(1, K):
                want = 1 if col_of[o[0]] == c else 0
                cl.append(z3.Implies(L(rv_out[r]) == L(o[2]), L(M[r, c]) == want))
    masked_check("offset_columns", z3.Implies(distinct, z3.And(cl)), "design_matrix")
    # (4) trend columns are powers of (t - t_ref), t_ref = earliest time of the merged data
    tr = all_data._t_ref_bmjd
    cl = [z3.And([L(tr) <= L(x) for x in t_out] + [z3.Or([L(tr) == L(x) for x in t_out])])]
    for r in range(ntot):
        dt = t_out[r] - tr
        p = dt
        for q in range(1, shape["poly_trend"]):
            cl.append(L(M[r, K - 1 + q]) == L(p))
            p = p * dt
    sink.check(path, "trend_columns", core.SB(z3.And(cl)), site="design_matrix", describe=desc)
    add_witness(res, path, desc, site="validate_prepare_data", limit=1)


def replay(cand):
    import numpy as np
    import astropy.units as u
    from thejoker.data import RVData
    from thejoker.data_helpers import validate_prepare_data
    m = cand.get("model") or {}
    shape = cand["shape"]
    if "t" not in m:
        return {"reproduced": False, "detail": "no concrete input"}
    f = lambda x: float(Fraction(x))
    K = len(shape["sizes"])
    srcs, obs = [], []
    for k in range(K):
        t = np.array([f(x) for x in m["t"][k]]) + 56000.0
        rv = np.array([f(x) for x in m["rv"][k]])
        err = np.array([abs(f(x)) or 1.0 for x in m["err"][k]])
        un = u.m / u.s if (shape["mixed_units"] and k % 2 == 1) else u.km / u.s
        eun = _err_unit(shape, k, un, u)
        srcs.append(RVData(t, rv * un, err * eun))
        for j in range(len(t)):
            obs.append((k, t[j], (rv[j] * un).to_value(u.km / u.s) if True else rv[j], (err[j] * eun).to_value(u.km / u.s)))
    labels = [o[2] for o in obs]
    if len(set(np.round(labels, 12))) != len(labels):
        # rows cannot be told apart by velocity: what can still be judged is the union's size and the per-survey counts,
        # on the model's input and on two surveys that share one bit-identical visit at their common boundary epoch
        if shape["input"] == "single":
            return {"reproduced": False, "detail": "model velocities are not distinct labels"}
        bad = []
        keys = list(range(K)) if shape["input"] == "list" else _KEYS[shape["input"]][:K]
        twin = [RVData(np.array([1.0, 2.0, 3.0]) + 56000.0, np.array([5.0, 6.0, 7.0]) * u.km / u.s, np.array([0.1, 0.2, 0.3]) * u.km / u.s),
                RVData(np.array([3.0, 4.0, 5.0]) + 56000.0, np.array([7.0, 8.0, 9.0]) * u.km / u.s, np.array([0.3, 0.4, 0.5]) * u.km / u.s)]
        for what, ss, kk in (("the model's input", srcs, keys), ("two surveys sharing one identical visit", twin, keys[:2] if len(keys) >= 2 else [0, 1])):
            dd = list(ss) if shape["input"] == "list" else {k_: d_ for k_, d_ in zip(kk, ss)}
            try:
                ad, ids_, M_ = validate_prepare_data(dd, 1, len(ss) - 1)
            except Exception as e:
                bad.append("%s: validate_prepare_data raised %s: %s" % (what, type(e).__name__, str(e)[:150]))
                continue
            want = sorted(len(d_) for d_ in ss)
            got = sorted(int(np.sum(np.asarray(ids_) == k_)) for k_ in (range(len(ss)) if shape["input"] == "list" else kk))
            if len(ad) != sum(want) or got != want:
                bad.append("%s: merged data hold %d observations with per-survey counts %s; the inputs hold %s" % (what, len(ad), got, want))
        return {"reproduced": bool(bad), "detail": "; ".join(bad)[:900] or "model velocities are not distinct labels; union sizes agree"}
    if shape["input"] == "single":
        data, keys = srcs[0], [0]
    elif shape["input"] == "list":
        data, keys = list(srcs), list(range(K))
    else:
        keys = _KEYS[shape["input"]][:K]
        data = {k: d for k, d in zip(keys, srcs)}
    try:
        all_data, ids, M = validate_prepare_data(data, shape["poly_trend"], K - 1)
    except Exception as e:
        return {"reproduced": True, "detail": "validate_prepare_data raised %s: %s" % (type(e).__name__, str(e)[:200])}
    bad = []
    out_rv = all_data.rv.to_value(u.km / u.s)
    out_t = np.asarray(all_data._t_bmjd)
    out_err = all_data.rv_err.to_value(u.km / u.s)
    ntot = len(obs)
    if len(out_rv) != ntot or len(ids) != ntot or M.shape[0] != ntot:
        return {"reproduced": True, "detail": "merged sizes %d/%d/%s, expected %d" % (len(out_rv), len(ids), M.shape, ntot)}
    order = sorted(range(K), key=lambda k: keys[k])
    col_of = {k: (k if k >= 1 else None) for k in range(K)} if shape["input"] == "list" else {k: (order.index(k) or None) for k in range(K)}
    seen = set()
    for r in range(ntot):
        hit = [o for o in obs if np.isclose(o[2], out_rv[r], rtol=1e-12, atol=0)]
        if len(hit) != 1:
            bad.append("row %d is not one of the input observations" % r)
            continue
        o = hit[0]
        seen.add(o[2])
        if not (np.isclose(o[1], out_t[r], rtol=0, atol=1e-9) and np.isclose(o[3], out_err[r], rtol=1e-12)):
            bad.append("row %d: time/error do not belong to its velocity" % r)
        if shape["input"] != "single" and ids[r] != keys[o[0]]:
            bad.append("row %d (survey %r, t=%.3f) is labelled %r" % (r, keys[o[0]], out_t[r] - 56000, ids[r]))
        if M[r, 0] != 1.0:
            bad.append("row %d: v0 column is %r" % (r, M[r, 0]))
        for c in range(1, K):
            want = 1.0 if col_of[o[0]] == c else 0.0
            if M[r, c] != want:
                bad.append("row %d (survey %r): offset column %d is %r, expected %r" % (r, keys[o[0]], c, M[r, c], want))
    if len(seen) != ntot:
        bad.append("merged data are not the union of the inputs")
    if np.any(np.diff(out_t) < 0):
        bad.append("merged times not sorted")
    return {"reproduced": bool(bad), "detail": "; ".join(bad[:4])[:900] or "real build agrees with the property"}
