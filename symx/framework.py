"""symx.framework -- verdict protocol, evidence, known findings (DESIGN.md 2.7-2.9).

A check module (checks/cNN.py) provides
    PROPERTY        "C16"
    TITLE           short text
    FUNCTIONS       [(relpath, qualname), ...]   real code that is encoded (hashes go to evidence)
    ASSUMPTIONS     [str]        stubs / assumes / trusted base
    def shapes(tier) -> [shape dict]            concrete shape parameters (the stated bounds)
    def bounds(tier) -> dict                    human readable bounds for the evidence
    def run_shape(shape, tier) -> ShapeResult   symbolic exploration of one shape (see new_result())
    def replay(cand) -> {"reproduced": bool, "detail": str}   concrete run on the real build
    def extra(tier) -> [ShapeResult]            optional: cross-checks (CrossHair, conformance)
"""
import concurrent.futures as cf
import hashlib
import importlib
import json
import multiprocessing as mp
import os
import sys
import time
import traceback

VERIF = os.path.dirname(os.path.dirname(os.path.abspath(__file__)))
REPO = os.environ.get("VERIF_REPO", "/repo")
KNOWN = os.path.join(VERIF, "known_findings.json")


def new_result(shape):
    return {
        "shape": shape,
        "paths": 0, "aborted": 0, "capped": False, "cap_reason": None,
        "vcs": 0, "nontrivial": 0, "unsat": 0,
        "unknown": [],            # [{"vc":..., "detail":...}]
        "candidates": [],         # [{"vc":..., "site":..., "shape":..., "model":{...}, "detail":...}]
        "witnesses": [],          # concrete inputs (models of feasible paths) to be run on the real build: encoding validation
        "samples": [],            # a few written-out obligations
        "twin_ok": None,          # reachability twin came back sat?
        "conformance_runs": 0,    # concrete runs of shim vs real library / translator vs impl
        "solver_s": 0.0, "wall_s": 0.0,
        "feas_queries": 0, "vc_queries": 0,
        "error": None,            # harness error / unsupported -> inconclusive
        "notes": [],
    }


def fill_explorer(res, ex):
    res["paths"] += ex.n_paths
    res["aborted"] += ex.n_aborted
    if ex.capped:
        res["capped"] = True
        res["cap_reason"] = ex.cap_reason


class VCSink:
    """helper used by harnesses: discharges claims on a path and files the outcome"""

    def __init__(self, res, prop, max_samples=3):
        self.res, self.prop, self.max_samples = res, prop, max_samples

    def check(self, path, name, claim, axioms=(), site=None, describe=None, model_of=None, timeout_ms=None, prefer=(), isolated=False, guided_free=None, structural_claim=False):
        """name: VC id without the property prefix. describe(model)->dict builds the candidate's
        concrete input from the model."""
        from . import core as _core
        if isolated or _core.z3.is_false(_core.z3.simplify(_core.lift(claim))):
            # (a claim that is false outright only needs a model of the path condition)
            r, m, nontrivial = path.check_isolated(claim, axioms, timeout_ms or 30000, prefer)
        else:
            r, m, nontrivial = path.check(claim, axioms, timeout_ms, prefer)
        if r == "unknown" and guided_free is not None:
            r2, m2 = path.check_guided(claim, set(guided_free), prefer)
            if r2 == "sat":
                r, m = "sat", m2
        res = self.res
        res["vcs"] += 1
        structural = (not nontrivial) and r == "unsat" and (len(path.decisions) > 0 or structural_claim)
        if nontrivial or structural:
            res["nontrivial"] += 1
        if structural and len(res["samples"]) < self.max_samples:
            res["samples"].append({"shape": res["shape"], "vc": "%s.%s" % (self.prop, name), "result": "held (claim computed by the harness from the symbolic terms / effect log of this path, e.g. which symbols an output term mentions; %d solver-decided branches on the path)" % len(path.decisions),
                                   "decisions": _short(path.decisions)})
        vcid = "%s.%s" % (self.prop, name)
        if r == "unsat":
            res["unsat"] += 1
            if nontrivial and len(res["samples"]) < self.max_samples:
                from . import core
                neg = str(core.z3.simplify(core.z3.Not(core.lift(claim))))
                res["samples"].append({"shape": res["shape"], "vc": vcid, "result": "unsat",
                                       "decisions": _short(path.decisions),
                                       "negated_claim": neg[:400]})
        elif r == "sat":
            cand = {"vc": vcid, "site": site, "shape": res["shape"], "decisions": _short(path.decisions)}
            try:
                cand["model"] = describe(m) if describe else {}
            except Exception as e:  # pragma: no cover
                cand["model"] = {}
                cand["describe_error"] = repr(e)
            res["candidates"].append(cand)
        else:
            res["unknown"].append({"vc": vcid, "site": site, "shape": res["shape"], "decisions": _short(path.decisions)})
        return r


def add_witness(res, path, describe, vc="witness", site=None, limit=2, isolated=False, prefer=()):
    """a model of the path condition = a concrete input that drives the real code down this path;
    the framework replays a sample of them on the real build (must agree with the property's oracle)"""
    if len(res["witnesses"]) >= limit:
        return
    from . import core
    if isolated:
        # path condition only (side constraints such as LAPACK hypotheses make plain satisfiability hard for z3)
        s = core.z3.Solver()
        s.set("timeout", 20000)
        for c in path.pc:
            s.add(c)
        for c in prefer:
            s.add(c)
        if core.guarded_check(s, 25) != core.z3.sat:
            return
    else:
        s = path.solver
        if core.guarded_check(s, 30) != core.z3.sat:
            return
    try:
        res["witnesses"].append({"vc": vc, "site": site, "shape": res["shape"], "model": describe(s.model()), "witness": True})
    except Exception as e:  # pragma: no cover
        res["notes"].append("witness describe failed: %r" % (e,))


def _short(dec):
    return "".join("T" if d is True else "F" if d is False else "[%s]" % (d[1],) for d in dec)[:120]


def _watchdog(seconds):
    """last resort against a stuck native call: the worker process exits (the parent then reports a
    harness error for that shape -> inconclusive)"""
    import threading
    t = threading.Timer(seconds, lambda: os._exit(99))
    t.daemon = True
    t.start()
    return t


def _worker(modname, kind, arg, tier):
    os.environ.setdefault("PYTHONHASHSEED", "0")
    wd = _watchdog(float(os.environ.get("VERIF_SHAPE_WALL_S", "1500" if tier == "quick" else "5400")))
    try:
        return _worker_inner(modname, kind, arg, tier)
    finally:
        wd.cancel()


def _worker_inner(modname, kind, arg, tier):
    sys.path.insert(0, VERIF)
    t0 = time.time()
    try:
        mod = importlib.import_module(modname)
        if kind == "shape":
            from . import core
            core.reset_stats()
            seed = int(os.environ.get("VERIF_SEED", "0") or 0)
            core.z3.set_param("smt.random_seed", seed)
            core.z3.set_param("sat.random_seed", seed)
            core.DUMP.update(on=(tier == "thorough"), max=int(os.environ.get("VERIF_CROSSCHECK_PER_SHAPE", "5")), items=[])
            res = mod.run_shape(arg, tier)
            res["cross_solver"] = _cross_check(core.DUMP["items"]) if core.DUMP["items"] else {"posed": 0}
            core.DUMP.update(on=False, items=[])
            if res["cross_solver"].get("disagree"):
                res["error"] = "second solver (cvc5) answers sat on a VC z3 reported unsat: harness/solver error"
            res["solver_s"] = round(core.STATS["solver_s"], 3)
            res["feas_queries"] = core.STATS["feas_queries"]
            res["vc_queries"] = core.STATS["vc_queries"]
            if core.STATS["unknown_feas"]:
                res["notes"].append("feasibility queries answered unknown (treated as feasible): %d" % core.STATS["unknown_feas"])
        elif kind == "extra":
            res = mod.extra_run(arg, tier)
        elif kind == "replay":
            res = _replay_with_watchdog(mod, arg)
        else:
            raise ValueError(kind)
    except BaseException as e:
        if kind == "replay":
            res = {"reproduced": False, "error": "%s: %s" % (type(e).__name__, e), "detail": traceback.format_exc()[-1500:]}
        else:
            res = new_result(arg)
            res["error"] = "%s: %s\n%s" % (type(e).__name__, e, traceback.format_exc()[-1500:])
    if isinstance(res, dict) and "wall_s" in res:
        res["wall_s"] = round(time.time() - t0, 3)
    return res


class ReplayTimeout(BaseException):
    """a replay on the real build did not finish within VERIF_REPLAY_TIMEOUT seconds (e.g. changed code that loops or
    blocks for ever on the replayed input): reported as a replay error, i.e. inconclusive -- never as a pass"""


def _replay_with_watchdog(mod, arg):
    import signal
    limit = int(os.environ.get("VERIF_REPLAY_TIMEOUT", "600"))

    def on_alarm(signum, frame):
        raise ReplayTimeout("replay still running after %d s" % limit)
    try:
        old = signal.signal(signal.SIGALRM, on_alarm)
    except ValueError:              # not in the main thread: no watchdog available
        return mod.replay(arg)
    signal.alarm(limit)
    try:
        return mod.replay(arg)
    finally:
        signal.alarm(0)
        signal.signal(signal.SIGALRM, old)


def _cross_check(texts, tlimit_ms=8000):
    """re-decide dumped (unsat) VCs with cvc5; unknown there is ignored, sat is a disagreement"""
    out = {"posed": len(texts), "unsat": 0, "unknown": 0, "disagree": 0, "errors": 0}
    try:
        import cvc5
    except ImportError:
        out["errors"] = len(texts)
        return out
    for txt in texts:
        try:
            slv = cvc5.Solver()
            slv.setOption("tlimit-per", str(tlimit_ms))
            slv.setLogic("ALL")
            parser = cvc5.InputParser(slv)
            parser.setStringInput(cvc5.InputLanguage.SMT_LIB_2_6, txt, "vc")
            sm = parser.getSymbolManager()
            ans = None
            while True:
                cmd = parser.nextCommand()
                if cmd.isNull():
                    break
                o = cmd.invoke(slv, sm).strip()
                if o in ("sat", "unsat", "unknown"):
                    ans = o
            if ans == "unsat":
                out["unsat"] += 1
            elif ans == "sat":
                out["disagree"] += 1
            else:
                out["unknown"] += 1
        except Exception:
            out["errors"] += 1
    return out


def load_known(prop):
    if not os.path.exists(KNOWN):
        return []
    with open(KNOWN) as f:
        data = json.load(f)
    return [k for k in data.get("findings", []) if k.get("property") == prop]


def match_known(cand, known):
    for k in known:
        if k.get("status") != "recorded":
            continue   # a fixed entry suppresses nothing
        m = k.get("match", {})
        if m.get("vc") and not cand["vc"].startswith(m["vc"]):
            continue
        if m.get("site") and (cand.get("site") or "") != m["site"]:
            continue
        if m.get("site_suffix") and not (cand.get("site") or "").endswith(m["site_suffix"]):
            continue
        return k
    return None


def run_check(modname, tier, seed):
    t0 = time.time()
    mod = importlib.import_module(modname)
    prop = mod.PROPERTY
    shapes = list(mod.shapes(tier))
    extras = list(mod.extras(tier)) if hasattr(mod, "extras") else []
    jobs = [("shape", s) for s in shapes] + [("extra", x) for x in extras]
    nproc = int(os.environ.get("VERIF_JOBS", "0") or 0) or min(16, os.cpu_count() or 4)
    ctx = mp.get_context("spawn")
    results = []
    with cf.ProcessPoolExecutor(max_workers=min(nproc, max(1, len(jobs))), mp_context=ctx) as ex:
        futs = [ex.submit(_worker, modname, kind, arg, tier) for kind, arg in jobs]
        for (kind, arg), f in zip(jobs, futs):
            try:
                results.append(f.result())
            except Exception as e:   # a worker died (watchdog / out of memory): never reported as success
                r = new_result(arg)
                r["error"] = "worker process failed: %s: %s" % (type(e).__name__, e)
                results.append(r)

    known = load_known(prop)
    inconclusive = []
    for r in results:
        if r.get("error"):
            inconclusive.append("harness error in shape %s: %s" % (json.dumps(r["shape"], default=str), r["error"]))
        if r.get("capped"):
            inconclusive.append("cap hit in shape %s: %s" % (json.dumps(r["shape"], default=str), r.get("cap_reason")))
        for u in r.get("unknown", []):
            # an undecided VC at a site for which a finding is RECORDED only means "the known defect was not re-derived
            # in this shape" (its masked twin was proved); everywhere else unknown is inconclusive
            if match_known({"vc": u["vc"], "site": u.get("site")}, known) is not None:
                r.setdefault("notes", []).append("recorded finding not re-derived (solver unknown) for %s in one shape" % u["vc"])
                continue
            inconclusive.append("solver answered unknown for %s in shape %s" % (u["vc"], json.dumps(u["shape"], default=str)))
        if r.get("twin_ok") is False:
            inconclusive.append("reachability twin not sat (vacuous harness) in shape %s" % json.dumps(r["shape"], default=str))

    # candidates -> replay on the real build, grouped by signature
    groups = {}
    for r in results:
        for c in r.get("candidates", []):
            groups.setdefault((c["vc"], c.get("site")), []).append(c)
    violations, known_seen, spurious = [], [], []
    replays_run = 0
    max_replay = int(os.environ.get("VERIF_MAX_REPLAY", "4"))
    # witnesses: a deterministic sample of feasible-path models, replayed on the real build
    allw = [w for r in results for w in r.get("witnesses", []) if not w.get("always")]
    always = [w for r in results for w in r.get("witnesses", []) if w.get("always")]      # scenario / conformance replays that run every time
    n_w = int(os.environ.get("VERIF_WITNESSES", "8" if tier == "quick" else "24").replace("all", "100000"))
    if len(allw) > n_w:
        step = len(allw) / float(n_w)
        allw = [allw[int(((i + (seed % 7) / 7.0) * step)) % len(allw)] for i in range(n_w)]
    allw = always + allw
    witness_ok = 0
    with cf.ProcessPoolExecutor(max_workers=min(nproc, 8), mp_context=ctx) as ex:
        todo = []
        for sig, cands in groups.items():
            for c in cands[:max_replay]:
                todo.append((sig, c, ex.submit(_worker, modname, "replay", c, tier)))
        wtodo = [(w, ex.submit(_worker, modname, "replay", w, tier)) for w in allw]
        by_sig = {}
        for sig, c, fut in todo:
            rr = fut.result()
            replays_run += 1
            by_sig.setdefault(sig, []).append((c, rr))
        for w, fut in wtodo:
            rr = fut.result()
            if rr.get("reproduced"):
                # the real build violates the property's oracle on an input the encoding accepted
                sig = ("%s.witness" % prop, w.get("site"))
                by_sig.setdefault(sig, []).append((dict(w, vc=sig[0]), rr))
                groups.setdefault(sig, []).append(w)
            elif rr.get("error"):
                inconclusive.append("witness replay failed to run: %s" % rr["error"][:300])
            else:
                witness_ok += 1
    os.makedirs(os.path.join(VERIF, "replays"), exist_ok=True)
    for sig, lst in by_sig.items():
        repro = [(c, rr) for c, rr in lst if rr.get("reproduced")]
        if not repro:
            spurious.append({"vc": sig[0], "site": sig[1], "n": len(groups[sig]),
                             "replay": [rr.get("detail", rr.get("error", ""))[:300] for _, rr in lst][:2]})
            inconclusive.append("counterexample for %s (site %s) did not reproduce on the real build: %s" % (
                sig[0], sig[1], (lst[0][1].get("detail") or lst[0][1].get("error") or "")[:300]))
            continue
        c, rr = repro[0]
        k = match_known(c, known)
        if k is not None:
            if not any(ks["finding"] == k.get("id") for ks in known_seen):
                print("KNOWN-FINDING: property=%s %s [%s]" % (prop, k.get("what", k.get("id")), k.get("id")))
            known_seen.append({"finding": k.get("id"), "vc": sig[0], "site": sig[1], "n_candidates": len(groups[sig])})
            continue
        h = hashlib.sha256(json.dumps([sig, c.get("model")], sort_keys=True, default=str).encode()).hexdigest()[:10]
        rp = os.path.join(VERIF, "replays", "%s-%s.json" % (prop, h))
        with open(rp, "w") as f:
            json.dump({"property": prop, "check": modname, "candidate": c, "replay_result": rr}, f, indent=1, default=str)
        violations.append({"vc": sig[0], "site": sig[1], "replay": rp, "detail": rr.get("detail", "")[:500]})
        print("VIOLATION property=%s replay=%s" % (prop, rp))
        print("  vc=%s site=%s %s" % (sig[0], sig[1], rr.get("detail", "")[:300].replace("\n", " | ")))

    # evidence
    from . import loader
    funcs = []
    for rel, qn in getattr(mod, "FUNCTIONS", []):
        try:
            funcs.append({"file": rel, "name": qn, "sha256_16": loader.function_hash(rel, qn)})
        except Exception as e:
            funcs.append({"file": rel, "name": qn, "error": repr(e)})
    for qn in getattr(mod, "PYX_FUNCTIONS", []):
        funcs.append({"file": "thejoker/src/fast_likelihood.pyx", "name": qn, "sha256_16": _pyx_hash(qn), "via": "transliteration (symx.pyxfront)"})
    paths = sum(r.get("paths", 0) for r in results)
    vcs = sum(r.get("vcs", 0) for r in results)
    nontriv = sum(r.get("nontrivial", 0) for r in results)
    unsat = sum(r.get("unsat", 0) for r in results)
    samples = []
    for r in results:
        for s in r.get("samples", [])[:1]:
            if len(samples) < 6:
                samples.append(s)
    if not samples:
        samples = [{"note": "no non-trivial obligation was discharged in this run"}]
    conf = sum(r.get("conformance_runs", 0) for r in results)
    ev = {
        "property_id": prop,
        "tier": tier,
        "seed": seed,
        "level": getattr(mod, "LEVEL", "model_checking"),
        "coverage": {
            "states": paths,
            "transitions": unsat,
            "traces_validated_against_impl": replays_run + conf + witness_ok,
            "witness_replays_agreeing": witness_ok,
            "evaluations": vcs,
            "distinct_nontrivial": nontriv,
            "rule": "one evaluation = one verification condition (path condition AND NOT claim) decided by z3 over "
                    "symbolic inputs; states = feasible decision trails of the real code under the stated shape "
                    "bounds; non-trivial = the negated claim did not simplify to false syntactically, or it is a claim about "
                    "the effects/structure observed on a path that the solver had to select (>= 1 decided branch); distinct by "
                    "(shape, decision trail, VC id)",
            "samples": samples,
            "functions_encoded": funcs,
            "bounds": mod.bounds(tier) if hasattr(mod, "bounds") else {},
            "shapes": len(shapes),
            "paths": {"feasible": paths, "infeasible_or_aborted": sum(r.get("aborted", 0) for r in results),
                      "capped_shapes": sum(1 for r in results if r.get("capped"))},
            "queries": {"vc_unsat": unsat, "vc_sat": sum(len(r.get("candidates", [])) for r in results),
                        "vc_unknown": sum(len(r.get("unknown", [])) for r in results),
                        "feasibility": sum(r.get("feas_queries", 0) for r in results),
                        "solver_s": round(sum(r.get("solver_s", 0) for r in results), 2)},
            "second_solver_cvc5": {k: sum((r.get("cross_solver") or {}).get(k, 0) for r in results) for k in ("posed", "unsat", "unknown", "disagree", "errors")},
            "vacuity": {"reachability_twins_sat": sum(1 for r in results if r.get("twin_ok") is True),
                        "reachability_twins_failed": sum(1 for r in results if r.get("twin_ok") is False)},
            "replays_on_real_build": replays_run,
            "conformance_runs": conf,
            "known_findings_seen": known_seen,
            "spurious_counterexamples": spurious,
            "inconclusive": inconclusive[:20],
            "notes": sorted({n for r in results for n in r.get("notes", [])})[:20],
            "exhaustive": False,
        },
        "assumptions": list(getattr(mod, "ASSUMPTIONS", [])),
        "wall_s": round(time.time() - t0, 2),
        "violations": len(violations),
    }
    os.makedirs(os.path.join(VERIF, "evidence"), exist_ok=True)
    with open(os.path.join(VERIF, "evidence", prop + ".json"), "w") as f:
        json.dump(ev, f, indent=1, default=str)

    print("%s tier=%s shapes=%d paths=%d vcs=%d (non-trivial %d) unsat=%d sat-candidates=%d unknown=%d replays=%d wall=%.1fs" % (
        prop, tier, len(shapes), paths, vcs, nontriv, unsat, ev["coverage"]["queries"]["vc_sat"],
        ev["coverage"]["queries"]["vc_unknown"], replays_run, ev["wall_s"]))
    if violations:
        return 1
    if inconclusive:
        for m in inconclusive[:10]:
            print("INCONCLUSIVE: " + m.replace("\n", " | ")[:600])
        return 2
    return 0


def _pyx_hash(qualname):
    """hash of the source lines of one (c)def of the .pyx"""
    import re
    try:
        src = open(os.path.join(REPO, "thejoker/src/fast_likelihood.pyx")).read().split("\n")
    except OSError:
        return None
    name = qualname.split(".")[-1]
    out, ind = [], None
    for ln in src:
        if ind is None:
            m = re.match(r"^(\s*)c?p?def\s+(?:[\w\*]+\s+)?%s\(" % re.escape(name), ln)
            if m:
                ind = len(m.group(1))
                out.append(ln)
        else:
            if ln.strip() and (len(ln) - len(ln.lstrip())) <= ind and not ln.strip().startswith("#"):
                break
            out.append(ln)
    return hashlib.sha256("\n".join(out).encode()).hexdigest()[:16] if out else None


def main(argv=None):
    import argparse
    ap = argparse.ArgumentParser()
    ap.add_argument("property")
    ap.add_argument("--tier", default=os.environ.get("VERIF_TIER", "quick"), choices=["quick", "thorough"])
    ap.add_argument("--replay", default=None)
    a = ap.parse_args(argv)
    seed = int(os.environ.get("VERIF_SEED", "0") or 0)
    modname = "checks." + a.property.lower()
    sys.path.insert(0, VERIF)
    if a.replay:
        with open(a.replay) as f:
            data = json.load(f)
        mod = importlib.import_module(data.get("check", modname))
        rr = mod.replay(data["candidate"])
        print(json.dumps(rr, indent=1, default=str))
        if rr.get("reproduced"):
            print("VIOLATION property=%s replay=%s" % (a.property, a.replay))
            return 1
        return 0
    return run_check(modname, a.tier, seed)


if __name__ == "__main__":
    sys.exit(main())
