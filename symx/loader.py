"""symx.loader -- execute a source file of /repo (current working tree) under a shimmed import
environment (front-end F1 of DESIGN.md 2.2).

load(relpath, shims) reads the *current* file, compiles it with CPython and executes it in a fresh
namespace whose `__import__` returns shim modules for the names listed in `shims` and the real
modules for everything else.  Keys of `shims` are absolute dotted names ("numpy", "astropy.units",
"thejoker.samples", ...); relative imports are resolved against the package of the file first.
"""
import builtins
import hashlib
import os
import types

REPO = os.environ.get("VERIF_REPO", "/repo")

_real_import = builtins.__import__

LOADED = []  # (relpath, sha256) for evidence


class _Pkg(types.ModuleType):
    """synthetic package whose attributes are looked up in the shim table, then the real module"""

    def __init__(self, name, shims):
        super().__init__(name)
        self.__dict__["_shims"] = shims

    def __getattr__(self, attr):
        full = self.__name__ + "." + attr
        shims = self.__dict__["_shims"]
        if full in shims:
            return shims[full]
        if any(k.startswith(full + ".") for k in shims):
            return _Pkg(full, shims)
        real = _real_import(self.__name__, fromlist=[attr])
        return getattr(real, attr)


def make_import(package, shims):
    def imp(name, globals=None, locals=None, fromlist=(), level=0):
        if level > 0:
            base = package.rsplit(".", level - 1)[0] if level > 1 else package
            full = base + ("." + name if name else "")
        else:
            full = name
        if full in shims:
            if fromlist or level > 0:
                mod = shims[full]
                return mod
            top = full.split(".")[0]
            if top in shims and top == full:
                return shims[top]
            return _Pkg(top, shims)
        if level > 0 and not name:
            # "from . import x": build a namespace holding the shimmed siblings
            ns = types.SimpleNamespace()
            for f in fromlist:
                k = base + "." + f
                if k in shims:
                    setattr(ns, f, shims[k])
                else:
                    setattr(ns, f, _real_import(k, fromlist=["_"]))
            return ns
        if not fromlist and level == 0:
            top = full.split(".")[0]
            if any(k == top or k.startswith(top + ".") for k in shims):
                return shims[top] if top in shims else _Pkg(top, shims)
        if level > 0:
            return _real_import(full, globals, locals, fromlist or ("_",), 0)
        return _real_import(name, globals, locals, fromlist, level)
    return imp


def source_of(relpath):
    with open(os.path.join(REPO, relpath)) as f:
        return f.read()


def load(relpath, shims, modname=None, extra=None, transform=None):
    """-> module object holding the executed namespace of /repo/<relpath>"""
    path = os.path.join(REPO, relpath)
    src = source_of(relpath)
    sha = hashlib.sha256(src.encode()).hexdigest()
    LOADED.append((relpath, sha))
    if transform is not None:
        src = transform(src)
    if modname is None:
        modname = relpath[:-3].replace("/", ".")
    package = modname.rsplit(".", 1)[0] if "." in modname else ""
    b = dict(vars(builtins))
    b["__import__"] = make_import(package, shims)
    mod = types.ModuleType(modname)
    mod.__dict__.update({"__name__": modname, "__package__": package, "__file__": path,
                         "__builtins__": b})
    if extra:
        mod.__dict__.update(extra)
    exec(compile(src, path, "exec"), mod.__dict__)
    return mod


def function_hash(relpath, qualname):
    """sha256 of the source segment of a function (for the evidence file)"""
    import ast
    src = source_of(relpath)
    tree = ast.parse(src)
    parts = qualname.split(".")

    def find(body, parts):
        for node in body:
            if isinstance(node, (ast.FunctionDef, ast.ClassDef)) and node.name == parts[0]:
                if len(parts) == 1:
                    return node
                return find(node.body, parts[1:])
        return None
    node = find(tree.body, parts)
    if node is None:
        return None
    seg = ast.get_source_segment(src, node)
    return hashlib.sha256(seg.encode()).hexdigest()[:16]


class LoggerStub:
    def log(self, *a, **k): pass
    def debug(self, *a, **k): pass
    def info(self, *a, **k): pass
    def warning(self, *a, **k): pass
    warn = warning
    def error(self, *a, **k): pass


def logging_shim():
    m = types.ModuleType("thejoker.logging")
    m.logger = LoggerStub()
    return m


# ---------------------------------------------------------------------------------------------
# iteration order of sets = a schedule the code must not depend on (str hashes change with PYTHONHASHSEED)
# ---------------------------------------------------------------------------------------------

class AdvSet(set):
    """`set` for code under test: iterating it forks over the possible orders (all permutations up to 3 elements, the
    sorted and the reversed order beyond), so a result that depends on set iteration order shows up as a path
    whose observation differs.  Membership, len and algebra behave as for set; algebra returns AdvSet."""

    def __iter__(self):
        import itertools
        from . import core
        items = sorted(set.__iter__(self), key=repr)
        if core.Ctx.cur is None or len(items) < 2:
            return iter(items)
        orders = list(itertools.permutations(items)) if len(items) <= 3 else [tuple(items), tuple(reversed(items))]
        k = core.fresh("int", "set_order")
        core.assume(k >= 0)
        core.assume(k < len(orders))
        return iter(orders[core.fork_int(k)])


def _wrap(name):
    def f(self, *a, **k):
        r = getattr(set, name)(self, *a, **k)
        return AdvSet(r) if type(r) is set else r
    f.__name__ = name
    return f


for _n in ("__or__", "__and__", "__sub__", "__xor__", "__ror__", "__rand__", "__rsub__", "__rxor__", "union", "intersection", "difference",
           "symmetric_difference", "copy"):
    setattr(AdvSet, _n, _wrap(_n))


def adversarial_sets(src):
    """source transform: set displays / comprehensions become calls of the name `set` (which the loader binds to AdvSet)"""
    import ast

    class T(ast.NodeTransformer):
        def visit_Set(self, node):
            self.generic_visit(node)
            return ast.copy_location(ast.Call(func=ast.Name(id="set", ctx=ast.Load()), args=[ast.List(elts=node.elts, ctx=ast.Load())], keywords=[]), node)

        def visit_SetComp(self, node):
            self.generic_visit(node)
            return ast.copy_location(ast.Call(func=ast.Name(id="set", ctx=ast.Load()), args=[ast.ListComp(elt=node.elt, generators=node.generators)], keywords=[]), node)
    tree = T().visit(ast.parse(src))
    ast.fix_missing_locations(tree)
    return ast.unparse(tree)
