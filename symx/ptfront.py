"""symx.ptfront -- front-end F3: pytensor graphs built by the real code (pm.logp(...), distribution
parameters, the model setup_mcmc assembles) evaluated bottom-up on numpy object arrays of symx values.

The graphs are the IR the real code produces; they are regenerated on every run by calling the real
constructors.  Broadcasting, DimShuffle, Dot, Sum, MakeVector come from numpy itself; scalar ops map to
symx arithmetic (named reciprocals for division, uninterpreted LOG/EXP/POW/SQRT/SIN/COS/ARCTAN2/
GAMMALN, the exoplanet Kepler op as KSIN/KCOS); clip/switch/second/CheckParameterValue become ite.
A RandomVariable node that survives inside a graph is translated as a FRESH unconstrained value -- the
honest meaning "redrawn on every evaluation".  An unknown op ends the run as inconclusive.
"""
import numpy as np

from . import core
from .core import SN, SB, UnsupportedByShim, z3

NEG_INF = "-inf"


class NegInf:
    """the value -inf inside a log-density graph"""
    def __repr__(self):
        return "-inf"


def _l(x):
    """cell -> symx / python value"""
    if isinstance(x, (SN, SB, NegInf)):
        return x
    if isinstance(x, (bool, np.bool_)):
        return bool(x)
    if isinstance(x, (int, np.integer)):
        return int(x)
    if isinstance(x, (float, np.floating)):
        f = float(x)
        if f == float("-inf"):
            return NegInf()
        if f != f or f == float("inf"):
            raise UnsupportedByShim("non-finite constant %r in a pytensor graph" % f)
        return f
    return x


def _sym(x):
    x = _l(x)
    return x if isinstance(x, (SN, SB)) else (SN(core.lift(x)) if not isinstance(x, (bool, NegInf)) else x)


def _ite(c, a, b):
    a, b = _l(a), _l(b)
    if isinstance(c, (bool, np.bool_)):
        return a if c else b
    if isinstance(a, NegInf) or isinstance(b, NegInf):
        return Cond(c, a, b)
    return core.ite(c, a, b)


class Cond:
    """ite whose branches may be -inf (kept structured instead of being encoded as a real)"""
    def __init__(self, c, a, b):
        self.c, self.a, self.b = c, a, b

    def __repr__(self):
        return "Cond(%s, %s, %s)" % (self.c, self.a, self.b)


def _pow(a, b):
    a = _sym(a)
    b = _l(b)
    if isinstance(b, (int, float)) and float(b) == int(b) and abs(int(b)) <= 6:
        return a ** int(b)
    return core.uf("POW", a, b)


def _bool(f):
    return lambda a, b: f(_sym(a), _l(b))


def _add(*xs):
    """sum in which -inf and conditionals with a -inf branch are kept structured: -inf + x = -inf, Cond(c,a,b) + x = Cond(c,a+x,b+x)"""
    vals = [_l(x) if not isinstance(x, Cond) else x for x in xs]
    if any(isinstance(v, NegInf) for v in vals):
        return NegInf()
    conds = [v for v in vals if isinstance(v, Cond)]
    if not conds:
        return core.sym_sum(vals)
    c0 = conds[0]
    rest = [v for v in vals if v is not c0]
    return Cond(c0.c, _add(c0.a, *rest), _add(c0.b, *rest))


SCALAR = {
    "add": _add,
    "sub": lambda a, b: _sym(a) - _l(b),
    "mul": lambda *xs: _prod(xs),
    "true_div": lambda a, b: _sym(a) / _l(b),
    "neg": lambda a: -_sym(a),
    "pow": _pow,
    "sqr": lambda a: _sym(a) * _sym(a),
    "sqrt": lambda a: core.uf("SQRT", a),
    "log": lambda a: core.uf("LOG", a),
    "log1p": lambda a: core.uf("LOG", 1 + _sym(a)),
    "exp": lambda a: core.uf("EXP", a),
    "sin": lambda a: core.uf("SIN", a),
    "cos": lambda a: core.uf("COS", a),
    "arctan2": lambda a, b: core.uf("ARCTAN2", a, b),
    "gammaln": lambda a: core.uf("GAMMALN", a),
    "abs": lambda a: abs(_sym(a)),
    "gt": _bool(lambda a, b: a > b), "ge": _bool(lambda a, b: a >= b),
    "lt": _bool(lambda a, b: a < b), "le": _bool(lambda a, b: a <= b),
    "eq": _bool(lambda a, b: a == b), "neq": _bool(lambda a, b: a != b),
    "and": lambda a, b: _and(a, b), "or": lambda a, b: _or(a, b),
    "invert": lambda a: (~a if isinstance(a, SB) else (not a)),
    "second": lambda a, b: _l(b),
    "identity": lambda a: _l(a),
    "cast": lambda a: _l(a),
    "switch": lambda c, a, b: _ite(c, a, b),
    "clip": lambda x, lo, hi: core.ite(_sym(x) < _l(lo), _l(lo), core.ite(_sym(x) > _l(hi), _l(hi), _l(x))),
    # symbolic reals are finite (non-finite values appear only as the structured NegInf marker)
    "isnan": lambda a: False,
    "isinf": lambda a: isinstance(_l(a), NegInf),
    "sgn": lambda a: core.ite(_sym(a) > 0, 1, core.ite(_sym(a) < 0, -1, 0)),
    "expm1": lambda a: core.uf("EXP", a) - 1,
    "log2": lambda a: core.uf("LOG", a) / core.uf("LOG", 2),
    "reciprocal": lambda a: 1 / _sym(a),
    "maximum": lambda a, b: core.sym_max([_l(a), _l(b)]),
    "minimum": lambda a, b: core.sym_min([_l(a), _l(b)]),
}


def _prod(xs):
    p = 1
    for x in xs:
        x = _l(x)
        p = x * p if core.is_sym(x) and not core.is_sym(p) else p * x
    return p


def _and(a, b):
    a, b = _l(a), _l(b)
    if isinstance(a, SB) or isinstance(b, SB):
        return SB(z3.And(core.lift(a), core.lift(b)))
    return bool(a) and bool(b)


def _or(a, b):
    a, b = _l(a), _l(b)
    if isinstance(a, SB) or isinstance(b, SB):
        return SB(z3.Or(core.lift(a), core.lift(b)))
    return bool(a) or bool(b)


def _opname(op):
    nm = type(op).__name__.lower()
    return {"and_": "and", "or_": "or", "truediv": "true_div", "trueDiv": "true_div", "invert": "invert", "abs_": "abs"}.get(nm, nm)


class Evaluator:
    def __init__(self, env=None):
        self.env = dict(env or {})       # pytensor variable -> numpy object array / scalar
        self.memo = {}
        self.fresh_rvs = []              # (variable name, op name, symbol) for RandomVariable nodes left in the graph
        self.checks = []                 # CheckParameterValue conditions met on the way
        self.ops = set()

    def __call__(self, var):
        return self.ev(var)

    def ev(self, var):
        key = id(var)
        if key in self.memo:
            return self.memo[key]
        r = self._ev(var)
        self.memo[key] = r
        return r

    def _ev(self, var):
        from pytensor.tensor.elemwise import Elemwise, DimShuffle, CAReduce
        from pytensor.tensor.random.op import RandomVariable
        if var in self.env:
            return np.asarray(self.env[var], dtype=object)
        if var.owner is None:
            if hasattr(var, "data"):
                d = np.asarray(var.data)
                out = np.empty(d.shape, dtype=object)
                for idx in np.ndindex(d.shape):
                    out[idx] = _l(d[idx].item())
                return out
            if type(var).__name__.startswith("RandomGenerator") or "Generator" in type(var.type).__name__:
                return np.asarray(None, dtype=object)
            raise UnsupportedByShim("free pytensor input %r without a binding" % (var,))
        op, ins = var.owner.op, var.owner.inputs
        name = type(op).__name__
        self.ops.add(name if not isinstance(op, Elemwise) else "Elemwise{%s}" % _opname(op.scalar_op))
        if isinstance(op, RandomVariable):
            sym = core.fresh("real", "redrawn_%s" % (var.name or getattr(op, "name", "rv")))
            self.fresh_rvs.append((var.name, getattr(op, "name", name), sym))
            return np.asarray(sym, dtype=object)
        if isinstance(op, Elemwise):
            nm = _opname(op.scalar_op)
            if nm == "composite":
                raise UnsupportedByShim("Composite scalar op (optimised graph) -- evaluate the un-optimised graph")
            if nm not in SCALAR:
                raise UnsupportedByShim("pytensor scalar op %s" % nm)
            args = [self.ev(i) for i in ins]
            f = SCALAR[nm]
            return np.asarray(np.frompyfunc(f, len(args), 1)(*args), dtype=object)
        if isinstance(op, DimShuffle):
            a = np.asarray(self.ev(ins[0]), dtype=object)
            order = op.new_order
            keep = [o for o in order if o != "x"]
            dropped = [ax for ax in range(a.ndim) if ax not in keep]
            a = a.transpose(keep + dropped).reshape([a.shape[k] for k in keep])
            return a.reshape([1 if o == "x" else a.shape[keep.index(o)] for o in order])
        if name == "Dot" or name == "Dot22":
            a, b = [np.asarray(self.ev(i), dtype=object) for i in ins]
            a2 = a.reshape(1, -1) if a.ndim == 1 else a
            b2 = b.reshape(-1, 1) if b.ndim == 1 else b
            out = np.empty((a2.shape[0], b2.shape[1]), dtype=object)
            for i in range(a2.shape[0]):
                for j in range(b2.shape[1]):
                    out[i, j] = core.sym_sum([_l(a2[i, k]) * _l(b2[k, j]) if core.is_sym(_l(a2[i, k])) else _l(b2[k, j]) * _l(a2[i, k]) for k in range(a2.shape[1])])
            if a.ndim == 1 and b.ndim == 1:
                return np.asarray(out[0, 0], dtype=object)
            if a.ndim == 1:
                return out[0]
            if b.ndim == 1:
                return out[:, 0]
            return out
        if name == "MakeVector":
            return np.array([np.asarray(self.ev(i), dtype=object).item() for i in ins], dtype=object)
        if name == "Join":
            if isinstance(getattr(op, "axis", None), int):     # newer pytensor: the axis is a property of the op
                return np.concatenate([np.asarray(self.ev(i), dtype=object) for i in ins], axis=op.axis)
            axis = int(np.asarray(self.ev(ins[0])).item())
            return np.concatenate([np.asarray(self.ev(i), dtype=object) for i in ins[1:]], axis=axis)
        if isinstance(op, CAReduce):
            a = np.asarray(self.ev(ins[0]), dtype=object)
            sname = _opname(op.scalar_op)
            axis = op.axis
            if sname == "add":
                f = lambda cells: core.sym_sum([_l(c) for c in cells])
            elif sname == "and":
                f = lambda cells: _all(cells)
            elif sname == "or":
                f = lambda cells: _any(cells)
            elif sname == "mul":
                f = _prod
            else:
                raise UnsupportedByShim("reduction %s" % sname)
            return _reduce(a, axis, f)
        if name in ("ViewOp", "ScalarFromTensor", "TensorFromScalar", "SpecifyShape", "Rebroadcast", "DeepCopyOp", "Assert"):
            return self.ev(ins[0])
        if name == "CheckParameterValue":
            val = self.ev(ins[0])
            conds = [np.asarray(self.ev(c), dtype=object) for c in ins[1:]]
            self.checks.append(conds)
            return val
        if name == "Shape" or name == "Shape_i":
            a = np.asarray(self.ev(ins[0]), dtype=object)
            return np.asarray(list(a.shape) if name == "Shape" else a.shape[op.i], dtype=object)
        if name == "Alloc":
            val = np.asarray(self.ev(ins[0]), dtype=object)
            shape = [int(np.asarray(self.ev(s)).item()) for s in ins[1:]]
            return np.broadcast_to(val, shape).copy()
        if name == "Reshape":
            a = np.asarray(self.ev(ins[0]), dtype=object)
            shp = [int(x) for x in np.asarray(self.ev(ins[1])).ravel()]
            return a.reshape(shp)
        if name == "Subtensor":
            from pytensor.tensor.subtensor import get_idx_list
            a = np.asarray(self.ev(ins[0]), dtype=object)
            idx = get_idx_list(ins, op.idx_list)
            conc = []
            for i in idx:
                if isinstance(i, slice):
                    conc.append(slice(*[None if x is None else int(np.asarray(self.ev(x) if hasattr(x, "owner") else x).item()) for x in (i.start, i.stop, i.step)]))
                else:
                    conc.append(int(np.asarray(self.ev(i) if hasattr(i, "owner") else i).item()))
            return np.asarray(a[tuple(conc)], dtype=object)
        if name == "Kepler":
            M, e = [np.asarray(self.ev(i), dtype=object) for i in ins]
            idx = var.owner.outputs.index(var)
            fn = "KSIN" if idx == 0 else "KCOS"
            return np.asarray(np.frompyfunc(lambda a, b: core.uf(fn, a, b), 2, 1)(M, e), dtype=object)
        raise UnsupportedByShim("pytensor op %s" % name)


def _all(cells):
    cs = [_l(c) for c in cells]
    if any(isinstance(c, SB) for c in cs):
        return SB(z3.And([core.lift(c) for c in cs]))
    return all(bool(c) for c in cs)


def _any(cells):
    cs = [_l(c) for c in cells]
    if any(isinstance(c, SB) for c in cs):
        return SB(z3.Or([core.lift(c) for c in cs]))
    return any(bool(c) for c in cs)


def _reduce(a, axis, f):
    if axis is None or (isinstance(axis, (tuple, list)) and len(axis) == a.ndim):
        return np.asarray(f(list(a.flat)), dtype=object)
    if isinstance(axis, (tuple, list)):
        if len(axis) != 1:
            out = a
            for ax in sorted(axis, reverse=True):
                out = _reduce(out, ax, f)
            return out
        axis = axis[0]
    b = np.moveaxis(a, axis, -1)
    out = np.empty(b.shape[:-1], dtype=object)
    for idx in np.ndindex(b.shape[:-1]):
        out[idx] = f(list(b[idx]))
    return out
