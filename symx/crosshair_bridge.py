"""run `crosshair check` on a generated harness file that imports the REAL thejoker modules and
classify each function's verdict: confirmed / counterexample / unknown."""
import os
import re
import subprocess
import sys
import tempfile

VENV_PY = os.path.join(os.path.dirname(os.path.dirname(os.path.abspath(__file__))), ".venv", "bin", "python")


def run(src, timeout=60, extra_args=()):
    d = tempfile.mkdtemp(prefix="verif_ch_")
    path = os.path.join(d, "ch_harness.py")
    try:
        with open(path, "w") as f:
            f.write(src)
        cmd = [VENV_PY, "-m", "crosshair", "check", "--report_all", "--per_condition_timeout", str(timeout),
               "--analysis_kind", "PEP316"] + list(extra_args) + [path]
        p = subprocess.run(cmd, capture_output=True, text=True, timeout=timeout * 20 + 120, cwd=d)
        raw = p.stdout + p.stderr
    finally:
        try:
            os.remove(path)
            import shutil
            shutil.rmtree(d, ignore_errors=True)
        except OSError:
            pass
    lines = src.splitlines()
    defs = [(i + 1, m.group(1)) for i, l in enumerate(lines) for m in [re.match(r"def (\w+)\(", l)] if m]
    def fn_at(line):
        name = None
        for ln, nm in defs:
            if ln <= line:
                name = nm
        return name
    verdicts, models = {}, {}
    for l in raw.splitlines():
        m = re.match(r".*ch_harness\.py:(\d+): (\w+): (.*)$", l)
        if not m:
            continue
        fn = fn_at(int(m.group(1)))
        kind, msg = m.group(2), m.group(3)
        if kind == "error":
            verdicts[fn] = "counterexample"
            models[fn] = msg
        elif "Confirmed over all paths" in msg:
            verdicts.setdefault(fn, "confirmed")
        else:
            verdicts.setdefault(fn, "unknown")
    return {"verdicts": verdicts, "models": models, "raw": raw, "rc": p.returncode}
