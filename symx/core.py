"""symx.core -- symbolic execution by re-execution over z3.

Value classes (SN numbers, SB booleans) overload the Python operators so that ordinary Python
code (the repository's real function bodies) builds z3 terms.  Whenever the code needs a concrete
truth value, SB.__bool__ asks the current path context (Ctx) to decide: follow the recorded
decision trail, or ask z3 which outcomes are feasible under the current path condition, take one
and remember the other for back-tracking.  Explorer.paths() re-runs the harness once per feasible
decision trail (depth first).  See /verif/DESIGN.md section 2.1.
"""
import time
import fractions
import z3

Q = fractions.Fraction


import threading


def guarded_check(solver, seconds):
    """solver.check() with a hard deadline: some z3 tactics ignore the 'timeout' parameter, so a
    timer thread interrupts the context. An interrupted check answers unknown."""
    done = []
    zctx = solver.ctx     # capture the context only: the timer thread must never own the last reference to a
                          # Solver (its __del__ would call into z3 from a second thread -> heap corruption)

    def fire():
        if not done:
            try:
                zctx.interrupt()
            except Exception:
                pass
    t = threading.Timer(seconds, fire)
    t.daemon = True
    t.start()
    try:
        r = solver.check()
    except z3.Z3Exception:
        r = z3.unknown
    finally:
        done.append(1)
        t.cancel()
    return r


class Abort(BaseException):
    """The current path is infeasible (both outcomes of a decision are unsat). BaseException on
    purpose: the code under test catches Exception in places."""


class CapHit(BaseException):
    """A path / time cap was hit: the exploration is incomplete -> inconclusive, never success."""


class Inconclusive(Exception):
    pass


class UnsupportedByShim(Exception):
    """Raised by a shim when the code under test uses something the shim has no model for.
    Ends the run as inconclusive (exit 2), never as a violation."""


DUMP = {"on": False, "max": 0, "items": []}     # thorough tier: a sample of discharged VCs as SMT-LIB2 for a second solver


def _maybe_dump(solver, result):
    if DUMP["on"] and result == z3.unsat and len(DUMP["items"]) < DUMP["max"]:
        try:
            DUMP["items"].append(solver.to_smt2())
        except Exception:
            pass


STATS = {"feas_queries": 0, "vc_queries": 0, "solver_s": 0.0, "unknown_feas": 0}


def reset_stats():
    for k in STATS:
        STATS[k] = 0 if k != "solver_s" else 0.0


# --------------------------------------------------------------------------------------
# lifting helpers
# --------------------------------------------------------------------------------------

def _num_const(x):
    """z3 numeral for a Python number (exact: floats are converted through their exact binary
    value only when they are not 'nice' decimals -- the repo's literals such as 0.5, 2., 1e-10
    are meant as decimals, so go through repr)."""
    if isinstance(x, bool):
        raise TypeError("bool where number expected")
    if isinstance(x, int):
        return z3.IntVal(x)
    if isinstance(x, Q):
        return z3.RealVal(str(x.numerator) + "/" + str(x.denominator))
    if isinstance(x, float):
        if x != x or x in (float("inf"), float("-inf")):
            raise UnsupportedByShim("non-finite float constant in symbolic arithmetic: %r" % x)
        f = Q(repr(x))
        return z3.RealVal(str(f.numerator) + "/" + str(f.denominator))
    try:  # numpy scalars
        import numpy as _np
        if isinstance(x, _np.integer):
            return z3.IntVal(int(x))
        if isinstance(x, _np.floating):
            return _num_const(float(x))
        if isinstance(x, _np.bool_):
            raise TypeError("bool where number expected")
    except ImportError:
        pass
    raise TypeError("cannot lift %r to a z3 number" % (x,))


def is_sym(x):
    return isinstance(x, (SN, SB))


def lift(x):
    """-> z3 expression"""
    if isinstance(x, (SN, SB)):
        return x.e
    if isinstance(x, z3.ExprRef):
        return x
    if isinstance(x, bool):
        return z3.BoolVal(x)
    try:
        import numpy as _np
        if isinstance(x, _np.bool_):
            return z3.BoolVal(bool(x))
    except ImportError:
        pass
    return _num_const(x)


def _is_int(e):
    return e.sort().kind() == z3.Z3_INT_SORT


def _coerce(a, b):
    """bring two arithmetic z3 terms to a common sort"""
    ia, ib = _is_int(a), _is_int(b)
    if ia and not ib:
        a = z3.ToReal(a)
    elif ib and not ia:
        b = z3.ToReal(b)
    return a, b


def _const_value(e):
    """Python Fraction if the z3 term is a numeral, else None"""
    e = z3.simplify(e) if not z3.is_rational_value(e) and not z3.is_int_value(e) else e
    if z3.is_int_value(e):
        return Q(e.as_long())
    if z3.is_rational_value(e):
        return Q(e.numerator_as_long(), e.denominator_as_long())
    return None


# --------------------------------------------------------------------------------------
# value classes
# --------------------------------------------------------------------------------------

class SB:
    """symbolic boolean"""
    __slots__ = ("e",)
    __array_ufunc__ = None

    def __init__(self, e):
        self.e = e

    def __bool__(self):
        return Ctx.decide(self.e)

    def __and__(self, o):
        if _is_arr(o):
            return NotImplemented
        return SB(z3.And(self.e, lift(o)))
    __rand__ = __and__

    def __or__(self, o):
        if _is_arr(o):
            return NotImplemented
        return SB(z3.Or(self.e, lift(o)))
    __ror__ = __or__

    def __invert__(self):
        return SB(z3.Not(self.e))

    def __xor__(self, o):
        return SB(z3.Xor(self.e, lift(o)))
    __rxor__ = __xor__

    def __eq__(self, o):
        return SB(self.e == lift(o))

    def __ne__(self, o):
        return SB(self.e != lift(o))

    def __hash__(self):
        return self.e.hash()

    def __repr__(self):
        return "SB(%s)" % self.e

    # numpy-style arithmetic on booleans (mask.sum())
    def _as_int(self):
        return SN(z3.If(self.e, z3.IntVal(1), z3.IntVal(0)))

    def __add__(self, o):
        return self._as_int() + (o._as_int() if isinstance(o, SB) else o)
    __radd__ = __add__


def _is_arr(o):
    cls = type(o)
    return cls.__name__ in ("ndarray", "SymArray", "Quantity", "Q_")


_UFUNC_UNARY = {"log": "LOG", "exp": "EXP", "sqrt": "SQRT", "sin": "SIN", "cos": "COS"}


def _flags(*xs):
    """'is finite' flags carried by operands (symx.symnp.FinCell)"""
    out = []
    for x in xs:
        f = getattr(x, "flag", None)
        if f is not None and isinstance(x, SN):
            out.append(f.e if isinstance(f, SB) else z3.BoolVal(bool(f)))
    return out


FINCELL = [None]     # set by symx.symnp: constructor of a flagged cell


def _taint(res, *operands):
    """arithmetic on a possibly non-finite cell gives a possibly non-finite cell"""
    fl = _flags(*operands)
    if not fl or FINCELL[0] is None:
        return res
    return FINCELL[0](res.e, SB(z3.And(fl) if len(fl) > 1 else fl[0]))


class SN:
    """symbolic number (z3 Int or Real term)"""
    __slots__ = ("e",)

    def __array_ufunc__(self, ufunc, method, *inputs, **kwargs):
        """real numpy ufuncs applied to a bare symbolic scalar (np.log(x), np.exp(x) ...) inside real functions that are
        executed without the numpy shim; anything involving real ndarrays is deferred to the reflected operators"""
        if method != "__call__" or kwargs.get("out") is not None:
            return NotImplemented
        if any(type(i).__name__ == "ndarray" for i in inputs):
            return NotImplemented
        nm = ufunc.__name__
        if nm in _UFUNC_UNARY and len(inputs) == 1:
            return uf(_UFUNC_UNARY[nm], inputs[0])
        ops = {"add": lambda a, b: a + b, "subtract": lambda a, b: a - b, "multiply": lambda a, b: a * b, "true_divide": lambda a, b: a / b,
               "divide": lambda a, b: a / b, "negative": lambda a: -a, "absolute": lambda a: abs(a), "power": lambda a, b: a ** b,
               "less": lambda a, b: a < b, "greater": lambda a, b: a > b, "less_equal": lambda a, b: a <= b, "greater_equal": lambda a, b: a >= b}
        if nm in ops:
            ins = [i if isinstance(i, (SN, SB)) else (SN(lift(i)) if not isinstance(i, bool) else i) for i in inputs]
            return ops[nm](*ins)
        return NotImplemented

    def __init__(self, e):
        self.e = e

    # -- arithmetic
    def _bin(self, o, f, swap=False):
        if _is_arr(o):
            return NotImplemented
        if isinstance(o, SB):
            o = o._as_int()
        try:
            b = lift(o)
        except TypeError:
            return NotImplemented
        a, b = _coerce(self.e, b)
        return _taint(SN(f(b, a) if swap else f(a, b)), self, o)

    def __add__(self, o): return self._bin(o, lambda a, b: a + b)
    def __radd__(self, o): return self._bin(o, lambda a, b: a + b, True)
    def __sub__(self, o): return self._bin(o, lambda a, b: a - b)
    def __rsub__(self, o): return self._bin(o, lambda a, b: a - b, True)
    def __mul__(self, o): return self._bin(o, lambda a, b: a * b)
    def __rmul__(self, o): return self._bin(o, lambda a, b: a * b, True)
    def __neg__(self): return _taint(SN(-self.e), self)
    def __pos__(self): return self
    def __abs__(self): return _taint(SN(z3.If(self.e >= 0, self.e, -self.e)), self)

    def __truediv__(self, o):
        if _is_arr(o):
            return NotImplemented
        return _taint(SN(_div(self.e, lift(o))), self, o)

    def __rtruediv__(self, o):
        if _is_arr(o):
            return NotImplemented
        return _taint(SN(_div(lift(o), self.e)), self, o)

    def __floordiv__(self, o):
        a, b = self.e, lift(o)
        if not (_is_int(a) and _is_int(b)):
            raise UnsupportedByShim("floor division on reals")
        c = _const_value(b)
        if c is None or c <= 0:
            raise UnsupportedByShim("floor division by a non-constant / non-positive divisor")
        return SN(a / b)  # z3 int division == floor for positive divisors

    def __mod__(self, o):
        a, b = self.e, lift(o)
        if _is_int(a) and _is_int(b):
            c = _const_value(b)
            if c is None or c <= 0:
                raise UnsupportedByShim("mod by a non-constant / non-positive divisor")
            return SN(a % b)
        return real_mod(self, o)

    def __divmod__(self, o):
        return self // o, self % o

    def __pow__(self, o):
        c = None
        if isinstance(o, (int,)) and not isinstance(o, bool):
            c = o
        elif isinstance(o, float) and o == int(o):
            c = int(o)
        elif isinstance(o, SN):
            cv = _const_value(o.e)
            if cv is not None and cv.denominator == 1:
                c = int(cv)
        if c is not None and abs(c) <= 8:
            if c == 0:
                return SN(z3.RealVal(1))
            r = self
            for _ in range(abs(c) - 1):
                r = r * self
            return r if c > 0 else 1 / r
        return uf("POW", self, o)

    def __rpow__(self, o):
        return uf("POW", o, self)

    # -- comparisons
    def _cmp(self, o, f):
        if _is_arr(o):
            return NotImplemented
        if isinstance(o, SB):
            o = o._as_int()
        try:
            b = lift(o)
        except TypeError:
            return NotImplemented
        a, b = _coerce(self.e, b)
        fl = _flags(self, o)
        if fl:
            # an operand may be non-finite (NaN: every ordering / equality comparison is False; +-inf: either way): when its
            # 'finite' flag does not hold the outcome is an unconstrained Boolean, which covers all of those
            return SB(z3.If(z3.And(fl) if len(fl) > 1 else fl[0], f(a, b), fresh("bool", "nonfinite_cmp").e))
        return SB(f(a, b))

    def __lt__(self, o): return self._cmp(o, lambda a, b: a < b)
    def __le__(self, o): return self._cmp(o, lambda a, b: a <= b)
    def __gt__(self, o): return self._cmp(o, lambda a, b: a > b)
    def __ge__(self, o): return self._cmp(o, lambda a, b: a >= b)

    def __eq__(self, o):
        if o is None:
            return False
        r = self._cmp(o, lambda a, b: a == b)
        return False if r is NotImplemented else r

    def __ne__(self, o):
        if o is None:
            return True
        r = self._cmp(o, lambda a, b: a != b)
        return True if r is NotImplemented else r

    def __hash__(self):
        return self.e.hash()

    def __repr__(self):
        return "SN(%s)" % self.e

    # -- concretisation
    def __bool__(self):
        return Ctx.decide(self.e != 0)

    def __int__(self):
        c = _const_value(self.e)
        if c is not None:
            return int(c)  # truncation toward zero, like int()
        if not _is_int(self.e):
            raise UnsupportedByShim("int() of a symbolic real")
        return fork_int(self)

    __index__ = __int__

    def __float__(self):
        c = _const_value(self.e)
        if c is not None:
            return float(c)
        raise UnsupportedByShim("float() of a symbolic value (%s): a C boundary was reached" % self.e)

    # numpy calls these on object arrays
    def exp(self): return uf("EXP", self)
    def log(self): return uf("LOG", self)
    def sqrt(self): return uf("SQRT", self)
    def sin(self): return uf("SIN", self)
    def cos(self): return uf("COS", self)
    def conjugate(self): return self
    def is_int(self): return _is_int(self.e)


def real(name):
    return SN(z3.Real(name))


def integer(name):
    return SN(z3.Int(name))


def boolean(name):
    return SB(z3.Bool(name))


_fresh_ctr = [0]


def fresh(kind, hint="t"):
    _fresh_ctr[0] += 1
    nm = "%s!%d" % (hint, _fresh_ctr[0])
    return {"real": real, "int": integer, "bool": boolean}[kind](nm)


# --------------------------------------------------------------------------------------
# division as named reciprocals, uninterpreted functions
# --------------------------------------------------------------------------------------

def _div(a, b):
    """a / b without ever emitting a z3 division by a non-constant (DESIGN 2.5.1)."""
    cb = _const_value(b)
    if cb is not None:
        if cb == 0:
            raise ZeroDivisionError("symbolic division by constant zero")
        inv = 1 / cb
        a2 = z3.ToReal(a) if _is_int(a) else a
        return a2 * z3.RealVal(str(inv.numerator) + "/" + str(inv.denominator))
    if _is_int(b):
        b = z3.ToReal(b)
    if _is_int(a):
        a = z3.ToReal(a)
    ctx = Ctx.cur
    key = b.get_id()
    tab = ctx.recips if ctx is not None else _GLOBAL_RECIPS
    if key in tab:
        r = tab[key][0]
    else:
        _fresh_ctr[0] += 1
        r = z3.Real("recip!%d" % _fresh_ctr[0])
        tab[key] = (r, b)
        c = r * b == 1
        if ctx is not None:
            ctx.add_side(c)
            ctx.recip_defs[str(r)] = (r, b, c)
            ctx.obligations.append(("nonzero_divisor", b))
    ca = _const_value(a)
    if ca is not None and ca == 1:
        return r
    return a * r


_GLOBAL_RECIPS = {}
_UF = {}
UF_LOG = []  # (name, args, result-term) in creation order, per path (reset by Explorer)


def uf_decl(name, arity):
    key = (name, arity)
    if key not in _UF:
        _UF[key] = z3.Function(name, *([z3.RealSort()] * (arity + 1)))
    return _UF[key]


def uf(name, *args):
    zs = []
    for a in args:
        e = lift(a)
        if _is_int(e):
            e = z3.ToReal(e)
        zs.append(e)
    t = uf_decl(name, len(zs))(*zs)
    UF_LOG.append((name, tuple(zs), t))
    return SN(t)


def numeric_uf_axioms(eps="1/1000000000000"):
    """for every uninterpreted application recorded on this path whose arguments are numeric constants (possibly through
    other such applications, e.g. LOG(SQRT(6.28))) assert that its value lies within eps of the true value"""
    import math
    fns = {"LOG": math.log, "EXP": math.exp, "SQRT": math.sqrt, "SIN": math.sin, "COS": math.cos}
    known = {}
    ax = []
    e = z3.RealVal(eps)
    for nm, args, t in UF_LOG:
        if nm not in fns or len(args) != 1:
            continue
        a = z3.simplify(args[0])
        v = _const_value(a)
        val = float(v) if v is not None else known.get(a.get_id())
        if val is None:
            continue
        try:
            r = fns[nm](val)
        except (ValueError, OverflowError):
            continue
        known[z3.simplify(t).get_id()] = r
        known[t.get_id()] = r
        c = _num_const(r)
        ax.append(z3.And(t - c <= e, c - t <= e))
    return ax


def real_mod(x, m):
    """x % m for reals, m a positive constant: result r = x - k*m with integer k, 0 <= r < m."""
    me = lift(m)
    cm = _const_value(me)
    if cm is None or cm <= 0:
        raise UnsupportedByShim("real mod by non-constant modulus")
    xe = lift(x)
    if _is_int(xe):
        xe = z3.ToReal(xe)
    if _is_int(me):
        me = z3.ToReal(me)
    inv = 1 / cm
    q = xe * z3.RealVal(str(inv.numerator) + "/" + str(inv.denominator))
    # floor via z3's to_int: x mod m = x - m * floor(x / m)   (exact; 0 <= result < m)
    return SN(z3.simplify(xe - me * z3.ToReal(z3.ToInt(q))))


def ite(c, a, b):
    ce = lift(c)
    if isinstance(a, (SB, bool)) and isinstance(b, (SB, bool)):
        return SB(z3.If(ce, lift(a), lift(b)))
    ae, be = _coerce(lift(a), lift(b))
    return SN(z3.If(ce, ae, be))


def sym_max(items):
    it = list(items)
    m = it[0]
    for x in it[1:]:
        if is_sym(x) or is_sym(m):
            m = ite(SN(lift(x)) > m if not is_sym(x) else x > m, x, m)
        else:
            m = x if x > m else m
    return m


def sym_min(items):
    it = list(items)
    m = it[0]
    for x in it[1:]:
        if is_sym(x) or is_sym(m):
            m = ite(SN(lift(x)) < m if not is_sym(x) else x < m, x, m)
        else:
            m = x if x < m else m
    return m


def sym_sum(items):
    s = 0
    for x in items:
        s = x + s if is_sym(x) and not is_sym(s) else s + x
    return s


# --------------------------------------------------------------------------------------
# path context and explorer
# --------------------------------------------------------------------------------------

class Ctx:
    cur = None

    def __init__(self, trail, timeout_ms):
        self.solver = z3.Solver()
        self.solver.set("timeout", timeout_ms)
        self.timeout_ms = timeout_ms
        self.trail = trail          # list of [choice, other_feasible]
        self.pos = 0
        self.pc = []
        self.side = []
        self.recips = {}
        self.recip_defs = {}
        self.obligations = []
        self.effects = []           # free-form log used by harnesses
        self.notes = {}

    def add_side(self, c):
        self.side.append(c)
        self.solver.add(c)

    def assume(self, c):
        c = lift(c)
        self.pc.append(c)
        self.solver.add(c)

    def _feasible(self, e):
        STATS["feas_queries"] += 1
        t0 = time.time()
        self.solver.push()
        self.solver.add(e)
        r = guarded_check(self.solver, self.timeout_ms / 1000.0 + 5)
        self.solver.pop()
        STATS["solver_s"] += time.time() - t0
        if r == z3.unknown:
            STATS["unknown_feas"] += 1
        return r != z3.unsat

    @staticmethod
    def decide(e):
        self = Ctx.cur
        if self is None:
            e2 = z3.simplify(e)
            if z3.is_true(e2):
                return True
            if z3.is_false(e2):
                return False
            raise RuntimeError("symbolic decision outside an exploration: %s" % e)
        e = z3.simplify(e)
        if z3.is_true(e):
            return True
        if z3.is_false(e):
            return False
        if self.pos < len(self.trail):
            choice = self.trail[self.pos][0]
        else:
            t_ok = self._feasible(e)
            f_ok = self._feasible(z3.Not(e)) if t_ok else True
            if not t_ok and not self._feasible(z3.Not(e)):
                raise Abort()
            choice = t_ok
            self.trail.append([choice, t_ok and f_ok])
        self.pos += 1
        c = e if choice else z3.Not(e)
        self.pc.append(c)
        self.solver.add(c)
        return choice


def decide(x):
    return Ctx.decide(lift(x))


def assume(x):
    """Restrict the current path (precondition placed before the code it constrains)."""
    Ctx.cur.assume(x)
    if not Ctx.cur._feasible(z3.BoolVal(True)):
        raise Abort()


def fork_int(x, lo=None, hi=None, limit=64):
    """Concretise a symbolic integer by forking on its value. With bounds lo/hi the
    values outside are forked as 'below'/'above' and raise CapHit."""
    e = lift(x)
    c = _const_value(e)
    if c is not None:
        return int(c)
    s = Ctx.cur
    # find the feasible range by asking the solver for a model each time
    if lo is None or hi is None:
        # enumerate via models
        n = 0
        while True:
            n += 1
            if n > limit:
                raise CapHit("fork_int: more than %d feasible values for %s" % (limit, e))
            # pick a candidate value: follow trail if present
            if s.pos < len(s.trail):
                v = s.trail[s.pos][2]
                if Ctx.decide(e == v):
                    return v
                continue
            STATS["feas_queries"] += 1
            t0 = time.time()
            r = guarded_check(s.solver, s.timeout_ms / 1000.0 + 5)
            STATS["solver_s"] += time.time() - t0
            if r != z3.sat:
                raise Abort() if r == z3.unsat else CapHit("fork_int: unknown")
            v = s.solver.model().eval(e, model_completion=True).as_long()
            # record candidate in the trail entry so re-execution asks the same question
            t_ok = True
            f_ok = s._feasible(e != v)
            s.trail.append([True, f_ok, v])
            s.pos += 1
            s.pc.append(e == v)
            s.solver.add(e == v)
            return v
    for v in range(lo, hi + 1):
        if Ctx.decide(e == v):
            return v
    raise CapHit("fork_int: value of %s outside [%d, %d]" % (e, lo, hi))


def clamp_fork(x, lo, hi):
    """concrete v = min(max(x, lo), hi) by forking (used for slice bounds)"""
    if not is_sym(x):
        return min(max(int(x), lo), hi)
    e = lift(x)
    for v in range(lo, hi):
        if Ctx.decide(e <= v):
            return v
    return hi


class Path:
    def __init__(self, ctx, result, raised):
        self.ctx = ctx
        self.solver = ctx.solver
        self.pc = ctx.pc
        self.result = result
        self.raised = raised
        self.effects = ctx.effects
        self.decisions = [t[0] if len(t) == 2 else ("v", t[2]) for t in ctx.trail[:ctx.pos]]

    def check(self, claim, axioms=(), timeout_ms=None, prefer=()):
        """decide PC /\\ axioms /\\ not claim.  -> ('unsat'|'sat'|'unknown', model|None, nontrivial)
        prefer: optional extra constraints used only to pick a more robust counterexample model
        (e.g. margins that keep a float replay away from ties); ignored if unsatisfiable with them."""
        c = lift(claim)
        neg = z3.simplify(z3.Not(c))
        if z3.is_false(neg):
            return "unsat", None, False
        STATS["vc_queries"] += 1
        s = self.solver
        t0 = time.time()
        s.push()
        if timeout_ms:
            s.set("timeout", timeout_ms)
        for a in axioms:
            s.add(a)
        s.add(neg)
        budget = (timeout_ms or self.ctx.timeout_ms)
        first = min(budget, 20000)
        s.set("timeout", first)
        r = guarded_check(s, first / 1000.0 + 5)
        _maybe_dump(s, r)
        if r == z3.unknown:
            # z3's search is sensitive to scheduling: retry in fresh solvers with other seeds before giving up
            r, fresh_model = _retry_fresh(self.ctx.side + self.pc + list(axioms) + [neg], budget)
            if r == z3.sat:
                s.pop()
                STATS["solver_s"] += time.time() - t0
                return "sat", fresh_model, True
        m = s.model() if r == z3.sat else None
        if r == z3.sat and prefer:
            m = _preferred_model(s, prefer) or m
        s.pop()
        STATS["solver_s"] += time.time() - t0
        return str(r), m, True

    def check_isolated(self, claim, axioms=(), timeout_ms=30000, prefer=()):
        """decide  PC /\\ (definitions of the named reciprocals occurring in the claim, transitively) /\\ axioms /\\ not claim
        in a FRESH solver.  All other side constraints (LAPACK hypotheses, permutation contracts ...) are left out:
        unsat from a subset of the constraints is unsat for all of them (sound); a sat answer may be spurious and is,
        like every counterexample, only reported after it reproduces on the real build."""
        c = lift(claim)
        neg = z3.simplify(z3.Not(c))
        if z3.is_false(neg):
            return "unsat", None, False
        STATS["vc_queries"] += 1
        t0 = time.time()
        s = z3.Solver()
        s.set("timeout", timeout_ms)
        for p_ in self.pc:
            s.add(p_)
        for a in axioms:
            s.add(a)
        s.add(neg)
        seen = set()
        todo = [neg] + list(axioms)
        defs = self.ctx.recip_defs
        while todo:
            e = todo.pop()
            for nm in _const_names(e):
                if nm in defs and nm not in seen:
                    seen.add(nm)
                    s.add(defs[nm][2])
                    todo.append(defs[nm][1])
        first = min(timeout_ms, 20000)
        s.set("timeout", first)
        r = guarded_check(s, first / 1000.0 + 5)
        _maybe_dump(s, r)
        if r == z3.unknown and timeout_ms > 5000:
            r, fm = _retry_fresh(s.assertions(), timeout_ms)
            if r == z3.sat:
                STATS["solver_s"] += time.time() - t0
                return "sat", fm, True
        m = s.model() if r == z3.sat else None
        if r == z3.sat and prefer:
            m = _preferred_model(s, prefer) or m
        STATS["solver_s"] += time.time() - t0
        return str(r), m, True

    def check_guided(self, claim, free, prefer=(), timeout_ms=20000):
        """counterexample search for a claim the solver could not decide: fix every constant except those in `free`
        (names) to the values of one well-conditioned model of the path condition and decide the remaining, much
        smaller, query.  Only a sat answer is meaningful (-> candidate, replayed); anything else leaves the VC unknown."""
        c = lift(claim)
        neg = z3.Not(c)
        s0 = z3.Solver()
        s0.set("timeout", timeout_ms)
        for p_ in self.pc:
            s0.add(p_)
        for p_ in prefer:
            s0.add(p_)
        if guarded_check(s0, timeout_ms / 1000.0 + 5) != z3.sat:
            return "unknown", None
        m0 = s0.model()
        defs = self.ctx.recip_defs
        names = set()
        todo = [neg]
        cons = []
        seen = set()
        while todo:
            e = todo.pop()
            for nm in _const_names(e):
                if nm in seen:
                    continue
                seen.add(nm)
                if nm in defs:
                    cons.append(defs[nm][2])
                    todo.append(defs[nm][1])
                else:
                    names.add(nm)
        s = z3.Solver()
        s.set("timeout", timeout_ms)
        for p_ in self.pc:
            s.add(p_)
        for nm in names:
            if nm in free:
                continue
            for d in m0.decls():
                if d.name() == nm and d.arity() == 0:
                    s.add(d() == m0[d])
        for cst in cons:
            s.add(cst)
        s.add(neg)
        r = guarded_check(s, timeout_ms / 1000.0 + 5)
        return str(r), (s.model() if r == z3.sat else None)

    def smt2(self, claim, axioms=()):
        s = z3.Solver()
        for c in self.ctx.side + self.pc + list(axioms):
            s.add(c)
        s.add(z3.Not(lift(claim)))
        return s.to_smt2()


def _preferred_model(s, prefer):
    """a model of the (satisfiable) query on solver `s` that also satisfies the preferences: `prefer` is a flat list of
    constraints (all or nothing) or a list of TIERS (lists): all tiers are tried first, then all but the last, ..."""
    tiers = list(prefer) if prefer and isinstance(prefer[0], (list, tuple)) else [list(prefer)]
    for k in range(len(tiers), 0, -1):
        s.push()
        try:
            for tier in tiers[:k]:
                for p_ in tier:
                    s.add(p_)
            if guarded_check(s, 20) == z3.sat:
                return s.model()
        finally:
            s.pop()
    return None


PATH_START = []   # callbacks run before every explored path (symx.stack: reset process state of the code under test)


class Explorer:
    def __init__(self, max_paths=20000, max_seconds=None, solver_timeout_ms=20000):
        self.max_paths = max_paths
        self.max_seconds = max_seconds
        self.timeout_ms = solver_timeout_ms
        self.n_paths = 0
        self.n_aborted = 0
        self.capped = False
        self.cap_reason = None

    def paths(self, fn, pre=()):
        """yield a Path per feasible decision trail of fn(). fn may raise: the exception object is
        recorded in Path.raised (Abort/CapHit are handled here)."""
        trail = []
        t_start = time.time()
        while True:
            ctx = Ctx(trail, self.timeout_ms)
            Ctx.cur = ctx
            del UF_LOG[:]
            for cb in PATH_START:
                cb()
            for p in pre:
                ctx.assume(p)
            result, raised, aborted = None, None, False
            try:
                result = fn()
            except Abort:
                aborted = True
            except CapHit as e:
                self.capped = True
                self.cap_reason = str(e)
                aborted = True
            except UnsupportedByShim:
                Ctx.cur = None
                raise
            except Exception as e:  # the code under test raised
                raised = e
            if not aborted:
                self.n_paths += 1
                yield Path(ctx, result, raised)
            else:
                self.n_aborted += 1
            Ctx.cur = None
            trail = ctx.trail[:ctx.pos]
            while trail and not trail[-1][1]:
                trail.pop()
            if not trail:
                break
            last = trail.pop()
            if len(last) == 3:
                # fork_int entry: "value == v" was taken; now exclude it
                trail.append([False, False, last[2]])
            else:
                trail.append([not last[0], False])
            if self.n_paths >= self.max_paths:
                self.capped = True
                self.cap_reason = "path cap %d" % self.max_paths
                break
            if self.max_seconds and time.time() - t_start > self.max_seconds:
                self.capped = True
                self.cap_reason = "time cap %ss" % self.max_seconds
                break


# --------------------------------------------------------------------------------------
# models -> python values
# --------------------------------------------------------------------------------------

def _retry_fresh(assertions, budget_ms):
    """re-decide a query that came back unknown: fresh solver objects, different random seeds, growing timeouts"""
    assertions = list(assertions)
    for k, (seed, tmo) in enumerate(((7, min(budget_ms, 20000)), (23, min(budget_ms, 40000)), (101, budget_ms))):
        s2 = z3.Solver()
        s2.set("timeout", int(tmo))
        s2.set("random_seed", seed)
        for a in assertions:
            s2.add(a)
        r = guarded_check(s2, tmo / 1000.0 + 5)
        if r != z3.unknown:
            return r, (s2.model() if r == z3.sat else None)
    return z3.unknown, None


def _const_names(e):
    """names of the uninterpreted constants occurring in a z3 term"""
    out = set()
    seen = set()
    stack = [e]
    while stack:
        x = stack.pop()
        i = x.get_id()
        if i in seen:
            continue
        seen.add(i)
        if z3.is_const(x) and x.decl().kind() == z3.Z3_OP_UNINTERPRETED:
            out.add(x.decl().name())
        else:
            stack.extend(x.children())
    return out


def model_value(model, x):
    """Fraction / bool value of a term in a model"""
    e = lift(x)
    v = model.eval(e, model_completion=True)
    if z3.is_true(v):
        return True
    if z3.is_false(v):
        return False
    if z3.is_int_value(v):
        return Q(v.as_long())
    if z3.is_rational_value(v):
        return Q(v.numerator_as_long(), v.denominator_as_long())
    if z3.is_algebraic_value(v):
        a = v.approx(20)
        return Q(a.numerator_as_long(), a.denominator_as_long())
    raise Inconclusive("cannot concretise model value %s" % v)
