"""symx.symnp -- the part of the numpy surface the repository uses, on arrays whose cells may be
symbolic (core.SN / core.SB) or concrete Python numbers.

SymArray wraps a real numpy *object* array (shape, broadcasting, slicing, fancy indexing and
assignment come from numpy itself); every operation whose result depends on symbolic cells is
implemented here -- by z3 `ite` terms where a value is selected (max, abs, gather by symbolic
index), by forking (boolean masks, np.where, symbolic slice bounds), or by contract (argsort,
argpartition, unique: *any* result the documented contract allows).

The module is handed to the code under test in place of `numpy` by symx.loader.
Anything not modelled raises UnsupportedByShim (-> inconclusive), never a silent fallback.
"""
import builtins
import numpy as _np
from . import core
from .core import SN, SB, is_sym, lift, ite, UnsupportedByShim

# pass-through constants / types
pi = _np.pi
e = _np.e
inf = _np.inf
nan = _np.nan
newaxis = None
float64 = _np.float64
float32 = _np.float32
int32 = _np.int32
int64 = _np.int64
integer = _np.integer
floating = _np.floating
bool_ = _np.bool_
dtype = _np.dtype
can_cast = _np.can_cast
result_type = _np.result_type
promote_types = _np.promote_types
issubdtype = _np.issubdtype
_F8 = _np.dtype("float64")
_F4 = _np.dtype("float32")


def _f32_cell(c):
    """a value stored at single precision: the real rounding for a concrete float, an uninterpreted F32(x) for a symbolic one
    (nothing is assumed about it, so a claim that needs F32(x) == x is not provable -- a narrowing store is visible)"""
    if isinstance(c, (bool, _np.bool_)):
        return 1.0 if c else 0.0
    if isinstance(c, (int, float, _np.integer, _np.floating)):
        return float(_np.float32(c))
    if isinstance(c, SN):
        return core.uf("F32", c)
    return c
_I8 = _np.dtype("int64")
_B1 = _np.dtype("bool")
_OBJ = _np.dtype("O")


def _cell_kind(c):
    if isinstance(c, SB) or isinstance(c, (bool, _np.bool_)):
        return "b"
    if isinstance(c, SN):
        return "i" if c.is_int() else "f"
    if isinstance(c, (int, _np.integer)):
        return "i"
    if isinstance(c, (float, _np.floating, core.Q)):
        return "f"
    return "O"


def _infer_dtype(a):
    kinds = {_cell_kind(c) for c in a.flat}
    if not kinds:
        return _F8
    if kinds == {"b"}:
        return _B1
    if kinds <= {"i", "b"}:
        return _I8
    if kinds <= {"i", "f", "b"}:
        return _F8
    return _OBJ


def _norm_cell(c):
    if isinstance(c, _np.generic):
        return c.item()
    return c


def _obj(x):
    """anything array-like -> numpy object array"""
    if isinstance(x, SymArray):
        return x.a
    if isinstance(x, _np.ndarray):
        if x.dtype == object:
            return x
        out = _np.empty(x.shape, dtype=object)
        for idx in _np.ndindex(x.shape):
            out[idx] = x[idx].item()
        return out
    if isinstance(x, (list, tuple)):
        if len(x) == 0:
            return _np.empty((0,), dtype=object)
        parts = [_obj(y) for y in x]
        shp = parts[0].shape
        if builtins.any(p.shape != shp for p in parts):
            raise UnsupportedByShim("ragged array construction")
        out = _np.empty((len(parts),) + shp, dtype=object)
        for i, p in enumerate(parts):
            out[i] = p[()] if p.ndim == 0 else p
        return out
    out = _np.empty((), dtype=object)
    out[()] = _norm_cell(x)
    return out


def _wrap(a, dt=None):
    if not isinstance(a, _np.ndarray):
        return a
    return SymArray(a, dt)


def _unwrap_scalar(x):
    if isinstance(x, SymArray) and x.a.ndim == 0:
        return x.a[()]
    return x


class SymArray:
    __array_ufunc__ = None
    __hash__ = None

    def __init__(self, a, dt=None):
        if not isinstance(a, _np.ndarray) or a.dtype != object:
            a = _obj(a)
        self.a = a
        self.dtype = _np.dtype(dt) if dt is not None else _infer_dtype(a)

    # -- basic protocol
    @property
    def shape(self): return self.a.shape
    @property
    def ndim(self): return self.a.ndim
    @property
    def size(self): return self.a.size
    @property
    def T(self): return SymArray(self.a.T, self.dtype)
    @property
    def flat(self): return self.a.flat

    def __len__(self):
        if self.a.ndim == 0:
            raise TypeError("len() of unsized object")
        return self.a.shape[0]

    def __iter__(self):
        if self.a.ndim == 0:
            raise TypeError("iteration over a 0-d array")
        for i in range(self.a.shape[0]):
            yield self[i]

    def __repr__(self):
        return "SymArray(%r, dtype=%s)" % (self.a.tolist(), self.dtype)

    def copy(self): return SymArray(self.a.copy(), self.dtype)
    def ravel(self): return SymArray(self.a.ravel(), self.dtype)
    def flatten(self): return SymArray(self.a.flatten(), self.dtype)
    def reshape(self, *s):
        if len(s) == 1 and isinstance(s[0], (tuple, list)):
            s = tuple(s[0])
        return SymArray(self.a.reshape(*s), self.dtype)
    def squeeze(self, axis=None): return SymArray(self.a.squeeze(axis), self.dtype)
    def tolist(self): return self.a.tolist()
    def item(self): return self.a.item()
    def transpose(self, *ax): return SymArray(self.a.transpose(*ax), self.dtype)

    def astype(self, dt, copy=True):
        dt = _np.dtype(dt)
        if dt == _F4 and self.dtype != _F4:
            out = self.a.copy()
            for idx in _np.ndindex(out.shape):
                out[idx] = _f32_cell(out[idx])
            return SymArray(out, dt)
        if dt.kind == "f":
            out = self.a.copy()
            for idx in _np.ndindex(out.shape):
                c = out[idx]
                if isinstance(c, (bool, _np.bool_)):
                    out[idx] = 1.0 if c else 0.0            # True/False -> 1.0/0.0 as numpy does
                elif isinstance(c, SB):
                    out[idx] = c._as_int()
            return SymArray(out, dt)
        if dt.kind in "iu":
            out = self.a.copy()
            for idx in _np.ndindex(out.shape):
                c = out[idx]
                if isinstance(c, SN) and not c.is_int():
                    z3 = core.z3
                    e = c.e
                    out[idx] = SN(z3.If(e >= 0, z3.ToInt(e), -z3.ToInt(-e)))      # C cast: towards zero
                    continue
                if isinstance(c, (SB,)):
                    out[idx] = c._as_int()
                elif isinstance(c, (float, bool)):
                    out[idx] = int(c)
            return SymArray(out, dt)
        if dt.kind == "b":
            out = self.a.copy()
            for idx in _np.ndindex(out.shape):
                c = out[idx]
                if isinstance(c, SN):
                    out[idx] = c != 0
                elif not isinstance(c, (SB, bool)):
                    out[idx] = bool(c)
            return SymArray(out, dt)
        if dt.kind in "US" and builtins.all(isinstance(c, (int, float, str, _np.integer, _np.floating, _np.str_)) and not isinstance(c, bool) for c in self.a.flat):
            # concrete labels only (e.g. survey ids): numpy's own conversion
            conv = _np.array(self.a.tolist()).astype(dt)
            out = _np.empty(self.a.shape, dtype=object)
            for idx in _np.ndindex(out.shape):
                out[idx] = str(conv[idx])
            return SymArray(out, conv.dtype)
        raise UnsupportedByShim("astype(%s)" % dt)

    def __bool__(self):
        if self.a.size != 1:
            raise ValueError("The truth value of an array with more than one element is ambiguous.")
        return bool(self.a.flat[0])

    def __int__(self):
        if self.a.size != 1:
            raise TypeError("only size-1 arrays can be converted")
        return int(self.a.flat[0])
    __index__ = __int__

    def __float__(self):
        if self.a.size != 1:
            raise TypeError("only size-1 arrays can be converted")
        return float(self.a.flat[0])

    # -- indexing
    def _key(self, k, axis_len=None):
        """normalise one index component"""
        if isinstance(k, SymArray):
            if k.dtype == _B1:
                return _np.array([bool(c) for c in k.a.flat], dtype=bool).reshape(k.a.shape)
            cells = list(k.a.flat)
            if builtins.any(isinstance(c, SN) for c in cells):
                return ("symidx", k)
            return _np.array([int(c) for c in cells], dtype=int).reshape(k.a.shape)
        if isinstance(k, SN):
            c = core._const_value(k.e)
            if c is not None:
                return int(c)
            return ("symidx", SymArray(_obj(k)))
        if isinstance(k, SB):
            return bool(k)
        if isinstance(k, slice):
            if builtins.any(is_sym(x) for x in (k.start, k.stop, k.step)):
                if axis_len is None:
                    raise UnsupportedByShim("symbolic slice in this position")
                if is_sym(k.step):
                    raise UnsupportedByShim("symbolic slice step")
                start = k.start
                stop = k.stop
                if is_sym(start):
                    start = _fork_bound(start, axis_len)
                if is_sym(stop):
                    stop = _fork_bound(stop, axis_len)
                return slice(start, stop, k.step)
            return k
        if isinstance(k, list):
            return self._key(SymArray(_obj(k)))
        return k

    def __getitem__(self, k):
        if isinstance(k, tuple):
            kk = tuple(self._key(x, self.a.shape[i] if i < self.a.ndim else None) for i, x in enumerate(k))
            if builtins.any(isinstance(x, tuple) for x in kk):
                # arr[:, symidx]  ->  gather along axis 1
                if len(kk) == 2 and isinstance(kk[0], slice) and kk[0] == slice(None) and isinstance(kk[1], tuple) and self.a.ndim == 2:
                    return SymArray(self.a.T, self.dtype)._gather(kk[1][1]).T
                raise UnsupportedByShim("symbolic integer index inside a tuple index")
        else:
            kk = self._key(k, self.a.shape[0] if self.a.ndim else None)
            if isinstance(kk, tuple):
                return self._gather(kk[1])
        r = self.a[kk]
        if isinstance(r, _np.ndarray):
            return SymArray(r, self.dtype)
        return r

    def _gather(self, idx):
        """self[idx] along axis 0 where idx cells are symbolic integers: ite chains"""
        n = self.a.shape[0]
        out = _np.empty(idx.a.shape + self.a.shape[1:], dtype=object)
        for pos in _np.ndindex(idx.a.shape):
            i = idx.a[pos]
            if not is_sym(i):
                out[pos] = self.a[int(i)]
                continue
            core.Ctx.cur.obligations.append(("index_in_range", (i.e, n)))
            if self.a.ndim == 1:
                out[pos] = _select(i, [self.a[j] for j in range(n)])
            else:
                for rest in _np.ndindex(self.a.shape[1:]):
                    out[pos + rest] = _select(i, [self.a[(j,) + rest] for j in range(n)])
        if out.ndim == 0:
            return out[()]
        return SymArray(out, self.dtype)

    def __setitem__(self, k, v):
        if isinstance(k, tuple):
            kk = tuple(self._key(x, self.a.shape[i] if i < self.a.ndim else None) for i, x in enumerate(k))
        else:
            kk = self._key(k, self.a.shape[0] if self.a.ndim else None)
        if isinstance(kk, tuple) and builtins.any(isinstance(x, tuple) for x in kk):
            raise UnsupportedByShim("assignment through a symbolic integer index")
        if hasattr(v, "_symq_value"):
            v = v._symq_value()
        if isinstance(v, SymArray):
            v = v.a
        elif isinstance(v, _np.ndarray):
            v = _obj(v)
        elif isinstance(v, (list, tuple)):
            v = _obj(v)
        dt = getattr(self, "dtype", None)
        if dt is not None and getattr(dt, "kind", None) == "U":
            # fixed-width text array: numpy converts to str and silently truncates to the item width
            width = dt.itemsize // 4

            def conv(c):
                if is_sym(c):
                    raise UnsupportedByShim("symbolic value stored in a text array")
                return str(c)[:width]
            v = _np.array([conv(c) for c in v.flat], dtype=object).reshape(v.shape) if isinstance(v, _np.ndarray) else conv(v)
        elif dt is not None and dt == _F4:
            # single-precision array: what is stored is rounded to float32
            v = _np.array([_f32_cell(c) for c in v.flat], dtype=object).reshape(v.shape) if isinstance(v, _np.ndarray) else _f32_cell(v)
        self.a[kk] = v

    # -- arithmetic
    def _binop(self, o, f, dt=None):
        if (hasattr(o, "_symq_value") and not isinstance(o, SymArray)) or type(o).__name__ in ("Unit", "Time", "RecordRows"):
            return NotImplemented
        ob = _obj(o) if isinstance(o, (SymArray, _np.ndarray, list, tuple)) else o
        a, b = self.a, ob
        if isinstance(b, _np.ndarray):
            aa, bb = _np.broadcast_arrays(a, b)
            out = _np.empty(aa.shape, dtype=object)
            for idx in _np.ndindex(aa.shape):
                out[idx] = f(aa[idx], bb[idx])
        else:
            out = _np.empty(a.shape, dtype=object)
            for idx in _np.ndindex(a.shape):
                out[idx] = f(a[idx], b)
        return SymArray(out, dt)

    def __add__(self, o): return self._binop(o, lambda a, b: a + b)
    def __radd__(self, o): return self._binop(o, lambda a, b: b + a)
    def __sub__(self, o): return self._binop(o, lambda a, b: a - b)
    def __rsub__(self, o): return self._binop(o, lambda a, b: b - a)
    def __mul__(self, o): return self._binop(o, lambda a, b: a * b)
    def __rmul__(self, o): return self._binop(o, lambda a, b: b * a)
    def __truediv__(self, o): return self._binop(o, _tdiv, _F8)
    def __rtruediv__(self, o): return self._binop(o, lambda a, b: _tdiv(b, a), _F8)
    def __floordiv__(self, o): return self._binop(o, lambda a, b: a // b)
    def __mod__(self, o): return self._binop(o, _mod)
    def __pow__(self, o): return self._binop(o, _pow)
    def __rpow__(self, o): return self._binop(o, lambda a, b: _pow(b, a))
    def __neg__(self): return self._binop(0, lambda a, b: -a)
    def __pos__(self): return self
    def __abs__(self): return absolute(self)
    def __matmul__(self, o): return dot(self, o)
    def __rmatmul__(self, o): return dot(o, self)

    def __iadd__(self, o):
        self.a[...] = (self + o).a
        return self

    def __isub__(self, o):
        self.a[...] = (self - o).a
        return self

    def __imul__(self, o):
        self.a[...] = (self * o).a
        return self

    def __itruediv__(self, o):
        self.a[...] = (self / o).a
        return self

    def __lt__(self, o): return self._binop(o, lambda a, b: _cmp(a, b, "<"), _B1)
    def __le__(self, o): return self._binop(o, lambda a, b: _cmp(a, b, "<="), _B1)
    def __gt__(self, o): return self._binop(o, lambda a, b: _cmp(a, b, ">"), _B1)
    def __ge__(self, o): return self._binop(o, lambda a, b: _cmp(a, b, ">="), _B1)
    def __eq__(self, o): return self._binop(o, lambda a, b: _cmp(a, b, "=="), _B1)
    def __ne__(self, o): return self._binop(o, lambda a, b: _cmp(a, b, "!="), _B1)
    def __and__(self, o): return self._binop(o, _and, _B1)
    __rand__ = __and__
    def __or__(self, o): return self._binop(o, _or, _B1)
    __ror__ = __or__
    def __invert__(self): return self._binop(0, lambda a, b: _not(a), _B1)

    def __iand__(self, o):
        self.a[...] = (self & o).a
        return self

    def __ior__(self, o):
        self.a[...] = (self | o).a
        return self

    # -- reductions
    def max(self, axis=None): return amax(self, axis)
    def min(self, axis=None): return amin(self, axis)
    def sum(self, axis=None): return sum(self, axis)
    def mean(self, axis=None): return mean(self, axis)
    def std(self, axis=None): return std(self, axis)
    def all(self, axis=None): return all(self, axis)
    def any(self, axis=None): return any(self, axis)
    def argsort(self, axis=-1, kind=None): return argsort(self, kind=kind)
    def argmax(self, axis=None): return argmax(self)
    def argmin(self, axis=None): return argmin(self)
    def ptp(self, axis=None): return ptp(self)
    def dot(self, o): return dot(self, o)
    def sort(self, axis=-1):
        self.a[...] = sort(self).a


ndarray = SymArray


# -- cell level helpers -------------------------------------------------------------------

def _fork_bound(x, n):
    """python slice bound semantics for a symbolic bound on an axis of length n -> concrete int"""
    if core.decide(x >= 0):
        return core.clamp_fork(x, 0, n)
    # negative: counts from the end
    v = core.clamp_fork(x + n, 0, n)
    return v


class SymChoice:
    """a symbolic pick among concrete (hashable, non-numeric) values, e.g. a survey label selected
    through a symbolic permutation: pairs of (z3 condition, value), conditions mutually exclusive"""
    __array_ufunc__ = None

    def __init__(self, pairs):
        merged = {}
        order = []
        for c, v in pairs:
            if v in merged:
                merged[v] = core.z3.Or(merged[v], c)
            else:
                merged[v] = c
                order.append(v)
        self.pairs = [(merged[v], v) for v in order]

    def _eq(self, o):
        if isinstance(o, SymChoice):
            return SB(core.z3.Or([core.z3.And(c1, c2) for c1, v1 in self.pairs for c2, v2 in o.pairs if v1 == v2] or [core.z3.BoolVal(False)]))
        return SB(core.z3.Or([c for c, v in self.pairs if v == o] or [core.z3.BoolVal(False)]))

    def __eq__(self, o):
        return self._eq(o)

    def __ne__(self, o):
        return ~self._eq(o)

    __hash__ = None

    def concretize(self):
        for c, v in self.pairs[:-1]:
            if core.Ctx.decide(c):
                return v
        return self.pairs[-1][1]

    def __repr__(self):
        return "SymChoice(%s)" % [v for _, v in self.pairs]


def _select(i, cells):
    """cells[i] for symbolic integer i as an ite chain (last cell is the default)"""
    if builtins.any(isinstance(c, SymChoice) or not (is_sym(c) or isinstance(c, (int, float, bool, core.Q, _np.number, _np.bool_))) for c in cells):
        pairs = []
        for j, c in enumerate(cells):
            cond = lift(i == j)
            if isinstance(c, SymChoice):
                pairs += [(core.z3.And(cond, cc), v) for cc, v in c.pairs]
            else:
                pairs.append((cond, c))
        return SymChoice(pairs)
    r = cells[-1]
    for j in range(len(cells) - 2, -1, -1):
        r = ite(i == j, cells[j], r)
    return r


def _tdiv(a, b):
    if is_sym(a) or is_sym(b):
        if not is_sym(a):
            return SN(lift(a)) / b
        return a / b
    if isinstance(a, core.Q) or isinstance(b, core.Q):
        return a / b
    if b == 0:
        raise UnsupportedByShim("concrete division by zero in array arithmetic")
    return a / b


def _mod(a, b):
    if is_sym(a):
        return a % b
    if is_sym(b):
        raise UnsupportedByShim("mod by symbolic")
    return a % b


def _pow(a, b):
    if is_sym(a):
        return a ** b
    if is_sym(b):
        return core.uf("POW", a, b)
    return a ** b


def _cmp(a, b, op):
    if isinstance(a, NonFinite) or isinstance(b, NonFinite):
        return _cmp_nonfinite(a, b, op)
    if isinstance(a, SymChoice) or isinstance(b, SymChoice):
        x, y = (a, b) if isinstance(a, SymChoice) else (b, a)
        if op == "==":
            return x._eq(y)
        if op == "!=":
            return ~x._eq(y)
        raise UnsupportedByShim("ordering comparison of symbolic labels")
    if isinstance(a, SB) or isinstance(b, SB):
        ea, eb = lift(a), lift(b)
        if op == "==":
            return SB(ea == eb)
        if op == "!=":
            return SB(ea != eb)
        raise UnsupportedByShim("ordering comparison of booleans")
    if is_sym(a) or is_sym(b):
        if not is_sym(a):
            a = SN(lift(a))
        return {"<": a.__lt__, "<=": a.__le__, ">": a.__gt__, ">=": a.__ge__,
                "==": a.__eq__, "!=": a.__ne__}[op](b)
    return {"<": a < b, "<=": a <= b, ">": a > b, ">=": a >= b, "==": a == b, "!=": a != b}[op] \
        if op not in ("==", "!=") else ((a == b) if op == "==" else (a != b))


def _and(a, b):
    if is_sym(a) or is_sym(b):
        return SB(core.z3.And(lift(a), lift(b)))
    return bool(a) and bool(b)


def _or(a, b):
    if is_sym(a) or is_sym(b):
        return SB(core.z3.Or(lift(a), lift(b)))
    return bool(a) or bool(b)


def _not(a):
    if isinstance(a, SB):
        return ~a
    if isinstance(a, SN):
        raise UnsupportedByShim("bitwise not of a symbolic integer")
    if isinstance(a, (bool, _np.bool_)):
        return not a
    return ~a


def _map(x, f, dt=None):
    if isinstance(x, SymArray):
        out = _np.empty(x.a.shape, dtype=object)
        for idx in _np.ndindex(x.a.shape):
            out[idx] = f(x.a[idx])
        return SymArray(out, dt)
    if hasattr(x, "_symq_value"):
        raise UnsupportedByShim("numpy function applied to a Quantity shim")
    if isinstance(x, (list, tuple, _np.ndarray)):
        return _map(SymArray(_obj(x)), f, dt)
    return f(x)


class ExpCell(SN):
    """EXP(arg) with the one fact the acceptance rule needs built in: EXP is strictly monotone, so
    EXP(a) < EXP(b) <=> a < b.  Any other use falls back to the uninterpreted EXP term."""
    __slots__ = ("arg",)

    def __init__(self, arg):
        self.arg = arg if isinstance(arg, SN) else SN(lift(arg))
        t = core.uf_decl("EXP", 1)(core.z3.ToReal(self.arg.e) if self.arg.is_int() else self.arg.e)
        SN.__init__(self, t)
        if core.Ctx.cur is not None:
            core.Ctx.cur.add_side(t > 0)          # exp is positive

    def _c(self, o, op):
        if isinstance(o, ExpCell):
            return getattr(self.arg, op)(o.arg)
        return getattr(SN, op)(self, o)

    def __lt__(self, o): return self._c(o, "__lt__")
    def __le__(self, o): return self._c(o, "__le__")
    def __gt__(self, o): return self._c(o, "__gt__")
    def __ge__(self, o): return self._c(o, "__ge__")


def exp(x):
    def cell(c):
        if isinstance(c, NonFinite):
            return c.exp()
        if is_sym(c):
            return ExpCell(c)
        import math
        return math.exp(c)
    return _map(x, cell, _F8)


# -- creation -----------------------------------------------------------------------------

def _shape(s):
    if isinstance(s, (int, _np.integer)):
        return (int(s),)
    if isinstance(s, SN):
        return (int(s),)
    return tuple(int(x) for x in s)


def zeros(shape, dtype=float, order=None):
    dt = _np.dtype(dtype)
    out = _np.empty(_shape(shape), dtype=object)
    out[...] = False if dt.kind == "b" else (0 if dt.kind in "iu" else ("" if dt.kind in "US" else 0.0))
    return SymArray(out, dt)


def ones(shape, dtype=float):
    dt = _np.dtype(dtype)
    out = _np.empty(_shape(shape), dtype=object)
    out[...] = True if dt.kind == "b" else (1 if dt.kind in "iu" else 1.0)
    return SymArray(out, dt)


def full(shape, fill_value, dtype=None):
    out = _np.empty(_shape(shape), dtype=object)
    out[...] = fill_value
    if dtype is None and isinstance(fill_value, str):
        dtype = _np.array(fill_value).dtype            # fixed-width text array sized for the fill value ('<U<len>')
    elif dtype is None and isinstance(fill_value, (int, _np.integer)) and not isinstance(fill_value, bool):
        dtype = _I8
    return SymArray(out, _np.dtype(dtype) if dtype is not None else (_F8 if isinstance(fill_value, float) else None))


def empty(shape, dtype=float):
    return zeros(shape, dtype)


def zeros_like(x, dtype=None):
    return zeros(_obj(x).shape, dtype or getattr(x, "dtype", float))


def array(x, dtype=None, copy=True):
    if hasattr(x, "_symq_value") and not isinstance(x, SymArray):
        x = x._symq_value()
    if isinstance(x, SymArray):
        r = x.copy()
        return r.astype(dtype) if dtype is not None else r
    a = _obj(x)
    if a.size == 0 and dtype is None:
        return SymArray(a.copy(), _F8)
    r = SymArray(a.copy())
    if dtype is None and a.size and builtins.all(isinstance(c, str) for c in a.flat):
        r.dtype = _np.array(a.tolist()).dtype          # '<U<longest>' as numpy infers it
    return r.astype(dtype) if dtype is not None else r


def asarray(x, dtype=None):
    if isinstance(x, SymArray) and dtype is None:
        return x
    return array(x, dtype)


ascontiguousarray = asarray


def atleast_1d(x):
    if hasattr(x, "_symq_atleast_1d"):
        return x._symq_atleast_1d()
    if isinstance(x, SymArray):
        return x if x.a.ndim >= 1 else SymArray(x.a.reshape(1), x.dtype)
    a = _obj(x)
    if a.ndim == 0:
        a = a.reshape(1)
    return SymArray(a)


def arange(*args):
    if builtins.any(is_sym(x) for x in args):
        args = [int(x) if is_sym(x) else x for x in args]
    r = _np.arange(*args)
    return SymArray(_obj(r), r.dtype)


def linspace(start, stop, num=50):
    num = int(num)
    cells = [core.Q(start) + (core.Q(stop) - core.Q(start)) * core.Q(i, num - 1) for i in range(num)]
    return SymArray(_obj(cells), _F8)


def diag(x):
    x = x if isinstance(x, SymArray) else SymArray(_obj(x))
    if x.a.ndim == 1:
        n = x.a.shape[0]
        out = _np.empty((n, n), dtype=object)
        out[...] = 0.0
        for i in range(n):
            out[i, i] = x.a[i]
        return SymArray(out, x.dtype)
    if x.a.ndim == 2:
        return SymArray(_np.array([x.a[i, i] for i in range(builtins.min(x.a.shape))], dtype=object), x.dtype)
    raise UnsupportedByShim("diag of ndim>2")


def eye(n):
    out = _np.empty((n, n), dtype=object)
    out[...] = 0.0
    for i in range(n):
        out[i, i] = 1.0
    return SymArray(out, _F8)


def vander(x, N=None, increasing=False):
    x = x if isinstance(x, SymArray) else SymArray(_obj(x))
    n = x.a.shape[0]
    N = n if N is None else int(N)
    out = _np.empty((n, N), dtype=object)
    for i in range(n):
        p = 1.0 if x.dtype.kind == "f" else 1
        for j in range(N):
            out[i, j if increasing else N - 1 - j] = p
            p = p * x.a[i] if j + 1 < N else p
    return SymArray(out, x.dtype if N > 0 else _F8)


# -- joining ------------------------------------------------------------------------------

def _arrs(seq):
    return [s if isinstance(s, SymArray) else (SymArray(s._symq_value().a) if hasattr(s, "_symq_value") else SymArray(_obj(s))) for s in seq]


def _join_dtype(arrs):
    dts = [a.dtype for a in arrs if a.a.size or True]
    if builtins.any(d == _OBJ for d in dts):
        return _OBJ
    return _np.result_type(*dts) if dts else _F8


def concatenate(seq, axis=0):
    arrs = _arrs(seq)
    return SymArray(_np.concatenate([a.a for a in arrs], axis=axis), _join_dtype(arrs))


def hstack(seq):
    arrs = _arrs(seq)
    return SymArray(_np.hstack([a.a for a in arrs]), _join_dtype(arrs))


def vstack(seq):
    arrs = _arrs(seq)
    return SymArray(_np.vstack([a.a for a in arrs]), _join_dtype(arrs))


def stack(seq, axis=0):
    arrs = _arrs(seq)
    return SymArray(_np.stack([a.a for a in arrs], axis=axis), _join_dtype(arrs))


def squeeze(x, axis=None):
    if hasattr(x, "_symq_squeeze"):
        return x._symq_squeeze()
    if isinstance(x, SymArray):
        r = x.a.squeeze(axis)
        return SymArray(r, x.dtype)
    return x


def broadcast_arrays(*xs):
    arrs = _arrs(xs)
    return [SymArray(b, a.dtype) for a, b in zip(arrs, _np.broadcast_arrays(*[a.a for a in arrs]))]


# -- elementwise math ---------------------------------------------------------------------

def _uf1(name):
    def f(x):
        if hasattr(x, "_symq_value") and not isinstance(x, SymArray):
            # numpy ufunc on a Quantity: sqrt keeps a (square-rooted) unit, the others need a dimensionless argument
            if name == "SQRT":
                return x.__class__(f(x.value), x.unit ** 0.5)
            return f(x.to_value(type(x.unit)(1, {}, "")))

        def cell(c):
            if is_sym(c):
                return core.uf(name, c)
            import math
            return {"EXP": math.exp, "LOG": math.log, "SQRT": math.sqrt, "SIN": math.sin,
                    "COS": math.cos, "TAN": math.tan}[name](c)
        return _map(x, cell, _F8)
    return f


log = _uf1("LOG")
sqrt = _uf1("SQRT")
sin = _uf1("SIN")
cos = _uf1("COS")


def absolute(x):
    if hasattr(x, "_symq_value") and not isinstance(x, SymArray):
        return x.__abs__()

    def cell(c):
        if isinstance(c, SN):
            return c.__abs__()
        return builtins.abs(c)
    return _map(x, cell, getattr(x, "dtype", None))


abs = absolute


def isfinite(x):
    """Symbolic reals are finite by construction; non-finite cells are modelled by the harness as
    NonFinite marker objects or float nan/inf."""
    def cell(c):
        if isinstance(c, FinCell):
            return c.flag
        if is_sym(c):
            return True
        if isinstance(c, NonFinite):
            return False
        if isinstance(c, MaybeFinite):
            return c.flag
        if isinstance(c, core.Q):
            return True
        return bool(_np.isfinite(c))
    if hasattr(x, "_symq_value") and not isinstance(x, SymArray):
        x = x._symq_value()
    return _map(x, cell, _B1)


def isnan(x):
    def cell(c):
        if is_sym(c) or isinstance(c, core.Q):
            return False
        if isinstance(c, NonFinite):
            return c.kind == "nan"
        return bool(_np.isnan(c))
    return _map(x, cell, _B1)


class NonFinite:
    """a concrete non-finite cell (nan / +inf / -inf) living in a symbolic array, with IEEE semantics for the
    operations the repository applies to likelihood values: + - with finite numbers, ordering, exp, isfinite"""
    __array_ufunc__ = None

    def __init__(self, kind):
        assert kind in ("nan", "inf", "-inf")
        self.kind = kind

    def __repr__(self):
        return "NonFinite(%s)" % self.kind

    def _neg(self):
        return NonFinite({"inf": "-inf", "-inf": "inf", "nan": "nan"}[self.kind])

    def _add(self, o):
        if isinstance(o, NonFinite):
            if "nan" in (self.kind, o.kind) or self.kind != o.kind:
                return NonFinite("nan")
            return NonFinite(self.kind)
        return NonFinite(self.kind)

    def __add__(self, o): return self._add(o)
    __radd__ = __add__
    def __sub__(self, o): return self._add(o._neg() if isinstance(o, NonFinite) else o)
    def __rsub__(self, o): return self._neg()._add(o)
    def __neg__(self): return self._neg()

    def __mul__(self, o):
        if isinstance(o, (int, float)) and not isinstance(o, bool) and o != 0:
            return NonFinite(self.kind) if o > 0 else self._neg()
        raise UnsupportedByShim("product of a non-finite value with a symbolic / zero factor")
    __rmul__ = __mul__

    def exp(self):
        return {"-inf": 0.0, "inf": NonFinite("inf"), "nan": NonFinite("nan")}[self.kind]


def _cmp_nonfinite(a, b, op):
    """IEEE ordering with concrete non-finite operands (finite operands are arbitrary finite reals)"""
    ka = a.kind if isinstance(a, NonFinite) else "fin"
    kb = b.kind if isinstance(b, NonFinite) else "fin"
    if "nan" in (ka, kb):
        return op == "!="
    rank = {"-inf": -1, "fin": 0, "inf": 1}
    if ka == kb:            # both the same infinity
        return op in ("==", "<=", ">=")
    ra, rb = rank[ka], rank[kb]
    return {"<": ra < rb, "<=": ra < rb, ">": ra > rb, ">=": ra > rb, "==": False, "!=": True}[op]


class FinCell(SN):
    """a real cell with a symbolic 'is finite' flag: value `e` when the flag holds, some non-finite
    float otherwise.  Arithmetic propagates the flag (result finite iff all operands are); a comparison
    involving a cell whose flag does not hold is an unconstrained Boolean (NaN: False, +-inf: either).
    VCs only speak about cells whose flag holds."""
    __slots__ = ("flag",)

    def __init__(self, e, flag):
        SN.__init__(self, e)
        self.flag = flag


core.FINCELL[0] = FinCell


class MaybeFinite:
    """a cell that is `value` when `flag` (an SB) holds and non-finite otherwise. Arithmetic on it
    is not modelled: the code under test is expected to filter on isfinite first."""
    def __init__(self, flag, value):
        self.flag, self.value = flag, value

    def __repr__(self):
        return "MaybeFinite(%s,%s)" % (self.flag, self.value)


def where(cond, x=None, y=None):
    cond = cond if isinstance(cond, SymArray) else SymArray(_obj(cond))
    if x is None and y is None:
        mask = _np.array([bool(c) for c in cond.a.flat], dtype=bool).reshape(cond.a.shape)
        return tuple(SymArray(_obj(ix), _I8) for ix in _np.where(mask))
    xa = _np.broadcast_to(_obj(x), cond.a.shape)
    ya = _np.broadcast_to(_obj(y), cond.a.shape)
    out = _np.empty(cond.a.shape, dtype=object)
    for idx in _np.ndindex(cond.a.shape):
        c = cond.a[idx]
        if is_sym(c):
            out[idx] = ite(c, xa[idx], ya[idx])
        else:
            out[idx] = xa[idx] if c else ya[idx]
    return SymArray(out)


def nonzero(x):
    return where(x)


def _reduce(x, axis, f, dt=None):
    x = x if isinstance(x, SymArray) else SymArray(_obj(x))
    if axis is None:
        return f(list(x.a.flat))
    a = _np.moveaxis(x.a, axis, -1)
    out = _np.empty(a.shape[:-1], dtype=object)
    for idx in _np.ndindex(a.shape[:-1]):
        out[idx] = f(list(a[idx]))
    return SymArray(out, dt)


def _nonempty(cells, what):
    if not cells:
        raise ValueError("zero-size array to reduction operation %s which has no identity" % what)
    return cells


def _extreme(cells, what):
    """max / min with IEEE non-finite cells: nan propagates, the dominating infinity wins, the other one is ignored"""
    _nonempty(cells, what)
    nf = [c for c in cells if isinstance(c, NonFinite)]
    if builtins.any(c.kind == "nan" for c in nf):
        return NonFinite("nan")
    top, bottom = ("inf", "-inf") if what == "maximum" else ("-inf", "inf")
    if builtins.any(c.kind == top for c in nf):
        return NonFinite(top)
    rest = [c for c in cells if not isinstance(c, NonFinite)]
    if not rest:
        return NonFinite(bottom)
    return core.sym_max(rest) if what == "maximum" else core.sym_min(rest)


def amax(x, axis=None):
    if hasattr(x, "_symq_reduce"):
        return x._symq_reduce(amax)
    return _reduce(x, axis, lambda c: _extreme(c, "maximum"), getattr(x, "dtype", None))


def amin(x, axis=None):
    if hasattr(x, "_symq_reduce"):
        return x._symq_reduce(amin)
    return _reduce(x, axis, lambda c: _extreme(c, "minimum"), getattr(x, "dtype", None))


max = amax
min = amin


def ptp(x, axis=None):
    return amax(x) - amin(x)


def sum(x, axis=None):
    def f(cells):
        cells = [c._as_int() if isinstance(c, SB) else (int(c) if isinstance(c, (bool, _np.bool_)) else c) for c in cells]
        return core.sym_sum(cells) if cells else 0
    return _reduce(x, axis, f)


def mean(x, axis=None):
    if hasattr(x, "_symq_reduce"):
        return x._symq_reduce(mean)
    return _reduce(x, axis, lambda c: core.sym_sum(_nonempty(c, "mean")) / len(c), _F8)


def std(x, axis=None):
    if hasattr(x, "_symq_reduce"):
        return x._symq_reduce(std)

    def f(c):
        m = core.sym_sum(c) / len(c)
        v = core.sym_sum([(ci - m) * (ci - m) for ci in c]) / len(c)
        return core.uf("SQRT", v) if is_sym(v) else float(v) ** 0.5
    return _reduce(x, axis, f, _F8)


def all(x, axis=None):
    def f(cells):
        if builtins.any(is_sym(c) for c in cells):
            return SB(core.z3.And([lift(c) if isinstance(c, (SB, bool, _np.bool_)) else lift(c != 0) for c in cells]))
        return builtins.all(bool(c) for c in cells)
    return _reduce(x, axis, f, _B1)


def any(x, axis=None):
    def f(cells):
        if builtins.any(is_sym(c) for c in cells):
            return SB(core.z3.Or([lift(c) if isinstance(c, (SB, bool, _np.bool_)) else lift(c != 0) for c in cells]))
        return builtins.any(bool(c) for c in cells)
    return _reduce(x, axis, f, _B1)


def dot(a, b):
    a = a if isinstance(a, SymArray) else SymArray(_obj(a))
    b = b if isinstance(b, SymArray) else SymArray(_obj(b))
    A, B = a.a, b.a
    if A.ndim == 1 and B.ndim == 1:
        return core.sym_sum([A[i] * B[i] for i in range(A.shape[0])])
    if A.ndim == 2 and B.ndim == 1:
        return SymArray(_np.array([core.sym_sum([A[i, k] * B[k] for k in range(A.shape[1])]) for i in range(A.shape[0])], dtype=object), _F8)
    if A.ndim == 1 and B.ndim == 2:
        return SymArray(_np.array([core.sym_sum([A[k] * B[k, j] for k in range(B.shape[0])]) for j in range(B.shape[1])], dtype=object), _F8)
    if A.ndim == 2 and B.ndim == 2:
        out = _np.empty((A.shape[0], B.shape[1]), dtype=object)
        for i in range(A.shape[0]):
            for j in range(B.shape[1]):
                out[i, j] = core.sym_sum([A[i, k] * B[k, j] for k in range(A.shape[1])])
        return SymArray(out, _F8)
    raise UnsupportedByShim("dot of ndim>2")


# -- order: contracts ---------------------------------------------------------------------

def _concrete_cells(cells):
    return not builtins.any(is_sym(c) or isinstance(c, SymChoice) for c in cells)


DEFAULT_SORT_STABLE = False   # harness switch: model numpy's default sort as stable (true for n < 16: insertion sort)


def argsort(x, axis=-1, kind=None):
    """ANY permutation p with key[p[i]] <= key[p[i+1]] (numpy's default sort is not stable, so the
    property must hold for every such p). Symbolic keys: p is a vector of fresh symbolic integers
    constrained to be a sorting permutation (no forking)."""
    if hasattr(x, "_symq_value") and not isinstance(x, SymArray):
        x = x._symq_value()
    x = x if isinstance(x, SymArray) else SymArray(_obj(x))
    if x.a.ndim != 1:
        raise UnsupportedByShim("argsort of ndim != 1")
    cells = list(x.a)
    n = len(cells)
    if n <= 1:
        return SymArray(_obj(list(range(n))), _I8)
    ctx = core.Ctx.cur
    z3 = core.z3
    if not _concrete_cells(cells):
        # already strictly increasing under the path condition?  then the sorting permutation is unique: identity
        inc = z3.And([lift(_cmp(cells[i], cells[i + 1], "<")) for i in range(n - 1)])
        if not ctx._feasible(z3.Not(inc)):
            return SymArray(_obj(list(range(n))), _I8)
    p = [core.fresh("int", "perm") for _ in range(n)]
    ctx.add_side(z3.And([z3.And(pi.e >= 0, pi.e < n) for pi in p]))
    ctx.add_side(z3.Distinct(*[pi.e for pi in p]))
    keys = [_select(pi, cells) for pi in p]
    for i in range(n - 1):
        ctx.add_side(lift(_cmp(keys[i], keys[i + 1], "<=")))
        if kind in ("stable", "mergesort") or (kind is None and DEFAULT_SORT_STABLE):
            # a stable sort keeps equal keys in their original order: THE unique such permutation
            ctx.add_side(z3.Implies(lift(_cmp(keys[i], keys[i + 1], "==")), p[i].e < p[i + 1].e))
    ctx.notes.setdefault("argsort", []).append((cells, p))
    return SymArray(_np.array(p, dtype=object), _I8)


def sort(x, axis=-1):
    if hasattr(x, "_symq_value") and not isinstance(x, SymArray):
        return x.__class__(sort(x._symq_value()), x.unit)      # np.sort of a Quantity is a Quantity
    x = x if isinstance(x, SymArray) else SymArray(_obj(x))
    if x.a.ndim != 1:
        raise UnsupportedByShim("sort of ndim != 1")
    p = argsort(x)
    return x[p]


def argmax(x, axis=None):
    """index of A maximal element (numpy returns the first; any caller relying on 'first' is
    modelled exactly: the first index attaining the maximum)."""
    if hasattr(x, "_symq_value") and not isinstance(x, SymArray):
        x = x._symq_value()
    x = x if isinstance(x, SymArray) else SymArray(_obj(x))
    cells = list(x.a.flat)
    if not cells:
        raise ValueError("attempt to get argmax of an empty sequence")
    for i, c in enumerate(cells):
        if isinstance(c, NonFinite) and c.kind == "nan":
            return i                       # numpy: the first NaN is the arg max
    for i, c in enumerate(cells):
        if isinstance(c, NonFinite) and c.kind == "inf":
            return i
    if builtins.any(isinstance(c, NonFinite) for c in cells):
        fin = [i for i, c in enumerate(cells) if not isinstance(c, NonFinite)]
        if not fin:
            return 0
        sub = argmax(SymArray(_obj([cells[i] for i in fin])))
        return _select(sub, fin) if is_sym(sub) else fin[sub]
    best_i, best = 0, cells[0]
    for i in range(1, len(cells)):
        c = _cmp(cells[i], best, ">")
        if is_sym(c):
            best_i = ite(c, i, best_i)
            best = ite(c, cells[i], best)
        elif c:
            best_i, best = i, cells[i]
    return best_i


def argmin(x, axis=None):
    return argmax(-(x if isinstance(x, SymArray) else SymArray(_obj(x))))


def argpartition(x, kth, axis=-1):
    """contract: result[kth] is an index of the kth order statistic; smaller-or-equal before,
    greater-or-equal after. Modelled as a full sorting permutation (a refinement of every
    argpartition result at position kth as far as the *value* there is concerned)."""
    return argsort(x)


def partition(x, kth, axis=-1):
    """np.partition: element kth is in its sorted position; modelled as the fully sorted array (one admissible result)"""
    x = _as(x)
    return x[argsort(x)]


def array_split(ary, indices_or_sections, axis=0):
    """np.array_split for an integer number of sections along axis 0 (numpy's rule: the first len % n sections get one more)"""
    a = _as(ary)
    if axis != 0 or not isinstance(indices_or_sections, (int, _np.integer)) or isinstance(indices_or_sections, bool):
        if is_sym(indices_or_sections):
            indices_or_sections = core.fork_int(indices_or_sections)
        else:
            raise UnsupportedByShim("array_split with explicit indices / axis != 0")
    n = int(indices_or_sections)
    if n <= 0:
        raise ValueError("number sections must be larger than 0.")
    L_ = a.a.shape[0]
    each, extras = divmod(L_, n)
    out, start = [], 0
    for i in builtins.range(n):
        size = each + (1 if i < extras else 0)
        out.append(a[start:start + size])
        start += size
    return out


def lexsort(keys, axis=-1):
    """indirect stable sort by several keys, the LAST key being the primary one (numpy's contract)"""
    ks = [k._symq_value() if (hasattr(k, "_symq_value") and not isinstance(k, SymArray)) else (k if isinstance(k, SymArray) else SymArray(_obj(k))) for k in keys]
    n = len(ks[0])
    if n <= 1:
        return SymArray(_obj(list(range(n))), _I8)
    ctx = core.Ctx.cur
    z3 = core.z3
    p = [core.fresh("int", "lperm") for _ in range(n)]
    ctx.add_side(z3.And([z3.And(pi.e >= 0, pi.e < n) for pi in p]))
    ctx.add_side(z3.Distinct(*[pi.e for pi in p]))
    sel = [[_select(pi, list(k.a)) for pi in p] for k in ks]
    for i in range(n - 1):
        # lexicographic <= over (last key, ..., first key, original index)
        cond = p[i].e < p[i + 1].e
        for k in range(len(ks)):           # innermost tie-break first
            a, b = sel[k][i], sel[k][i + 1]
            cond = z3.Or(lift(_cmp(a, b, "<")), z3.And(lift(_cmp(a, b, "==")), cond))
        ctx.add_side(cond)
    return SymArray(_np.array(p, dtype=object), _I8)


def _unique_general(x, return_index, return_inverse, return_counts):
    """np.unique by deciding the order / equality of the cells (forks; small arrays): sorted distinct values, index of the
    first occurrence, inverse map, counts.  NaN cells collapse into one trailing NaN (numpy >= 1.21), infinities sort at the ends."""
    x = _as(x)
    cells = list(x.a.flat)

    def lt(a, b):
        an, bn = isinstance(a, NonFinite), isinstance(b, NonFinite)
        if an or bn:
            rank = lambda c: (0 if c.kind == "-inf" else 2 if c.kind in ("inf", "+inf") else 3) if isinstance(c, NonFinite) else 1
            return rank(a) < rank(b)
        r = a < b
        return core.decide(r) if isinstance(r, core.SB) else bool(r)

    def eq(a, b):
        an, bn = isinstance(a, NonFinite), isinstance(b, NonFinite)
        if an or bn:
            return an and bn and a.kind == b.kind
        r = a == b
        return core.decide(r) if isinstance(r, core.SB) else bool(r)
    groups = []           # sorted list of [value, first index, count]
    inverse_of = {}
    for i, c in enumerate(cells):
        placed = False
        for g in groups:
            if eq(c, g[0]):
                g[2] += 1
                g[3].append(i)
                placed = True
                break
        if placed:
            continue
        pos = 0
        while pos < len(groups) and lt(groups[pos][0], c):
            pos += 1
        groups.insert(pos, [c, i, 1, [i]])
    vals = SymArray(_obj([g[0] for g in groups]), x.dtype)
    out = [vals]
    if return_index:
        out.append(SymArray(_obj([g[1] for g in groups]), _I8))
    if return_inverse:
        inv = [None] * len(cells)
        for gi, g in enumerate(groups):
            for i in g[3]:
                inv[i] = gi
        out.append(SymArray(_obj(inv), _I8))
    if return_counts:
        out.append(SymArray(_obj([g[2] for g in groups]), _I8))
    return tuple(out) if len(out) > 1 else out[0]


def unique(x, return_index=False, return_inverse=False, return_counts=False):
    if return_index or return_inverse:
        return _unique_general(x, return_index, return_inverse, return_counts)
    if return_counts:
        vals = unique(x)
        xa = x._symq_value() if (hasattr(x, "_symq_value") and not isinstance(x, SymArray)) else (x if isinstance(x, SymArray) else SymArray(_obj(x)))
        cnt = [builtins.sum(1 for c in xa.a.flat if (c.concretize() if isinstance(c, SymChoice) else (core.fork_int(c) if isinstance(c, SN) else c)) == v) for v in vals.a]
        return vals, SymArray(_obj(cnt), _I8)
    if hasattr(x, "_symq_value") and not isinstance(x, SymArray):
        x = x._symq_value()
    x = x if isinstance(x, SymArray) else SymArray(_obj(x))
    cells = list(x.a.flat)
    # symbolic cells are concretised by forking on their VALUE (np.unique's result depends on it)
    conc = []
    for c in cells:
        if isinstance(c, SymChoice):
            conc.append(c.concretize())
        elif isinstance(c, SN):
            if not c.is_int():
                raise UnsupportedByShim("unique of symbolic reals")
            conc.append(core.fork_int(c))
        else:
            conc.append(c)
    cells = conc
    vals = sorted(set(cells))
    return SymArray(_obj(vals), x.dtype)


def histogram(x, bins=10, range=None):
    if hasattr(x, "_symq_value") and not isinstance(x, SymArray):
        x = x._symq_value()
    x = x if isinstance(x, SymArray) else SymArray(_obj(x))
    if isinstance(bins, (int, _np.integer)):
        raise UnsupportedByShim("histogram with automatic bin edges")
    edges = bins if isinstance(bins, SymArray) else SymArray(_obj(bins))
    E = list(edges.a)
    nb = len(E) - 1
    counts = []
    for j in builtins.range(nb):
        cs = []
        for c in x.a.flat:
            lo = _cmp(c, E[j], ">=")
            hi = _cmp(c, E[j + 1], "<=" if j == nb - 1 else "<")
            cs.append(_and(lo, hi))
        counts.append(core.sym_sum([ci._as_int() if isinstance(ci, SB) else int(ci) for ci in cs]) if cs else 0)
    return SymArray(_obj(counts), _I8), edges


class _Linalg:
    @staticmethod
    def inv(x):
        """fresh Y with hypothesis X.Y = I (contract of a matrix inverse)"""
        if hasattr(x, "_symq_value") and not isinstance(x, SymArray):
            x = x._symq_value()
        x = x if isinstance(x, SymArray) else SymArray(_obj(x))
        x = SymArray(x.a.copy(), x.dtype)     # snapshot: callers reuse their buffers
        n = x.a.shape[0]
        Y = _np.empty((n, n), dtype=object)
        for i in builtins.range(n):
            for j in builtins.range(n):
                Y[i, j] = core.fresh("real", "inv")
        ctx = core.Ctx.cur
        for i in builtins.range(n):
            for j in builtins.range(n):
                s = core.sym_sum([x.a[i, k] * Y[k, j] for k in builtins.range(n)])
                ctx.add_side(lift(s == (1 if i == j else 0)))
        ctx.notes.setdefault("inv", []).append((x, Y))
        return SymArray(Y, _F8)


linalg = _Linalg()


def isscalar(x):
    return not isinstance(x, (SymArray, _np.ndarray, list, tuple)) and not hasattr(x, "_symq_value")


def shape(x):
    return _obj(x).shape


def isclose(a, b, rtol=1e-05, atol=1e-08, equal_nan=False):
    """|a - b| <= atol + rtol * |b| elementwise (numpy's definition; finite cells)"""
    from fractions import Fraction as _Fr
    a, b = _as(a), _as(b)
    sh = _np.broadcast_shapes(a.a.shape, b.a.shape)
    aa, bb = _np.broadcast_to(a.a, sh), _np.broadcast_to(b.a, sh)
    out = _np.empty(sh, dtype=object)
    rt, at = _Fr(repr(float(rtol))), _Fr(repr(float(atol)))
    for idx in _np.ndindex(sh):
        x, y = aa[idx], bb[idx]
        if isinstance(x, NonFinite) or isinstance(y, NonFinite):
            raise UnsupportedByShim("isclose on non-finite cells")
        if is_sym(x) or is_sym(y):
            X = x if isinstance(x, SN) else SN(core.lift(x))
            Y = y if isinstance(y, SN) else SN(core.lift(y))
            out[idx] = abs(X - Y) <= abs(Y) * rt + at
        else:
            out[idx] = bool(_np.isclose(x, y, rtol=rtol, atol=atol))
    return SymArray(out, _B1)


def allclose(a, b, rtol=1e-05, atol=1e-08, equal_nan=False):
    return all(isclose(a, b, rtol=rtol, atol=atol, equal_nan=equal_nan))


# -- a wider slice of the numpy API (thin wrappers over the primitives above) ------------------

def _as(x):
    if hasattr(x, "_symq_value") and not isinstance(x, SymArray):
        return x._symq_value()
    return x if isinstance(x, SymArray) else SymArray(_obj(x))


def _binary(f):
    def g(a, b):
        if isinstance(a, SymArray) or isinstance(b, SymArray) or isinstance(a, (list, tuple, _np.ndarray)) or isinstance(b, (list, tuple, _np.ndarray)):
            return f(_as(a) if not isinstance(b, SymArray) or isinstance(a, (list, tuple, _np.ndarray, SymArray)) else a, b)
        return f(a, b)
    return g


mod = _binary(lambda a, b: a % b)
remainder = mod
add = _binary(lambda a, b: a + b)
subtract = _binary(lambda a, b: a - b)
multiply = _binary(lambda a, b: a * b)
divide = _binary(lambda a, b: a / b)
true_divide = divide
power = _binary(lambda a, b: a ** b)
greater = _binary(lambda a, b: a > b)
greater_equal = _binary(lambda a, b: a >= b)
less = _binary(lambda a, b: a < b)
less_equal = _binary(lambda a, b: a <= b)
equal = _binary(lambda a, b: a == b)
not_equal = _binary(lambda a, b: a != b)
logical_and = _binary(lambda a, b: a & b)
logical_or = _binary(lambda a, b: a | b)


def logical_not(a):
    return ~_as(a)


def negative(a):
    return -_as(a) if not is_sym(a) else -a


fabs = absolute


def square(a):
    return a * a


def sign(x):
    def cell(c):
        if is_sym(c):
            return ite(c > 0, 1, ite(c < 0, -1, 0))
        return (c > 0) - (c < 0)
    return _map(x, cell)


def maximum(a, b):
    return where(_as(a) >= b, a, b) if not (is_sym(a) and is_sym(b)) else core.sym_max([a, b])


def minimum(a, b):
    return where(_as(a) <= b, a, b) if not (is_sym(a) and is_sym(b)) else core.sym_min([a, b])


def clip(x, lo, hi):
    return minimum(maximum(x, lo), hi)


def floor(x):
    def cell(c):
        if is_sym(c):
            e = lift(c)
            return c if c.is_int() else SN(core.z3.ToReal(core.z3.ToInt(e)))
        import math
        return float(math.floor(c))
    return _map(x, cell, _F8)


def ceil(x):
    return -floor(-(_as(x) if not is_sym(x) else x))


def trunc(x):
    """towards zero: floor for x >= 0, -floor(-x) otherwise"""
    def cell(c):
        if is_sym(c):
            if c.is_int():
                return c
            e = lift(c)
            z3 = core.z3
            return SN(z3.If(e >= 0, z3.ToReal(z3.ToInt(e)), -z3.ToReal(z3.ToInt(-e))))
        import math
        return float(math.trunc(c))
    return _map(x, cell, _F8)


def modf(x):
    """(fractional part, integral part), both with the sign of x (numpy.modf)"""
    xa = _as(x) if not is_sym(x) else SymArray(_obj([x]))
    ip = trunc(xa)
    fp = xa - ip
    if is_sym(x):
        return fp.a[0], ip.a[0]
    return fp, ip


def atleast_2d(x):
    a = _as(x)
    if a.a.ndim >= 2:
        return a
    return SymArray(a.a.reshape(1, -1) if a.a.ndim == 1 else a.a.reshape(1, 1), a.dtype)


def diff(x, n=1):
    x = _as(x)
    if n != 1 or x.a.ndim != 1:
        raise UnsupportedByShim("diff beyond 1-D first differences")
    return x[1:] - x[:-1]


def cumsum(x, axis=None):
    x = _as(x)
    if x.a.ndim != 1:
        raise UnsupportedByShim("cumsum of ndim != 1")
    out, acc = [], 0
    for c in x.a:
        c = c._as_int() if isinstance(c, SB) else (int(c) if isinstance(c, (bool, _np.bool_)) else c)
        acc = c + acc if is_sym(c) and not is_sym(acc) else acc + c
        out.append(acc)
    return SymArray(_obj(out))


def prod(x, axis=None):
    def f(cells):
        p = 1
        for c in cells:
            p = c * p if is_sym(c) and not is_sym(p) else p * c
        return p
    return _reduce(x, axis, f)


def var(x, axis=None):
    def f(c):
        m_ = core.sym_sum(c) / len(c)
        return core.sym_sum([(ci - m_) * (ci - m_) for ci in c]) / len(c)
    if hasattr(x, "_symq_reduce"):
        raise UnsupportedByShim("var of a Quantity")
    return _reduce(x, axis, f, _F8)


def median(x, axis=None):
    x = _as(x)
    if x.a.ndim != 1:
        raise UnsupportedByShim("median of ndim != 1")
    s_ = sort(x)
    n = len(s_)
    if n == 0:
        raise ValueError("median of empty array")
    return s_.a[n // 2] if n % 2 else (s_.a[n // 2 - 1] + s_.a[n // 2]) / 2


def count_nonzero(x, axis=None):
    x = _as(x)
    return sum(x.astype(bool) if x.dtype != _B1 else x, axis)


def flatnonzero(x):
    return where(_as(x).ravel())[0]


def take(x, idx, axis=None):
    if axis not in (None, 0):
        raise UnsupportedByShim("take along axis != 0")
    return _as(x)[idx]


def copy(x):
    return _as(x).copy()


def ravel(x):
    return _as(x).ravel()


def reshape(x, shp):
    return _as(x).reshape(shp)


def transpose(x, *ax):
    return _as(x).transpose(*ax)


def flip(x, axis=None):
    x = _as(x)
    return SymArray(_np.flip(x.a, axis), x.dtype)


def roll(x, shift, axis=None):
    x = _as(x)
    return SymArray(_np.roll(x.a, int(shift), axis), x.dtype)


def repeat(x, n, axis=None):
    x = _as(x)
    return SymArray(_np.repeat(x.a, int(n) if not isinstance(n, SymArray) else [int(c) for c in n.a], axis), x.dtype)


def tile(x, reps):
    x = _as(x)
    return SymArray(_np.tile(x.a, reps), x.dtype)


def append(x, v, axis=None):
    return concatenate((_as(x).ravel() if axis is None else x, _as(v).ravel() if axis is None else v), axis=0 if axis is None else axis)


def column_stack(seq):
    arrs = _arrs(seq)
    return SymArray(_np.column_stack([a.a for a in arrs]), _join_dtype(arrs))


def expand_dims(x, axis):
    x = _as(x)
    return SymArray(_np.expand_dims(x.a, axis), x.dtype)


def full_like(x, v, dtype=None):
    return full(_obj(x).shape, v, dtype)


def ones_like(x, dtype=None):
    return ones(_obj(x).shape, dtype or getattr(x, "dtype", float))


def empty_like(x, dtype=None):
    return zeros(_obj(x).shape, dtype or getattr(x, "dtype", float))


def isin(x, test):
    x = _as(x)
    tv = list(_as(test).a.flat)

    def cell(c):
        r = False
        for t_ in tv:
            e = _cmp(c, t_, "==")
            r = _or(r, e)
        return r
    return _map(x, cell, _B1)


def array_equal(a, b):
    a, b = _as(a), _as(b)
    if a.a.shape != b.a.shape:
        return False
    return all(a == b)


def outer(a, b):
    a, b = _as(a), _as(b)
    out = _np.empty((a.a.size, b.a.size), dtype=object)
    for i, x in enumerate(a.a.flat):
        for j, y in enumerate(b.a.flat):
            out[i, j] = x * y
    return SymArray(out, _F8)


def trace(x):
    x = _as(x)
    return core.sym_sum([x.a[i, i] for i in builtins.range(builtins.min(x.a.shape))])


def nanmax(x, axis=None):
    return amax(x, axis)


def nanmin(x, axis=None):
    return amin(x, axis)


def ndim(x):
    return _obj(x).ndim


def size(x):
    return _obj(x).size


def iterable(x):
    return isinstance(x, (SymArray, list, tuple, _np.ndarray))




def arctan2(y, x):
    return _map2(y, x, lambda a, b: core.uf("ARCTAN2", a, b))


def _map2(a, b, f):
    return _as(a)._binop(b, f, _F8) if isinstance(a, (SymArray, list, tuple, _np.ndarray)) else (_as(b)._binop(a, lambda q, p: f(p, q), _F8) if isinstance(b, (SymArray, list, tuple, _np.ndarray)) else f(a, b))


def log10(x):
    return _map(x, lambda c: core.uf("LOG", c) / core.uf("LOG", 10) if is_sym(c) else __import__("math").log10(c), _F8)


def _concrete(x):
    """plain numpy / Python value of an argument that holds no symbolic cell; raises _HasSym otherwise"""
    if isinstance(x, SymArray):
        if builtins.any(is_sym(c) or isinstance(c, (NonFinite, MaybeFinite, SymChoice)) for c in x.a.flat):
            raise _HasSym()
        try:
            return _np.array(x.a.tolist(), dtype=x.dtype if getattr(x, "dtype", None) is not None else None)
        except (TypeError, ValueError):
            return _np.array(x.a.tolist())
    if is_sym(x) or isinstance(x, (NonFinite, MaybeFinite, SymChoice)) or hasattr(x, "_symq_value"):
        raise _HasSym()
    if isinstance(x, (list, tuple)):
        return type(x)(_concrete(v) for v in x)
    if isinstance(x, dict):
        return {k: _concrete(v) for k, v in x.items()}
    return x


class _HasSym(Exception):
    pass


def _wrap_back(r):
    if isinstance(r, _np.ndarray):
        return SymArray(_obj(r.tolist()) if r.dtype != object else r, r.dtype if r.dtype != object else None)
    if isinstance(r, (tuple, list)):
        return type(r)(_wrap_back(v) for v in r)
    if isinstance(r, _np.generic):
        return r.item()
    return r


def __getattr__(name):
    if name.startswith("__"):
        raise AttributeError(name)
    real = getattr(_np, name, None)
    if real is None:
        raise AttributeError("module 'numpy' has no attribute %r" % name)
    if not callable(real) or isinstance(real, type):
        return real                       # constants, dtypes, exception classes

    def on_concrete(*a, **k):
        # a numpy function the shim does not model: exact on purely concrete arguments (numpy itself), unsupported otherwise
        try:
            ca, ck = [_concrete(v) for v in a], {kk: _concrete(v) for kk, v in k.items()}
        except _HasSym:
            raise UnsupportedByShim("numpy.%s is not modelled by symx.symnp for symbolic arguments" % name)
        return _wrap_back(real(*ca, **ck))
    on_concrete.__name__ = name
    return on_concrete
