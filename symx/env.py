"""symx.env -- nondeterministic / contract stubs for everything the repository does not own
(DESIGN.md appendix C): file system + HDF5 (pytables, h5py), temp files, os, pools, the RNG
stream, seed sequences.  One World per explored path.
"""
import collections
import types
import os as _real_os
import numpy as _np

from . import core, symnp, units
from .core import SN, SB, is_sym, UnsupportedByShim


class InjectedFault(Exception):
    """environment fault injected at a symbolic crash point"""


class InjectedArithFault(InjectedFault, FloatingPointError):
    """the failing step fails with an arithmetic error (FloatingPointError: an ArithmeticError) -- still a failure of the step"""


class InjectedInterrupt(KeyboardInterrupt):
    """the run is interrupted (Ctrl-C / SIGTERM handler) at a symbolic crash point: a BaseException that is not an Exception"""


class RecordRows:
    """what pytables returns for read/read_coordinates(field=None): structured records, not a
    float column. Carried as an opaque marker so that VCs can tell it from a scalar column."""
    __array_ufunc__ = None
    ndim = 1

    def __init__(self, table, idx):
        self.table, self.idx = table, idx

    def __len__(self):
        return len(self.idx)

    @property
    def shape(self):
        return (len(self.idx),)

    @property
    def size(self):
        return len(self.idx)

    def copy(self):
        return self

    def __getitem__(self, k):
        return RecordRows(self.table, self.idx[k])

    def __mul__(self, o):
        if isinstance(o, units.Unit):
            return units.Quantity(self, o)
        return NotImplemented
    __rmul__ = __mul__


from .symnp import ExpCell  # noqa: E402


class World:
    def __init__(self, fault_at=None):
        self.reset(fault_at)

    def reset(self, fault_at=None):
        """called at the start of every explored path"""
        self.files = {}            # path -> FileModel
        self.log = []              # events
        self.tmp_n = 0
        self.env_calls = 0         # counter of environment calls (crash points)
        self.fault_at = fault_at   # symbolic Int or None
        self.fault_at2 = None      # optional second crash point (thorough tier)
        self.fault_site = None
        self.fault_site2 = None
        self.fault_interrupt = None   # optional symbolic Bool: the (first) fault is an interrupt rather than an Exception
        self.fault_kind = None
        self.fault_arith = None       # optional symbolic Bool: the (first) fault is an ArithmeticError subclass
        self.streams = {}          # rng key -> list of draws
        self.global_random_touched = []
        self.sites = []

    # ---- crash points
    def call(self, site):
        c = self.env_calls
        self.env_calls += 1
        self.sites.append(site)
        if self.fault_at is not None:
            if self.fault_site is None:
                if core.decide(self.fault_at == c):
                    self.fault_site = (c, site)
                    self.log.append(("fault", c, site))
                    if self.fault_interrupt is not None and core.decide(self.fault_interrupt):
                        self.fault_kind = "interrupt"
                        raise InjectedInterrupt("%s#%d" % (site, c))
                    if self.fault_arith is not None and core.decide(self.fault_arith):
                        self.fault_kind = "arith"
                        raise InjectedArithFault("%s#%d" % (site, c))
                    self.fault_kind = "exception"
                    raise InjectedFault("%s#%d" % (site, c))
            elif getattr(self, "fault_at2", None) is not None and self.fault_site2 is None:
                # a second fault, later in the same run (e.g. during the clean-up triggered by the first one)
                if core.decide(self.fault_at2 == c):
                    self.fault_site2 = (c, site)
                    self.log.append(("fault", c, site))
                    raise InjectedFault("%s#%d (second fault)" % (site, c))

    def event(self, *e):
        self.log.append(e)


class FileModel:
    def __init__(self, path, columns=None, units_=None, meta=None, user=False):
        self.path = path
        self.columns = collections.OrderedDict(columns or {})   # name -> SymArray (1-D)
        self.units = dict(units_ or {})                          # name -> Unit
        self.meta = dict(meta or {})
        self.user = user
        self.valid = True    # False: created empty (NamedTemporaryFile) and never written

    @property
    def nrows(self):
        for v in self.columns.values():
            return len(v)
        return 0


# ------------------------------------------------------------------------------------------
# pytables
# ------------------------------------------------------------------------------------------

class _TbTable:
    def __init__(self, world, fm):
        self.w, self.fm = world, fm

    @property
    def shape(self):
        return (self.fm.nrows,)

    def __len__(self):
        return self.fm.nrows

    @property
    def nrows(self):
        return self.fm.nrows

    def read(self, start=None, stop=None, step=None, field=None):
        self.w.call("tables.read")
        self.w.event("tb.read", self.fm.path, start, stop, step, field)
        sl = slice(start, stop, step)
        if field is None:
            n = self.fm.nrows
            idx = symnp.arange(n)[sl]
            return RecordRows(self.fm, idx)
        if field not in self.fm.columns:
            raise KeyError("Field %s not found in table" % field)
        return self.fm.columns[field][sl].copy()

    def read_coordinates(self, coords, field=None):
        self.w.call("tables.read_coordinates")
        self.w.event("tb.read_coordinates", self.fm.path, field)
        coords = coords if isinstance(coords, symnp.SymArray) else symnp.array(coords)
        if field is None:
            return RecordRows(self.fm, coords)
        if field not in self.fm.columns:
            raise KeyError("Field %s not found in table" % field)
        return self.fm.columns[field][coords]


class _TbRoot:
    def __init__(self, world, fm):
        self.w, self.fm = world, fm

    def __getitem__(self, path):
        if path == "samples":
            if not self.fm.valid or not self.fm.columns:
                raise KeyError("no such node: /samples")
            return _TbTable(self.w, self.fm)
        raise KeyError(path)


class _TbFile:
    def __init__(self, world, fm, mode):
        self.w, self.fm, self.mode = world, fm, mode
        self.root = _TbRoot(world, fm)

    def __enter__(self):
        return self

    def __exit__(self, *a):
        self.w.event("tb.close", self.fm.path)
        return False

    def close(self):
        self.w.event("tb.close", self.fm.path)


def tables_module(world):
    mod = types.ModuleType("tables")

    def open_file(path, mode="r", **kw):
        world.call("tables.open_file")
        world.event("open", "tables", path, mode)
        if path not in world.files:
            raise OSError("``%s`` does not exist" % path)
        return _TbFile(world, world.files[path], mode)
    mod.open_file = open_file
    mod.group = types.SimpleNamespace(Group=_TbRoot)
    return mod


# ------------------------------------------------------------------------------------------
# h5py + astropy meta helpers
# ------------------------------------------------------------------------------------------

class _HeaderLine:
    def __init__(self, fm):
        self.fm = fm

    def decode(self, enc):
        return self


class _HeaderDataset:
    def __init__(self, fm):
        self.fm = fm

    def __iter__(self):
        yield _HeaderLine(self.fm)

    def read(self):
        return list(self)


class _H5Rows:
    """result of reading a compound dataset: rows selected, addressed by field name"""
    def __init__(self, cols):
        self.cols = cols

    def __getitem__(self, name):
        if isinstance(name, str):
            if name not in self.cols:
                raise ValueError("Field %s does not appear in this type." % name)
            return self.cols[name]
        raise UnsupportedByShim("indexing read rows by %r" % (name,))

    def __len__(self):
        for v in self.cols.values():
            return len(v)
        return 0


class _H5Table:
    """the compound 'samples' dataset as h5py presents it: ds[name] -> column, ds[sel] -> rows, ds.fields(names)[sel] -> rows
    restricted to the fields; point selections (index arrays) must be strictly increasing, as h5py demands"""
    def __init__(self, world, fm, names=None):
        self.w, self.fm, self.names = world, fm, names

    @property
    def shape(self):
        return (self.fm.nrows,)

    def __len__(self):
        return self.fm.nrows

    def fields(self, names):
        names = [names] if isinstance(names, str) else list(names)
        for n in names:
            if n not in self.fm.columns:
                raise ValueError("Field %s does not appear in this type." % n)
        return _H5Table(self.w, self.fm, names)

    def __getitem__(self, sel):
        self.w.call("h5py.read")
        self.w.event("h5.read", self.fm.path, self.names)
        if isinstance(sel, str):
            if sel not in self.fm.columns:
                raise ValueError("Field %s does not appear in this type." % sel)
            return self.fm.columns[sel].copy()
        if isinstance(sel, symnp.SymArray):
            cells = list(sel.a.flat)
            for a_, b_ in zip(cells, cells[1:]):
                inc = a_ < b_
                if not (core.decide(inc) if isinstance(inc, core.SB) else bool(inc)):
                    raise TypeError("Indexing elements must be in increasing order")
        names = self.names or list(self.fm.columns)
        return _H5Rows({n: self.fm.columns[n][sel] for n in names})


class _H5File:
    def __init__(self, world, fm, mode):
        self.w, self.fm, self.mode = world, fm, mode

    def __enter__(self):
        return self

    def __exit__(self, *a):
        self.w.event("h5.close", self.fm.path)
        return False

    def close(self):
        pass

    def __contains__(self, k):
        return k in ("samples", "samples.__table_column_meta__") and self.fm.valid and bool(self.fm.columns)

    def __getitem__(self, k):
        self.w.call("h5py.getitem")
        if not self.fm.valid or not self.fm.columns:
            raise KeyError("Unable to open object (object '%s' doesn't exist)" % k)
        if k == "samples.__table_column_meta__":
            return _HeaderDataset(self.fm)
        if k == "samples":
            return _H5Table(self.w, self.fm)
        raise UnsupportedByShim("h5py item %r" % (k,))

    def keys(self):
        return ["samples", "samples.__table_column_meta__"] if self.fm.columns else []


def h5py_module(world):
    mod = types.ModuleType("h5py")

    def File(path, mode="r", **kw):
        world.call("h5py.File")
        world.event("open", "h5py", path, mode)
        if path not in world.files:
            if mode in ("r", "r+"):
                raise OSError("Unable to open file (unable to open file: name = '%s')" % path)
            world.files[path] = FileModel(path)
        return _H5File(world, world.files[path], mode)
    mod.File = File
    mod.Group = _H5File
    return mod


def meta_path(path):
    return path + ".__table_column_meta__"


def get_header_from_yaml(lines):
    fm = None
    for ln in lines:
        fm = ln.fm
    if fm is None:
        raise ValueError("empty header")
    dt = []
    for name in fm.columns:
        row = {"name": name, "datatype": "float64"}
        un = fm.units.get(name)
        if un is not None and not (un == units.one):
            row["unit"] = un
        dt.append(row)
    return {"datatype": dt, "meta": dict(fm.meta)}


def astropy_hdf5_module():
    mod = types.ModuleType("astropy.io.misc.hdf5")
    mod.meta_path = meta_path
    return mod


def astropy_table_meta_module():
    mod = types.ModuleType("astropy.table.meta")
    mod.get_header_from_yaml = get_header_from_yaml
    return mod


def astropy_decorators_module():
    mod = types.ModuleType("astropy.utils.decorators")

    def deprecated_renamed_argument(old, new, since=None, **kw):
        def deco(fn):
            import functools

            @functools.wraps(fn)
            def w(*a, **k):
                if old in k:
                    k[new] = k.pop(old)
                return fn(*a, **k)
            return w
        return deco
    mod.deprecated_renamed_argument = deprecated_renamed_argument
    return mod


# ------------------------------------------------------------------------------------------
# tempfile / os
# ------------------------------------------------------------------------------------------

def tempfile_module(world):
    mod = types.ModuleType("tempfile")

    class _Tmp:
        def __init__(self, name):
            self.name = name

        def close(self):
            pass

    def NamedTemporaryFile(mode="w+b", suffix="", delete=True, **kw):
        world.call("NamedTemporaryFile")
        world.tmp_n += 1
        name = "/tmpmodel/tmp%d%s" % (world.tmp_n, suffix)
        fm = FileModel(name)
        fm.valid = False
        world.files[name] = fm
        world.event("tmp_create", name, delete)
        return _Tmp(name)
    mod.NamedTemporaryFile = NamedTemporaryFile
    return mod


def os_module(world):
    class _Path:
        def __getattr__(self, n):
            return getattr(_real_os.path, n)

        @staticmethod
        def exists(p):
            return p in world.files

    class _Os(types.ModuleType):
        def __getattr__(self, n):
            return getattr(_real_os, n)
    mod = _Os("os")
    mod.path = _Path()

    def unlink(p):
        world.call("os.unlink")
        world.event("unlink", p)
        if p not in world.files:
            raise FileNotFoundError(p)
        del world.files[p]
    mod.unlink = unlink
    mod.remove = unlink
    return mod


# ------------------------------------------------------------------------------------------
# pools
# ------------------------------------------------------------------------------------------

class Pool:
    """schwimmbad-like pool. map contract: f is applied to every task exactly once, results come
    back in task order. Workers run in an order chosen by the harness (default: reversed, which
    exposes any dependence on execution order without forking)."""

    def __init__(self, world, size=1, order="reversed"):
        self.w, self.size, self.order = world, size, order
        self.closed = False

    def map(self, f, tasks):
        if self.closed:
            raise ValueError("Pool not running")
        self.w.call("pool.map")
        tasks = list(tasks)
        if self.size > 1:
            # a multi-process pool pickles every task: generators inside arrive as copies
            tasks = [self._pickled(t) for t in tasks]
        order = list(range(len(tasks)))
        if self.order == "reversed":
            order.reverse()
        res = [None] * len(tasks)
        for i in order:
            self.w.call("worker")
            self.w.event("worker_run", i)
            res[i] = f(tasks[i])
        return res

    def _pickled(self, task):
        if isinstance(task, SymRng):
            return task.clone()
        if isinstance(task, tuple):
            return tuple(self._pickled(x) for x in task)
        if isinstance(task, list):
            return [self._pickled(x) for x in task]
        return task

    def close(self):
        self.closed = True
        self.w.event("pool.close")


# ------------------------------------------------------------------------------------------
# RNG
# ------------------------------------------------------------------------------------------

class SeedSeq:
    def __init__(self, world, key=("root",)):
        self.w, self.key = world, key
        self.n_spawned = 0

    def spawn(self, k):
        k = int(k)
        out = [SeedSeq(self.w, self.key + (self.n_spawned + i,)) for i in range(k)]
        self.n_spawned += k
        self.w.event("spawn", self.key, k)
        return out


class BitGen:
    def __init__(self, seed_seq):
        self._seed_seq = seed_seq
        self.seed_seq = seed_seq


class SeedToken(int):
    """an integer drawn from a generator over a huge range and used as a seed: kept opaque, remembers where it came from"""
    def __new__(cls, stream_key):
        o = int.__new__(cls, 0)
        o.stream_key = stream_key
        return o

    def __int__(self):
        return self

    def __index__(self):
        return self

    def __repr__(self):
        return "SeedToken(%r)" % (self.stream_key,)


class SymRng:
    """numpy.random.Generator stand-in: a stream of symbols with a position counter.
    uniform/random cells are ExpCell(v) with v <= 0 fresh per stream position (u = exp(v) in (0,1];
    u = 0 has probability zero and is outside the claim)."""

    def __init__(self, bitgen_or_world, key=None):
        if isinstance(bitgen_or_world, BitGen):
            self.bit_generator = bitgen_or_world
            self.w = bitgen_or_world._seed_seq.w
        else:
            self.w = bitgen_or_world
            self.bit_generator = BitGen(SeedSeq(self.w, key or ("root",)))
        self.key = self.bit_generator._seed_seq.key
        self.pos = 0
        self.draws = self.w.streams.setdefault(self.key, [])

    def clone(self):
        """what a worker process receives when a task holding this generator is pickled: same state, but its draws
        (and spawns) do not advance the original"""
        ss = self.bit_generator._seed_seq
        ss2 = SeedSeq(self.w, ss.key)
        ss2.n_spawned = ss.n_spawned
        g = SymRng(BitGen(ss2))
        g.pos = self.pos
        return g

    def _next_v(self):
        nm = "v_%s_%d" % ("_".join(str(k) for k in self.key), self.pos)
        self.w.event("draw", self.key, self.pos)
        self.pos += 1
        v = core.real(nm)
        core.Ctx.cur.add_side(v.e < 0)
        return v

    def uniform(self, low=0.0, high=1.0, size=None):
        if low != 0.0 or high != 1.0:
            raise UnsupportedByShim("uniform with bounds")
        return self.random(size)

    def random(self, size=None):
        if size is None:
            v = self._next_v()
            self.draws.append(("uniform", v))
            return ExpCell(v)
        n = int(size)
        cells = []
        for _ in range(n):
            v = self._next_v()
            self.draws.append(("uniform", v))
            cells.append(ExpCell(v))
        return symnp.SymArray(symnp._obj(cells), symnp._F8)

    def choice(self, a, size=None, replace=True, **kw):
        n = a if not isinstance(a, symnp.SymArray) else len(a)
        n = int(n)
        if size is None or isinstance(size, tuple):
            raise UnsupportedByShim("choice without a 1-d size")
        k = int(size)
        if k > n and not replace:
            raise ValueError("Cannot take a larger sample than population when replace is False")
        if replace and n == 0 and k > 0:
            raise ValueError("a cannot be empty unless no samples are taken")
        z3 = core.z3
        cells = []
        for j in range(k):
            c = core.integer("choice_%s_%d" % ("_".join(str(x) for x in self.key), self.pos))
            self.w.event("draw", self.key, self.pos)
            self.pos += 1
            core.Ctx.cur.add_side(z3.And(c.e >= 0, c.e < n))
            cells.append(c)
        if k > 1 and not replace:
            core.Ctx.cur.add_side(z3.Distinct(*[c.e for c in cells]))          # with replacement: independent draws, repeats possible
        self.draws.append(("choice", n, k, cells, bool(replace)))
        return symnp.SymArray(symnp._obj(cells), symnp._I8)

    def integers(self, low, high=None, size=None, dtype=None, endpoint=False):
        """draws WITH replacement from [low, high): independent symbolic integers (repeats possible).  Over a range of 2**32 or
        more the draws are opaque seed tokens (used to seed further generators, whose streams then derive from this one)"""
        if high is None:
            low, high = 0, low
        lo, hi = int(low), int(high) + (1 if endpoint else 0)
        k = 1 if size is None else int(size)
        if hi - lo >= 2 ** 32:
            toks = []
            for j in range(k):
                self.w.event("draw", self.key, self.pos)
                toks.append(SeedToken(self.key + ("seeded", self.pos)))
                self.pos += 1
            self.draws.append(("integers", hi - lo, k, toks))
            return toks[0] if size is None else symnp.SymArray(symnp._obj(toks), symnp._I8)
        z3 = core.z3
        cells = []
        for j in range(k):
            c = core.integer("integers_%s_%d" % ("_".join(str(x) for x in self.key), self.pos))
            self.w.event("draw", self.key, self.pos)
            self.pos += 1
            core.Ctx.cur.add_side(z3.And(c.e >= lo, c.e < hi))
            cells.append(c)
        self.draws.append(("integers", hi - lo, k, cells))
        return cells[0] if size is None else symnp.SymArray(symnp._obj(cells), symnp._I8)

    def permutation(self, x):
        if isinstance(x, symnp.SymArray):
            idx = self.choice(len(x), size=len(x), replace=False)
            return x[idx]
        return self.choice(int(x), size=int(x), replace=False)

    def multivariate_normal(self, mean, cov, size=None, **kw):
        n = int(size) if size is not None else 1
        d = len(mean)
        cells = [[core.fresh("real", "mvn") for _ in range(d)] for _ in range(n)]
        # numpy reads its arguments at call time: snapshot them (the kernel reuses the same buffers for the next row)
        if isinstance(mean, symnp.SymArray):
            mean = symnp.SymArray(mean.a.copy(), mean.dtype)
        if isinstance(cov, symnp.SymArray):
            cov = symnp.SymArray(cov.a.copy(), cov.dtype)
        self.draws.append(("mvn", mean, cov, n, cells, self.pos))
        self.w.event("mvn", self.key, self.pos)
        self.w.event("draw", self.key, self.pos)
        self.pos += 1
        out = symnp.SymArray(symnp._obj(cells), symnp._F8)
        return out if size is not None else out[0]


def numpy_random_module(world):
    mod = types.ModuleType("numpy.random")
    mod.Generator = SymRng
    def PCG64(seed_seq=None):
        if isinstance(seed_seq, SeedSeq):
            return BitGen(seed_seq)
        if isinstance(seed_seq, SeedToken):
            return BitGen(SeedSeq(world, seed_seq.stream_key))       # seeded by a draw of another generator: derived stream
        return BitGen(SeedSeq(world, ("fresh-entropy",)))
    mod.PCG64 = PCG64

    def default_rng(seed=None):
        if seed is None:
            world.global_random_touched.append("default_rng() without seed (OS entropy)")
            return SymRng(world, ("os-entropy", len(world.global_random_touched)))
        if isinstance(seed, SymRng):
            return seed
        return SymRng(world, ("seed", str(seed)))
    mod.default_rng = default_rng

    def _global():
        return SymRng(world, ("numpy-global-state",))

    # the bit generator behind numpy's legacy global functions: swapping it is a change of global state unless undone
    world.global_bitgen = "numpy-default-global-bitgen"

    def get_bit_generator():
        return world.global_bitgen

    def set_bit_generator(g):
        world.event("set_bit_generator", getattr(getattr(g, "_seed_seq", None), "key", g))
        world.global_bitgen = g
    mod.get_bit_generator = get_bit_generator
    mod.set_bit_generator = set_bit_generator

    def _legacy(name, impl):
        def f(*a, **k):
            world.global_random_touched.append("np.random.%s (numpy's global random state)" % name)
            return impl(_global(), *a, **k)
        return f
    mod.uniform = _legacy("uniform", lambda g, low=0.0, high=1.0, size=None: g.uniform(low, high, size))
    mod.random = _legacy("random", lambda g, size=None: g.random(size))
    mod.rand = _legacy("rand", lambda g, *shape: g.random(shape[0] if shape else None))
    mod.choice = _legacy("choice", lambda g, a, size=None, replace=True, p=None: g.choice(a, size=size, replace=replace))
    mod.permutation = _legacy("permutation", lambda g, x: g.permutation(x))
    mod.multivariate_normal = _legacy("multivariate_normal", lambda g, mean, cov, size=None: g.multivariate_normal(mean, cov, size))

    def _unmodelled(name):
        def f(*a, **k):
            world.global_random_touched.append("np.random.%s (numpy's global random state)" % name)
            raise UnsupportedByShim("legacy global numpy random function np.random.%s" % name)
        return f
    for nm in ("seed", "randn", "shuffle", "normal", "get_state", "set_state", "randint"):
        setattr(mod, nm, _unmodelled(nm))
    return mod
