"""symx.units -- model of astropy.units / astropy.time by contract (DESIGN.md appendix C).

A unit is a dimension vector plus a positive scale factor with respect to the SI-like base of that
dimension; the scale may be an exact rational (km = 1000 m) or a *symbolic* positive real
(sym_unit), which is how "every choice of units" becomes one query (C07).  Conversion multiplies by
the ratio of scales and fails for different dimensions, as astropy does.

Quantity wraps a symnp.SymArray (or a scalar cell) and a Unit.  Time is a BMJD value (tcb/mjd).
"""
import types
import numpy as _np
from . import core, symnp
from .core import SN, Q, is_sym, UnsupportedByShim

_DIMS = ("length", "time", "angle", "mass")


class UnitsError(ValueError):
    pass


class UnitConversionError(UnitsError):
    pass


class UnitTypeError(UnitsError, TypeError):
    pass


def _dimkey(d):
    return tuple(sorted((k, v) for k, v in d.items() if v != 0))


class Unit:
    __array_ufunc__ = None

    def __new__(cls, *args, **kw):
        if len(args) == 1 and not kw:
            a = args[0]
            if isinstance(a, Unit):
                return a
            if isinstance(a, str):
                return parse_unit(a)
        return object.__new__(cls)

    def __init__(self, scale=None, dims=None, name=None):
        if isinstance(scale, (Unit, str)) and dims is None:
            return  # handled by __new__
        self.scale = scale
        self.dims = dict(dims or {})
        self.name = name

    # ---- algebra
    def _mk(self, scale, dims, name):
        return Unit(scale, dims, name)

    def __mul__(self, o):
        if isinstance(o, Unit):
            d = dict(self.dims)
            for k, v in o.dims.items():
                d[k] = d.get(k, 0) + v
            return self._mk(self.scale * o.scale, d, "%s %s" % (self.name, o.name))
        return Quantity(o, self)

    def __rmul__(self, o):
        return Quantity(o, self)

    def __truediv__(self, o):
        if isinstance(o, Unit):
            return self * (o ** -1)
        return Quantity(1 / o, self)

    def __rtruediv__(self, o):
        if isinstance(o, (int, float)) and not isinstance(o, bool) and o == 1:
            return self ** -1          # astropy: 1 / unit is a unit
        return Quantity(o, self ** -1)

    def __pow__(self, p):
        if isinstance(p, float) and p == int(p):
            p = int(p)
        if isinstance(p, float):
            p = Q(p).limit_denominator(12)
        if isinstance(p, int):
            if is_sym(self.scale):
                s = self.scale ** p
            else:
                s = Q(self.scale) ** p
        else:
            if is_sym(self.scale):
                s = core.uf("POW", self.scale, p)
            elif Q(self.scale) == 1:
                s = Q(1)
            else:
                raise UnsupportedByShim("fractional power of a unit")
        return self._mk(s, {k: v * p for k, v in self.dims.items()}, "(%s)**%s" % (self.name, p))

    # ---- comparison / conversion
    def is_equivalent(self, other, equivalencies=None):
        if isinstance(other, (tuple, list)):
            return any(self.is_equivalent(o, equivalencies) for o in other)
        other = Unit(other) if isinstance(other, str) else other
        a, b = dict(self.dims), dict(other.dims)
        if equivalencies == "dimensionless_angles":
            a.pop("angle", None)
            b.pop("angle", None)
        return _dimkey(a) == _dimkey(b)

    def to(self, other, value=1.0, equivalencies=None):
        """scale factor from self to other (times value)"""
        other = Unit(other) if isinstance(other, str) else other
        if not self.is_equivalent(other, equivalencies):
            raise UnitConversionError("'%s' and '%s' are not convertible" % (self.name, other.name))
        f = _ratio(self.scale, other.scale)
        if (isinstance(value, float) and value == 1.0) or (not is_sym(value) and not isinstance(value, symnp.SymArray) and value == 1):
            return f
        return value * f

    def __eq__(self, o):
        if not isinstance(o, Unit):
            return False
        if _dimkey(self.dims) != _dimkey(o.dims):
            return False
        if is_sym(self.scale) or is_sym(o.scale):
            a, b = core.lift(self.scale), core.lift(o.scale)
            if core.z3.eq(a, b):
                return True
            a, b = core._coerce(a, b)
            return core.Ctx.decide(a == b)   # semantic equality of the scales (forks if undetermined)
        return self.scale == o.scale

    def same_as(self, o):
        """z3 formula: same dimension and same scale"""
        if not isinstance(o, Unit) or _dimkey(self.dims) != _dimkey(o.dims):
            return core.z3.BoolVal(False)
        a, b = core._coerce(core.lift(self.scale if is_sym(self.scale) else Q(self.scale)),
                            core.lift(o.scale if is_sym(o.scale) else Q(o.scale)))
        return a == b

    def __ne__(self, o):
        return not self.__eq__(o)

    def __hash__(self):
        return hash(_dimkey(self.dims))

    def __repr__(self):
        return "Unit(%s)" % self.name

    def to_string(self, *a, **k):
        return str(self.name)

    __str__ = to_string

    def __format__(self, spec):
        return str(self.name)

    @property
    def physical_type(self):
        """astropy's names for the dimensions that occur here (compares equal to the name string, as astropy's PhysicalType does)"""
        names = {(): "dimensionless", (("time", 1),): "time", (("length", 1), ("time", -1)): "speed", (("angle", 1),): "angle",
                 (("length", 1),): "length", (("mass", 1),): "mass", (("length", 1), ("time", -2)): "acceleration"}
        k = _dimkey(self.dims)
        return names.get(k, k)

    def decompose(self):
        return self


def _ratio(a, b):
    if is_sym(a) or is_sym(b):
        if is_sym(a) and is_sym(b) and core.z3.eq(a.e, b.e):
            return 1.0
        return (a if is_sym(a) else SN(core.lift(Q(a)))) / b
    r = Q(a) / Q(b)
    return float(r) if False else r


def sym_unit(name, dims_like):
    """a unit of the dimension of `dims_like` with a symbolic positive scale"""
    s = core.real("unit_" + name)
    core.Ctx.cur.assume(s > 0)
    return Unit(s, dims_like.dims, name)


one = Unit(Q(1), {}, "")
dimensionless_unscaled = one
m = Unit(Q(1), {"length": 1}, "m")
km = Unit(Q(1000), {"length": 1}, "km")
au = Unit(Q(149597870700), {"length": 1}, "AU")
s = Unit(Q(1), {"time": 1}, "s")
second = s
hour = Unit(Q(3600), {"time": 1}, "h")
day = Unit(Q(86400), {"time": 1}, "d")
year = Unit(Q(31557600), {"time": 1}, "yr")
yr = year
rad = Unit(Q(1), {"angle": 1}, "rad")
radian = rad
# pi is irrational: deg carries a symbolic-free rational approximation flag; the repo only uses
# degrees for constants handed to twobody, which is stubbed -- keep an exact marker scale.
deg = Unit(Q(17453292519943295, 10 ** 18), {"angle": 1}, "deg")
degree = deg
Msun = Unit(Q(198840987, 1) * Q(10) ** 22, {"mass": 1}, "Msun")
kg = Unit(Q(1), {"mass": 1}, "kg")

_NAMES = {"": one, "m": m, "km": km, "AU": au, "au": au, "s": s, "h": hour, "d": day, "day": day,
          "yr": year, "year": year, "rad": rad, "radian": rad, "deg": deg, "Msun": Msun, "kg": kg}


def parse_unit(sx):
    sx = sx.strip()
    if sx in _NAMES:
        return _NAMES[sx]
    if " / " in sx or "/" in sx:
        num, den = sx.split("/", 1)
        return parse_unit(num) / parse_unit(den.strip("() "))
    if " " in sx:
        r = one
        for part in sx.split():
            r = r * parse_unit(part)
        return r
    if "**" in sx or "^" in sx:
        base, p = sx.replace("^", "**").split("**")
        return parse_unit(base) ** int(p)
    import re
    mm = re.match(r"^([A-Za-z]+)(-?\d+)$", sx)
    if mm:
        return parse_unit(mm.group(1)) ** int(mm.group(2))
    raise UnsupportedByShim("unit string %r" % sx)


def dimensionless_angles():
    return "dimensionless_angles"


class Quantity:
    __array_ufunc__ = None
    __hash__ = None

    def __new__(cls, value=None, unit=None, copy=True, **kw):
        if isinstance(value, Quantity) and unit is None:
            return value.copy() if copy else value
        return object.__new__(cls)

    def __init__(self, value=None, unit=None, copy=True, **kw):
        if isinstance(value, Quantity):
            if unit is None:
                return
            value = value.to_value(unit)
        if isinstance(value, (list, tuple)) and value and isinstance(value[0], Quantity):
            unit = unit or value[0].unit
            value = symnp.SymArray(symnp._obj([q.to_value(unit) for q in value]))
        if isinstance(value, (list, tuple, _np.ndarray)):
            value = symnp.array(value)
        if unit is None:
            unit = one
        if isinstance(unit, str):
            unit = parse_unit(unit)
        if isinstance(value, symnp.SymArray) and value.a.ndim == 0:
            value = value.a[()]
        self._v = value
        self.unit = unit

    # hooks used by symnp
    def _symq_value(self):
        return self._v if isinstance(self._v, symnp.SymArray) else symnp.SymArray(symnp._obj(self._v))

    def _symq_atleast_1d(self):
        return Quantity(symnp.atleast_1d(self._v), self.unit)

    def _symq_squeeze(self):
        v = self._v
        if isinstance(v, symnp.SymArray):
            v = symnp.squeeze(v)
            if v.a.ndim == 0:
                v = v.a[()]
        return Quantity(v, self.unit)

    def _symq_reduce(self, f):
        return Quantity(f(self._v), self.unit)

    @property
    def value(self):
        return self._v

    @property
    def shape(self):
        return getattr(self._v, "shape", ())

    @property
    def ndim(self):
        return getattr(self._v, "ndim", 0)

    @property
    def size(self):
        return getattr(self._v, "size", 1)

    @property
    def isscalar(self):
        return not isinstance(self._v, symnp.SymArray)

    @property
    def dtype(self):
        return self._v.dtype if isinstance(self._v, symnp.SymArray) else _np.dtype("float64")

    def __len__(self):
        if not hasattr(self._v, "__len__"):
            raise TypeError("'Quantity' object with a scalar value has no len()")
        return len(self._v)

    def __iter__(self):
        for i in range(len(self)):
            yield self[i]

    def copy(self):
        v = self._v.copy() if isinstance(self._v, symnp.SymArray) else self._v
        return Quantity(v, self.unit)

    def __getitem__(self, k):
        if not isinstance(self._v, symnp.SymArray):
            raise TypeError("scalar Quantity is not subscriptable")
        if isinstance(k, Quantity):
            k = k._v
        return Quantity(self._v[k], self.unit)

    def __setitem__(self, k, val):
        if isinstance(val, Quantity):
            val = val.to_value(self.unit)
        self._v[k] = val

    def to(self, unit, equivalencies=None):
        return Quantity(self.to_value(unit, equivalencies), unit if not isinstance(unit, str) else parse_unit(unit))

    def to_value(self, unit=None, equivalencies=None):
        if unit is None:
            return self._v
        if isinstance(unit, str):
            unit = parse_unit(unit)
        f = self.unit.to(unit, equivalencies=equivalencies)
        if not is_sym(f) and f == 1:
            return self._v.copy() if isinstance(self._v, symnp.SymArray) else self._v
        v = self._v
        if isinstance(v, float):
            v = Q(repr(v))      # keep unit conversion of float constants exact (no float rounding in the model)
        return v * f

    @property
    def si(self):
        return self

    def decompose(self):
        return self

    # arithmetic
    def _other(self, o):
        if isinstance(o, Quantity):
            return o
        if isinstance(o, Unit):
            return Quantity(1, o)
        return Quantity(o, one)

    def __mul__(self, o):
        o = self._other(o)
        return Quantity(self._v * o._v, self.unit * o.unit)

    __rmul__ = __mul__

    def __truediv__(self, o):
        o = self._other(o)
        return Quantity(self._v / o._v, self.unit / o.unit)

    def __rtruediv__(self, o):
        o = self._other(o)
        return Quantity(o._v / self._v, o.unit / self.unit)

    def __pow__(self, p):
        return Quantity(self._v ** p, self.unit ** p)

    def _same(self, o):
        if isinstance(o, (int, float)) and not isinstance(o, bool) and o == 0:
            return o    # astropy lets a bare zero stand for zero of any unit
        o = self._other(o)
        if not o.unit.is_equivalent(self.unit):
            raise UnitConversionError("Can only apply function to quantities with compatible dimensions (%s vs %s)" % (self.unit, o.unit))
        return o.to_value(self.unit)

    def __add__(self, o):
        return Quantity(self._v + self._same(o), self.unit)

    __radd__ = __add__

    def __sub__(self, o):
        return Quantity(self._v - self._same(o), self.unit)

    def __rsub__(self, o):
        return Quantity(self._same(o) - self._v, self.unit)

    def __neg__(self):
        return Quantity(-self._v, self.unit)

    def __abs__(self):
        return Quantity(symnp.absolute(self._v) if isinstance(self._v, symnp.SymArray) else abs(self._v), self.unit)

    def __mod__(self, o):
        return Quantity(self._v % self._same(o), self.unit)

    def __lt__(self, o): return self._v < self._same(o)
    def __le__(self, o): return self._v <= self._same(o)
    def __gt__(self, o): return self._v > self._same(o)
    def __ge__(self, o): return self._v >= self._same(o)

    def __eq__(self, o):
        try:
            return self._v == self._same(o)
        except UnitsError:
            return False

    def __ne__(self, o):
        return self._v != self._same(o)

    def __bool__(self):
        return bool(self._v)

    def __float__(self):
        if not self.unit.is_equivalent(one):
            raise TypeError("only dimensionless scalar quantities can be converted to Python scalars")
        return float(self.to_value(one))

    def __repr__(self):
        return "<Quantity %r %s>" % (self._v, self.unit.name)

    def min(self): return Quantity(symnp.amin(self._v), self.unit)
    def max(self): return Quantity(symnp.amax(self._v), self.unit)
    def mean(self): return Quantity(symnp.mean(self._v), self.unit)
    def sum(self): return Quantity(symnp.sum(self._v), self.unit)
    def all(self, axis=None): return symnp.all(self._v, axis)
    def argsort(self, axis=-1, kind=None): return symnp.argsort(self._v, kind=kind)
    def reshape(self, *s): return Quantity(self._v.reshape(*s), self.unit)
    def ravel(self): return Quantity(self._v.ravel(), self.unit)
    def squeeze(self): return self._symq_squeeze()
    def astype(self, dt): return Quantity(self._v.astype(dt), self.unit)


def quantity_input(*dargs, **dkw):
    """decorator: the named arguments must be quantities equivalent to (one of) the given units;
    None passes when the default is None (as in astropy)."""
    import functools
    import inspect

    def deco(fn):
        sig = inspect.signature(fn)

        @functools.wraps(fn)
        def wrapper(*a, **k):
            bound = sig.bind(*a, **k)
            bound.apply_defaults()
            for name, target in dkw.items():
                if name not in bound.arguments:
                    continue
                val = bound.arguments[name]
                if val is None and sig.parameters[name].default is None:
                    continue
                targets = target if isinstance(target, (list, tuple)) else [target]
                if not hasattr(val, "unit"):
                    if any(t.is_equivalent(one) for t in targets if isinstance(t, Unit)):
                        continue
                    raise TypeError("Argument '%s' to function '%s' has no 'unit' attribute. You should pass in an astropy Quantity instead." % (name, fn.__name__))
                if not any(val.unit.is_equivalent(t) for t in targets):
                    raise UnitsError("Argument '%s' to function '%s' must be in units convertible to '%s'." % (name, fn.__name__, targets[0]))
            return fn(*a, **k)
        return wrapper
    if dargs and callable(dargs[0]) and not dkw:
        return deco(dargs[0])
    return deco


def module():
    mod = types.ModuleType("astropy.units")
    for k, v in globals().items():
        if isinstance(v, Unit):
            setattr(mod, k, v)
    mod.Unit = Unit
    mod.UnitBase = Unit
    mod.Quantity = Quantity
    mod.UnitsError = UnitsError
    mod.UnitConversionError = UnitConversionError
    mod.UnitTypeError = UnitTypeError
    mod.quantity_input = quantity_input
    mod.dimensionless_angles = dimensionless_angles
    return mod


# ------------------------------------------------------------------------------------------
# astropy.time
# ------------------------------------------------------------------------------------------

def _scale_offset(scale):
    """days to add to a value on `scale` to obtain the TCB value: 0 for tcb, one symbolic constant per other scale
    (the real offsets are time dependent; all that matters here is that they are not zero in general)"""
    if scale in (None, "tcb"):
        return 0
    return core.real("offset_%s_to_tcb" % scale)


class Time:
    """astropy.time.Time model: one real per epoch on a named scale; .tcb / .utc / .tt convert through a per-scale
    offset, .mjd is the value on the object's own scale, .jd = mjd + 2400000.5.  Differences are taken on TCB."""
    __array_ufunc__ = None
    __hash__ = None

    def __init__(self, val, val2=None, format=None, scale=None, **kw):
        if isinstance(val, Time):
            scale = scale or val.scale
            val = val._v
        if isinstance(val, (list, tuple, _np.ndarray)):
            val = symnp.array(val)
        if format == "jd":
            val = val - Q(24000005, 10)
        elif format not in (None, "mjd"):
            raise UnsupportedByShim("Time format %r" % format)
        self._v = val.copy() if isinstance(val, symnp.SymArray) else val      # astropy keeps its own copy of the input
        self.format = "mjd"
        self.scale = scale or "utc"

    def _to(self, scale):
        if scale == self.scale:
            return self
        v = self._v + _scale_offset(self.scale)
        off = _scale_offset(scale)
        return Time(v - off if not (isinstance(off, int) and off == 0) else v, scale=scale)

    @property
    def tcb(self): return self._to("tcb")
    @property
    def utc(self): return self._to("utc")
    @property
    def tt(self): return self._to("tt")
    @property
    def tdb(self): return self._to("tdb")
    @property
    def tai(self): return self._to("tai")
    @property
    def mjd(self): return self._v.copy() if isinstance(self._v, symnp.SymArray) else self._v      # a fresh array on every access, as in astropy
    @property
    def jd(self): return self._v + Q(24000005, 10)
    @property
    def shape(self): return self._v.shape if isinstance(self._v, symnp.SymArray) else ()
    @property
    def isscalar(self): return not isinstance(self._v, symnp.SymArray)

    def __len__(self): return len(self._v)
    def copy(self): return Time(self._v.copy() if isinstance(self._v, symnp.SymArray) else self._v, scale=self.scale)
    def __getitem__(self, k): return Time(self._v[k], scale=self.scale)
    def min(self): return Time(symnp.amin(self._v), scale=self.scale)
    def max(self): return Time(symnp.amax(self._v), scale=self.scale)

    def __sub__(self, o):
        if isinstance(o, Time):
            return Quantity(self.tcb._v - o.tcb._v, day)
        if isinstance(o, Quantity):
            return Time(self._v - o.to_value(day), scale=self.scale)
        return NotImplemented

    def __add__(self, o):
        if isinstance(o, Quantity):
            return Time(self._v + o.to_value(day), scale=self.scale)
        return NotImplemented

    __radd__ = __add__

    def _symq_squeeze(self):
        v = self._v
        if isinstance(v, symnp.SymArray):
            v = symnp.squeeze(v)
            if v.a.ndim == 0:
                v = v.a[()]
        return Time(v, scale=self.scale)

    def __repr__(self):
        return "<Time %s mjd=%r>" % (self.scale, self._v,)


def time_module():
    mod = types.ModuleType("astropy.time")
    mod.Time = Time
    return mod
