"""symx.tables -- model of the astropy.table surface used by thejoker.samples (QTable, Row, Table):
ordered columns of Quantity + a meta dict; slicing / masking / integer indexing / copy propagate
`meta` as astropy documents (a shallow copy of the dict)."""
import collections
import types
import numpy as _np
from . import core, symnp, units
from .core import UnsupportedByShim


class Row:
    def __init__(self, table, index):
        self._table, self._index = table, index

    @property
    def meta(self):
        return self._table.meta

    @property
    def colnames(self):
        return self._table.colnames

    def __getitem__(self, k):
        return self._table[k][self._index]

    def keys(self):
        return self._table.colnames


class Table:
    _quantity = False

    def __init__(self, data=None, meta=None, copy=True, **kw):
        self.columns = collections.OrderedDict()
        self.meta = collections.OrderedDict()
        if isinstance(data, Row):
            for n in data.colnames:
                self.columns[n] = _atleast1(data[n])
            self.meta = _meta_copy(data.meta)
        elif isinstance(data, Table):
            for n, c in data.columns.items():
                self.columns[n] = c.copy()
            self.meta = _meta_copy(data.meta)
        elif isinstance(data, dict):
            for n, c in data.items():
                self[n] = c
        elif data is not None:
            raise UnsupportedByShim("Table from %r" % type(data))
        if meta is not None:
            self.meta = _meta_copy(meta)

    @property
    def colnames(self):
        return list(self.columns.keys())

    def keys(self):
        return self.colnames

    def __len__(self):
        for c in self.columns.values():
            return len(c)
        return 0

    def __contains__(self, k):
        return k in self.columns

    def _new(self):
        t = self.__class__()
        t.meta = _meta_copy(self.meta)
        return t

    def __getitem__(self, k):
        if isinstance(k, str):
            if k not in self.columns:
                raise KeyError(k)
            return self.columns[k]
        if isinstance(k, (int, _np.integer)) or (isinstance(k, core.SN)):
            n = len(self)
            if not core.is_sym(k):
                if k >= n or k < -n:
                    raise IndexError("index %d out of range for table with length %d" % (k, n))
            return Row(self, k)
        if isinstance(k, (list, tuple)) and k and all(isinstance(x, str) for x in k):
            t = self._new()
            for n in k:
                t.columns[n] = self.columns[n]
            return t
        # slice, mask, index array
        t = self._new()
        for n, c in self.columns.items():
            t.columns[n] = c[k]
        return t

    def __setitem__(self, k, v):
        if not isinstance(k, str):
            raise UnsupportedByShim("table row assignment")
        if not isinstance(v, units.Quantity):
            v = units.Quantity(v, units.one)
        if v.ndim == 0:
            n = len(self) if self.columns else 1
            v = units.Quantity(symnp.full((n,), v.value), v.unit)
        if self.columns and k not in self.columns and len(v) != len(self):
            raise ValueError("Inconsistent data column lengths")
        if k in self.columns and len(v) != len(self):
            raise ValueError("Inconsistent data column lengths")
        self.columns[k] = v

    def copy(self, copy_data=True):
        t = self._new()
        for n, c in self.columns.items():
            t.columns[n] = c.copy() if copy_data else c
        return t

    def itercols(self):
        return iter(self.columns.values())


class QTable(Table):
    _quantity = True


def _atleast1(q):
    if isinstance(q, units.Quantity):
        return q._symq_atleast_1d()
    return units.Quantity(symnp.atleast_1d(q), units.one)


def _meta_copy(m):
    return collections.OrderedDict(m.items()) if m is not None else collections.OrderedDict()


def module():
    mod = types.ModuleType("astropy.table")
    mod.Table, mod.QTable, mod.Row = Table, QTable, Row
    mod.meta = types.SimpleNamespace(get_header_from_yaml=None)
    mod.serialize = types.SimpleNamespace()
    return mod
