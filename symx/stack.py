"""symx.stack -- assemble the shimmed import environment and load the repository's real Python
modules (current working tree) into it.  One Stack per shape; its World is reset per path.
"""
import re
import types

from . import core, symnp, units, env, tables, loader
from .core import UnsupportedByShim


def np_module(world):
    class _NP(types.ModuleType):
        def __getattr__(self, n):
            return getattr(symnp, n)
    mod = _NP("numpy")
    mod.random = env.numpy_random_module(world)
    return mod


def pyx_constants(units_mod):
    """_nonlinear_packed_order / _nonlinear_internal_units as written in the current .pyx"""
    src = loader.source_of("thejoker/src/fast_likelihood.pyx")
    ns = {"u": units_mod}
    m1 = re.search(r"^_nonlinear_packed_order\s*=\s*\[.*?\]", src, re.S | re.M)
    m2 = re.search(r"^_nonlinear_internal_units\s*=\s*\{.*?\}", src, re.S | re.M)
    if not m1 or not m2:
        raise UnsupportedByShim("cannot find _nonlinear_packed_order/_nonlinear_internal_units in the .pyx")
    exec(m1.group(0), ns)
    exec(m2.group(0), ns)
    return ns["_nonlinear_packed_order"], ns["_nonlinear_internal_units"]


def math_module():
    """`math` for code under test: symbolic arguments go to the symbolic versions, concrete ones to the real module"""
    import math as _m

    class _M(types.ModuleType):
        def __getattr__(self, n):
            return getattr(_m, n)
    mod = _M("math")

    def wrap(name, symf):
        real = getattr(_m, name)

        def f(x, *a):
            if core.is_sym(x) or isinstance(x, symnp.NonFinite):
                return symf(x, *a)
            return real(x, *a)
        return f
    mod.exp = wrap("exp", lambda x: symnp.exp(symnp.SymArray(symnp._obj([x]))).a[0])
    mod.log = wrap("log", lambda x: core.uf("LOG", x))
    mod.sqrt = wrap("sqrt", lambda x: core.uf("SQRT", x))
    mod.sin = wrap("sin", lambda x: core.uf("SIN", x))
    mod.cos = wrap("cos", lambda x: core.uf("COS", x))
    mod.fabs = wrap("fabs", lambda x: abs(x))
    mod.floor = wrap("floor", lambda x: symnp.floor(x))
    mod.ceil = wrap("ceil", lambda x: symnp.ceil(x))
    mod.isfinite = wrap("isfinite", lambda x: not isinstance(x, symnp.NonFinite))
    mod.isnan = wrap("isnan", lambda x: isinstance(x, symnp.NonFinite) and x.kind == "nan")
    mod.isinf = wrap("isinf", lambda x: isinstance(x, symnp.NonFinite) and x.kind != "nan")
    return mod


import functools as _functools
import weakref as _weakref
_LRU = type(_functools.lru_cache()(lambda: None))
_STACKS = _weakref.WeakSet()


def _restore_all():
    for st in list(_STACKS):
        st.restore_globals()


core.PATH_START.append(_restore_all)


class Stack:
    """shims + real modules. `helper_cls` is what `thejoker.src.fast_likelihood.CJokerHelper`
    resolves to (a contract stub or the transliterated kernel)."""

    def __init__(self, world=None, helper_cls=None, load=("prior_helpers", "likelihood_helpers", "utils",
                                                           "samples", "multiproc_helpers"),
                 samples_helpers=None, extra_shims=None, twobody=None, prior_mod=None):
        self.world = world or env.World()
        w = self.world
        self.u = units.module()
        self.np = np_module(w)
        sh = {
            "numpy": self.np,
            "numpy.random": self.np.random,
            "astropy.units": self.u,
            "astropy.time": units.time_module(),
            "astropy.table": tables.module(),
            "astropy.table.meta": env.astropy_table_meta_module(),
            "astropy.io.misc.hdf5": env.astropy_hdf5_module(),
            "astropy.utils.decorators": env.astropy_decorators_module(),
            "h5py": env.h5py_module(w),
            "tables": env.tables_module(w),
            "tempfile": env.tempfile_module(w),
            "os": env.os_module(w),
            "math": math_module(),
            "pytensor": types.SimpleNamespace(__version__="3.3.2"),
            "thejoker.logging": loader.logging_shim(),
        }
        order, iunits = pyx_constants(self.u)
        fl = types.ModuleType("thejoker.src.fast_likelihood")
        fl._nonlinear_packed_order = order
        fl._nonlinear_internal_units = iunits
        fl.CJokerHelper = helper_cls
        sh["thejoker.src.fast_likelihood"] = fl
        sh["thejoker.src"] = types.SimpleNamespace(fast_likelihood=fl)
        tb = types.ModuleType("twobody")
        if twobody:
            tb.__dict__.update(twobody)
        else:
            tb.KeplerOrbit = _Unsupported("twobody.KeplerOrbit")
            tb.PolynomialRVTrend = _Unsupported("twobody.PolynomialRVTrend")
        sh["twobody"] = tb
        if samples_helpers is None:
            samples_helpers = types.ModuleType("thejoker.samples_helpers")
            samples_helpers.write_table_hdf5 = make_write_table_hdf5(w)
        sh["thejoker.samples_helpers"] = samples_helpers
        if prior_mod is not None:
            sh["thejoker.prior"] = prior_mod
        if extra_shims:
            sh.update(extra_shims)
        self.shims = sh
        self.mods = {}
        self._snap = []
        _STACKS.add(self)
        for name in load:
            self.load(name)

    def load(self, name, transform=None, extra=None):
        mod = loader.load("thejoker/%s.py" % name, self.shims, "thejoker.%s" % name, transform=transform, extra=extra)
        self.shims["thejoker.%s" % name] = mod
        self.mods[name] = mod
        setattr(self, name, mod)
        self._snapshot(mod)
        return mod

    # ---- process state of the code under test.  Every explored path stands for a fresh process: mutable
    # module-level / class-level containers and memoising wrappers are put back to their load-time content
    # at the start of each path, so that state kept between calls (a cache, a registry) is seen by the
    # call *histories* a harness executes within one path and never leaks from one path into the next.
    def _snapshot(self, mod):
        import weakref

        def containers(ns, owner):
            for k, v in list(ns.items()):
                if k.startswith("__"):
                    continue
                if isinstance(v, (dict, list, set, weakref.WeakKeyDictionary, weakref.WeakValueDictionary)):
                    try:
                        self._snap.append((v, type(v)(v) if not isinstance(v, (weakref.WeakKeyDictionary, weakref.WeakValueDictionary)) else dict(v)))
                    except Exception:
                        pass
                elif isinstance(v, _LRU):
                    self._snap.append((v, None))
        containers(mod.__dict__, mod)
        for k, v in list(mod.__dict__.items()):
            if isinstance(v, type) and getattr(v, "__module__", None) == mod.__name__:
                containers(vars(v), v)

    def restore_globals(self):
        for obj, content in self._snap:
            if content is None:
                obj.cache_clear()
            elif isinstance(obj, list):
                obj[:] = content
            elif isinstance(obj, set):
                obj.clear()
                obj.update(content)
            else:
                for k in list(obj.keys()):
                    del obj[k]
                obj.update(content)


class _Unsupported:
    def __init__(self, what):
        self.what = what

    def __call__(self, *a, **k):
        raise UnsupportedByShim(self.what)


def make_write_table_hdf5(world):
    """contract stub of samples_helpers.write_table_hdf5 as used by JokerSamples.write on a file
    name: (over)writes the table + header into the file model.  (The real function is checked
    separately in C12.)"""
    def write_table_hdf5(table, output, path=None, compression=False, append=False, overwrite=False,
                         serialize_meta=False, metadata_conflicts="error", **kw):
        world.call("write_table_hdf5")
        world.event("write", output, append, overwrite)
        if not isinstance(output, str):
            raise UnsupportedByShim("write_table_hdf5 to a non-filename")
        fm = world.files.get(output)
        if fm is not None and fm.valid and not append and not overwrite:
            raise OSError("File exists: %s" % output)
        if fm is not None and not fm.valid and not overwrite and not append:
            raise OSError("File exists: %s" % output)
        if fm is None or not append:
            user = fm.user if fm is not None else False
            fm = env.FileModel(output, user=user)
            world.files[output] = fm
        for n in table.colnames:
            q = table[n]
            if n in fm.columns:
                fm.columns[n] = symnp.concatenate((fm.columns[n], q.value))
            else:
                fm.columns[n] = q.value.copy()
                fm.units[n] = q.unit
        fm.meta = dict(table.meta)
        fm.valid = True
    return write_table_hdf5
