"""symx.pyxfront -- front-end F2: thejoker/src/fast_likelihood.pyx (current working tree).

transliterate(): the Cython source is turned into Python statement for statement (DESIGN.md
appendix B): cimports / extern blocks dropped, C types stripped from declarations and signatures,
`cdef class` -> class, `&X[i, j]` -> _ptr(X, (i, j)), LAPACK's `&info` out-parameter -> return value.
Every statement, loop bound, index expression and arithmetic expression of the kernel is preserved
verbatim.  Unknown Cython constructs make the transliterator refuse (-> inconclusive).

The same transliterated module is executed
  * symbolically (namespace_symbolic): cells are symx values, LAPACK / Kepler / RNG are contract stubs
    that record what they were handed;
  * concretely (namespace_concrete): numpy arrays, scipy's LAPACK, twobody's Kepler solver --
    compared with the compiled extension on every run (validation of the transliterator and
    staleness detector between .pyx and .so).
"""
import math
import re

from . import core, symnp, loader
from .core import SN, UnsupportedByShim, z3

PYX = "thejoker/src/fast_likelihood.pyx"

_CTYPE = r"(?:unsigned\s+)?(?:int|double|long|float|char\*?|object|bint|void)"


class TransliterationError(UnsupportedByShim):
    pass


def _strip_params(sig):
    parts, depth, cur = [], 0, ""
    for ch in sig:
        if ch in "[(":
            depth += 1
        if ch in "])":
            depth -= 1
        if ch == "," and depth == 0:
            parts.append(cur)
            cur = ""
        else:
            cur += ch
    parts.append(cur)
    res = []
    for p in parts:
        p = p.strip()
        if not p:
            continue
        m = re.match(r"^(?:double|int|object|long|float|bint)(?:\[[^\]]*\])?\s+(\w+)(.*)$", p)
        res.append(m.group(1) + m.group(2) if m else p)
    return ", ".join(res)


def _fix_expr(line):
    # pointer taking:  &(X)[0] / &X[0, 0] / &(X[0,0])  ->  _ptr(X, (idx,))
    line = re.sub(r"&\(?([\w\.]+)\)?\[([^\]]*)\]\)?", r"_ptr(\1, (\2,))", line)
    # &(self.n) / &self.n / &info : scalars passed by reference to LAPACK -> the value (info -> None)
    line = re.sub(r"&\(([\w\.]+)\)", r"\1", line)
    line = re.sub(r"&info\b", "None", line)
    line = re.sub(r"&([\w\.]+)", r"\1", line)
    return line


def transliterate(src=None):
    if src is None:
        src = loader.source_of(PYX)
    lines = src.split("\n")
    out = []
    i = 0
    in_block = False
    block_indent = None
    skip_extern = False
    while i < len(lines):
        line = lines[i]
        i += 1
        s = line.strip()
        ind = len(line) - len(line.lstrip())
        if skip_extern:
            if s == "" or ind > 0:
                continue
            skip_extern = False
        if in_block:
            if s == "":
                out.append("")
                continue
            if ind <= block_indent:
                in_block = False
            else:
                if s.startswith("#"):
                    out.append(" " * block_indent + s)
                    continue
                m = re.match(r"^(?:public\s+)?(?:unsigned\s+)?[\w\*]+(?:\[[^\]]*\])?\*?\s+(.*)$", s)
                body = m.group(1) if m else s
                if "=" in body:
                    stmt = _fix_expr(body)
                    # multi-line initialiser: keep continuation lines
                    depth = stmt.count("(") - stmt.count(")")
                    out.append(" " * block_indent + stmt)
                    while depth > 0 and i < len(lines):
                        nxt = lines[i]
                        i += 1
                        out.append(" " * (block_indent + 4) + _fix_expr(nxt.strip()))
                        depth += nxt.count("(") - nxt.count(")")
                elif not m:
                    raise TransliterationError("unrecognised line in a cdef block: %r" % s)
                continue
        if s.startswith("cimport") or re.match(r"^from\s+[\w\.]+\s+cimport", s) or s == "np.import_array()" or s == "import cython":
            continue
        if s.startswith("cdef extern"):
            skip_extern = True
            continue
        if s == "cdef:":
            in_block = True
            block_indent = ind
            continue
        m = re.match(r"^(\s*)cdef class (\w+):", line)
        if m:
            out.append("%sclass %s:" % (m.group(1), m.group(2)))
            continue
        if s.startswith(("cdef ", "cpdef ", "def ")) and "(" in s and not re.match(r"^cdef\s+" + _CTYPE + r"(?:\[[^\]]*\])?\s+\w+\s*(=|$)", s):
            m = re.match(r"^(\s*)c?p?def\s+(?:(?:inline\s+)?[\w\*]+\s+)?(\w+)\((.*)$", line)
            if not m:
                raise TransliterationError("unrecognised function header: %r" % s)
            sig = m.group(3)
            while not sig.rstrip().endswith("):"):
                if i >= len(lines):
                    raise TransliterationError("unterminated signature: %r" % s)
                sig = sig.rstrip() + " " + lines[i].strip()
                i += 1
            sig = sig.rstrip()[:-2]
            out.append("%sdef %s(%s):" % (m.group(1), m.group(2), _strip_params(sig)))
            continue
        m = re.match(r"^(\s*)cdef\s+" + r"[\w\*]+(?:\[[^\]]*\])?\s+(.*)$", line)
        if m:
            body = m.group(2)
            if "=" in body:
                out.append(m.group(1) + _fix_expr(body))
            continue
        if re.search(r"\bcdef\b|\bcpdef\b|\bctypedef\b|<\s*\w+\s*>", s) and not s.startswith("#"):
            raise TransliterationError("Cython construct without a transliteration rule: %r" % s)
        out.append(_fix_expr(line))
    py = "\n".join(out)
    py = re.sub(r"^(\s*)(lapack\.\w+\()", r"\1info = \2", py, flags=re.M)
    try:
        compile(py, "fast_likelihood_transliterated.py", "exec")
    except SyntaxError as e:
        raise TransliterationError("transliteration does not parse: %s" % e)
    return py


# ---------------------------------------------------------------------------------------------
# symbolic runtime
# ---------------------------------------------------------------------------------------------

class Ptr:
    """address of a cell of a C-contiguous array: (array, flat offset)"""
    def __init__(self, arr, idx):
        self.arr = arr
        a = arr.a if isinstance(arr, symnp.SymArray) else arr
        if not isinstance(idx, tuple):
            idx = (idx,)
        self.shape = a.shape
        off = 0
        for k, d in zip(idx, a.shape):
            k = int(k)
            if not (0 <= k < d):
                raise IndexError("pointer outside the array")
            off = off * d + k
        self.off = off

    def flat(self):
        a = self.arr.a if isinstance(self.arr, symnp.SymArray) else self.arr
        if not a.flags["C_CONTIGUOUS"]:
            raise UnsupportedByShim("pointer into a non-contiguous array")
        return a.reshape(-1)


class Recorder:
    """what the kernel handed to the external routines on this run"""
    def __init__(self):
        self.calls = []
        self.n_tags = 0

    def tag(self):
        """unique per run (names of the fresh LU/INV/SOL symbols), also when `calls` is truncated after a prelude"""
        self.n_tags += 1
        return self.n_tags - 1

    def of(self, name):
        return [c for c in self.calls if c[0] == name]


def make_lapack(rec):
    class Lapack:
        @staticmethod
        def dgetrf(m, n, A, lda, ipiv, info):
            flat = A.flat()
            m, n = int(m), int(n)
            inp = [flat[A.off + k] for k in range(m * n)]
            tag = rec.tag()
            rec.calls.append(("dgetrf", n, inp, tag))
            lu = [core.real("LU%d_%d" % (tag, k)) for k in range(m * n)]
            for k in range(m * n):
                flat[A.off + k] = lu[k]
            A.arr._lu_of = (inp, n, tag)
            return 0

        @staticmethod
        def dgetri(n, A, lda, ipiv, work, lwork, info):
            n = int(n)
            flat = A.flat()
            if not hasattr(A.arr, "_lu_of"):
                raise UnsupportedByShim("dgetri on a matrix that was not LU-factorised")
            inp, n0, tag0 = A.arr._lu_of
            tag = rec.tag()
            out = [core.real("INV%d_%d" % (tag, k)) for k in range(n * n)]
            rec.calls.append(("dgetri", n, inp, out, tag))
            for k in range(n * n):
                flat[A.off + k] = out[k]
            # contract: X . X^-1 = I. The matrix LAPACK sees is the transpose of the row-major memory; the
            # inverse of the transpose is the transpose of the inverse, so the row-major result is X^-1.
            ctx = core.Ctx.cur
            for i in range(n):
                for j in range(n):
                    s = core.sym_sum([inp[i * n + k] * out[k * n + j] for k in range(n)])
                    ctx.add_side(core.lift(s == (1 if i == j else 0)))
            return 0

        @staticmethod
        def dsysv(uplo, n, nrhs, A, lda, ipiv, b, ldb, work, lwork, info):
            n = int(n)
            fa, fb = A.flat(), b.flat()
            inp = [fa[A.off + k] for k in range(n * n)]
            rhs = [fb[b.off + k] for k in range(n)]
            tag = rec.tag()
            sol = [core.real("SOL%d_%d" % (tag, k)) for k in range(n)]
            # Fortran 'U' = upper triangle of the column-major matrix = LOWER triangle of the row-major memory
            if uplo in ("U", b"U"):
                S = [[inp[max(i, j) * n + min(i, j)] for j in range(n)] for i in range(n)]
            else:
                S = [[inp[min(i, j) * n + max(i, j)] for j in range(n)] for i in range(n)]
            rec.calls.append(("dsysv", n, S, rhs, sol, tag))
            ctx = core.Ctx.cur
            for i in range(n):
                ctx.add_side(core.lift(core.sym_sum([S[i][k] * sol[k] for k in range(n)]) == rhs[i]))
            for k in range(n):
                fb[b.off + k] = sol[k]
            return 0
    return Lapack()


def make_kepler(rec):
    def c_rv_from_elements(t, rv, N, P, K, e, om, M0, t0, tol, maxiter):
        N = int(N)
        ft, frv = t.flat(), rv.flat()
        rec.calls.append(("kepler", t.arr, t.off, rv.arr, rv.off, N, P, K, e, om, M0, t0, tol, maxiter))
        for n in range(N):
            frv[rv.off + n] = K * core.uf("RV", ft[t.off + n] - t0, P, e, om, M0)
    return c_rv_from_elements


def _c_pow(x, y):
    return core.uf("POW", x, y)


def namespace_symbolic(rec, extra=None):
    """globals for the transliterated module in symbolic mode"""
    ns = {
        "__name__": "thejoker.src.fast_likelihood",
        "_ptr": lambda arr, idx: Ptr(arr, idx),
        "lapack": make_lapack(rec),
        "c_rv_from_elements": make_kepler(rec),
        "pow": _c_pow,
        "log": lambda x: core.uf("LOG", x) if core.is_sym(x) else math.log(x),
        "fabs": lambda x: abs(x),
        "pi": math.pi,
        "min": lambda *a: core.sym_min(a),
        "max": lambda *a: core.sym_max(a),
        "float": lambda x: float(x) if not core.is_sym(x) else x,
    }
    if extra:
        ns.update(extra)
    return ns


def load_symbolic(shims, rec, extra=None):
    """execute the transliterated kernel module under the shimmed import environment"""
    import builtins
    import types
    py = transliterate()
    b = dict(vars(builtins))
    b["__import__"] = loader.make_import("thejoker.src", shims)
    mod = types.ModuleType("thejoker.src.fast_likelihood")
    mod.__dict__.update(namespace_symbolic(rec, extra))
    mod.__dict__["__builtins__"] = b
    mod.__dict__["__package__"] = "thejoker.src"
    # C arithmetic on the symbolic side: builtins min/max must be the ite versions
    b["min"] = mod.__dict__["min"]
    b["max"] = mod.__dict__["max"]
    exec(compile(py, "/repo/" + PYX + " (transliterated)", "exec"), mod.__dict__)
    import hashlib
    loader.LOADED.append((PYX, hashlib.sha256(loader.source_of(PYX).encode()).hexdigest()))
    return mod


# ---------------------------------------------------------------------------------------------
# concrete runtime ("pyx-interp"): numpy + scipy LAPACK + twobody
# ---------------------------------------------------------------------------------------------

def load_concrete():
    import numpy as np
    import scipy.linalg.lapack as sl
    from twobody.wrap import cy_rv_from_elements

    class CPtr:
        def __init__(self, arr, idx):
            self.arr, self.idx = np.asarray(arr), idx if isinstance(idx, tuple) else (idx,)
            self.off = int(np.ravel_multi_index(self.idx, self.arr.shape))

    class Lapack:
        def dgetrf(self, m, n, A, lda, ipiv, info):
            a = A.arr
            lu, piv, inf = sl.dgetrf(a.T)   # row-major memory seen by Fortran = transpose
            a[...] = lu.T
            ipiv.arr[...] = piv + 1
            return inf

        def dgetri(self, n, A, lda, ipiv, work, lwork, info):
            a = A.arr
            inv, inf = sl.dgetri(a.T, ipiv.arr - 1)
            a[...] = inv.T
            return inf

        def dsysv(self, uplo, n, nrhs, A, lda, ipiv, b, ldb, work, lwork, info):
            a, bb = A.arr, b.arr
            lower = 0 if uplo in ("U", b"U") else 1
            udut, piv, x, inf = sl.dsysv(a.T, bb, lower=lower)
            bb[...] = x
            return inf

    def c_rv_from_elements(t, rv, N, P, K, e, om, M0, t0, tol, maxiter):
        tt = t.arr.reshape(-1)[t.off:t.off + N]
        out = np.asarray(cy_rv_from_elements(np.ascontiguousarray(tt), P, K, e, om, M0, t0, tol, maxiter))
        rv.arr.reshape(-1)[rv.off:rv.off + N] = out

    def c_pow(x, y):
        try:
            return math.pow(x, y)
        except (ValueError, OverflowError):
            return float("nan")
    py = transliterate()
    py = py.replace("from ..distributions import FixedCompanionMass", "from thejoker.distributions import FixedCompanionMass")
    g = {"__name__": "fast_likelihood_pyxinterp", "_ptr": lambda a, i: CPtr(a, i), "lapack": Lapack(),
         "c_rv_from_elements": c_rv_from_elements, "pow": c_pow, "log": lambda x: math.log(x) if x > 0 else float("nan"),
         "fabs": math.fabs, "pi": math.pi}
    exec(compile(py, "/repo/" + PYX + " (transliterated, concrete)", "exec"), g)
    return g
